"""Entry point: ./check <Cxx> <quick|thorough> [--replay file]

Exit 0: property held on everything explored (KNOWN-FINDING lines allowed).
Exit 1: at least one `VIOLATION property=<id> replay=<path>` line was printed.
Exit 2: infrastructure failure / time-out (never a verdict)."""
from __future__ import annotations
import importlib, json, os, sys, time, traceback
from pathlib import Path
from harness.core import lean, findings
from harness.core.ctx import Ctx, VERIF, LEAN

TRUSTED_BASE = [
    "Lean 4.33 kernel; axioms allowed: propext, Classical.choice, Quot.sound (audited by #print axioms on every run)",
    "no native_decide / bv_decide / sorry / own axioms (grep on every run)",
    "hand-written Lean models in lean/SedpackModel (tied to /repo by the correspondence runs of this check)",
    "the Python correspondence harness (observation -> label abstraction, canonicalisation) and the Lean JSON driver",
]


def report(ctx: Ctx, sig: dict, what: str, payload: dict, name: str | None = None, nofail: bool = False):
    """Record a violation (or a KNOWN-FINDING if listed)."""
    k = findings.match(ctx.prop, sig)
    if k is not None:
        line = f"KNOWN-FINDING: property={ctx.prop} {k.get('id','')} {k.get('what', what)}"
        if line not in ctx.known_hits:
            ctx.known_hits.append(line)
            print(line, flush=True)
        return
    key = json.dumps(sig, sort_keys=True, default=str)
    for v in ctx.violations:                      # one report per distinct signature
        if v["key"] == key:
            v["count"] += 1
            return
    name = name or f"v{len(ctx.violations)}"
    payload = dict(payload); payload["signature"] = sig; payload["what"] = what
    path = ctx.write_replay(name, payload)
    ctx.violations.append({"sig": sig, "key": key, "count": 1, "what": what, "replay": str(path), "nofail": nofail})
    tail = " no-failing-input-found" if nofail else ""
    print(f"VIOLATION property={ctx.prop} replay={path}{tail}", flush=True)
    ctx.log("violation:", what)


Ctx.report = report  # type: ignore[attr-defined]


def main(argv):
    if len(argv) < 2:
        print(__doc__); return 2
    prop, tier = argv[0], argv[1]
    replay = argv[argv.index("--replay") + 1] if "--replay" in argv else None
    tier = os.environ.get("VERIF_TIER") or tier
    ctx = Ctx(prop, tier, replay)
    for old in (VERIF / "evidence" / "replays").glob(f"{prop}_*.json"):
        if replay is None or old.resolve() != Path(replay).resolve():
            old.unlink()
    mod = importlib.import_module(f"harness.checks.{prop.lower()}")

    # ---- 1. Lean: build, forbidden tokens, axiom audit -------------------------------------
    # every table that is generated from /repo's source is regenerated on every run of every check (each file is
    # rewritten only when its content changes), so that a stale table can never linger in the tree
    from harness import extract_tables as E, extract_order as O
    for gen in (E.gen_c01, E.gen_c12, E.gen_c16, E.gen_c19, O.gen_src):
        gen()
    pre = getattr(mod, "pre_build", None)
    if pre:
        pre(ctx)                      # e.g. regenerate tables from /repo
    driver_ok, dout = lean.build(["driver"])            # the executable models (no proofs involved)
    targets = [f"SedpackProps.{p.stem}" for p in sorted((LEAN / "SedpackProps").glob(f"{prop}*.lean"))]
    ok, out = lean.build(targets)
    proof_broken: list[str] = []
    if not driver_ok:
        ctx.log("lake build driver failed:\n" + dout[-3000:])
        proof_broken.append("lake build driver: " + dout[-1500:])
    if not ok:
        ctx.log("lake build failed:\n" + out[-3000:])
        errs = [l for l in out.split("\n") if l.startswith("error")]
        proof_broken.append("lake build: " + " | ".join(errs[:4])[:1500])
    tokens = lean.forbidden_tokens()
    if tokens:
        proof_broken.append("forbidden tokens: " + "; ".join(tokens[:5]))
    aud = {"theorems": [], "axioms": {}, "bad": {}}
    if ok:
        aud = lean.audit(prop)
        if aud["bad"] or aud["rc"] != 0:
            proof_broken.append(f"axiom audit: {aud['bad']} {aud['out'][-800:]}")
    obligations = len(aud["theorems"])
    discharged = sum(1 for t in aud["theorems"] if t not in aud["bad"]) if ok and not tokens else 0
    checker_cmd = "cd lean && lake build && lake env lean .lake/audit/Audit_%s.lean" % prop
    if ctx.thorough and ok:
        okc, outc = lean.leanchecker(prop)
        checker_cmd += " && lake env leanchecker SedpackProps.%s*" % prop
        if not okc:
            proof_broken.append("leanchecker: " + outc)
    ctx.cov.update({"obligations": obligations, "discharged": discharged, "checker_cmd": checker_cmd,
                    "theorems": aud["theorems"],
                    "axioms_used": sorted({a for v in aud["axioms"].values() if v for a in v})})

    # ---- 2. correspondence + oracle ---------------------------------------------------------
    rc = 0
    try:
        if driver_ok or getattr(mod, "RUN_WITHOUT_LEAN", False):
            mod.run(ctx)
        else:
            # the model cannot be consulted: still search the implementation for a failing input
            if hasattr(mod, "search_only"):
                mod.search_only(ctx)
    except Exception as ex:  # infrastructure failure
        traceback.print_exc()
        ctx.log("infrastructure failure:", repr(ex))
        rc = 2

    # ---- 3. proof obligation broken but no failing input found ------------------------------
    if proof_broken and not [v for v in ctx.violations if not v["nofail"]]:
        ctx.report({"kind": "proof-obligation"}, "proof obligation no longer checks: " + proof_broken[0][:300],
                   {"broken": proof_broken, "theorems": aud["theorems"]}, name="proof", nofail=True)

    # ---- 4. evidence -------------------------------------------------------------------------
    cov = ctx.cov
    cov.setdefault("evaluations", 0); cov.setdefault("distinct_nontrivial", 0)
    cov.setdefault("rule", ""); cov.setdefault("samples", [])
    cov["trusted_base"] = TRUSTED_BASE + list(getattr(mod, "TRUSTED", []))
    cov["known_findings_hit"] = ctx.known_hits
    ev = {"property_id": prop, "tier": "thorough" if ctx.thorough else "quick", "seed": ctx.seed, "level": "proof",
          "coverage": cov, "assumptions": list(getattr(mod, "ASSUMPTIONS", [])) + ctx.assumptions,
          "wall_s": round(ctx.elapsed(), 2), "violations": len(ctx.violations)}
    (VERIF / "evidence").mkdir(exist_ok=True)
    (VERIF / "evidence" / f"{prop}.json").write_text(json.dumps(ev, indent=1, default=str))
    if ctx.violations:
        return 1
    return rc


if __name__ == "__main__":
    sys.exit(main(sys.argv[1:]))
