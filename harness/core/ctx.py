"""Run context: locations, seed/tier, scratch space, violations, evidence accumulation."""
from __future__ import annotations
import atexit, json, os, random, shutil, sys, tempfile, time
from pathlib import Path

VERIF = Path(__file__).resolve().parents[2]
LEAN = VERIF / "lean"
REPO = Path(os.environ.get("SEDPACK_REPO", "/repo"))
PY = "/venv/bin/python"
GUARD = "SEDPACK_VERIF"


class Ctx:
    def __init__(self, prop: str, tier: str, replay: str | None = None):
        self.prop = prop
        self.tier = tier
        self.replay = replay
        self.seed = int(os.environ.get("VERIF_SEED", "0") or 0)
        self.t0 = time.time()
        self.violations: list[dict] = []
        self.known_hits: list[str] = []
        self.cov: dict = {}
        self.assumptions: list[str] = []
        self._scratch: Path | None = None
        self.notes: list[str] = []

    # -- deterministic randomness ------------------------------------------------------------
    def rng(self, label: str) -> random.Random:
        return random.Random(f"{self.seed}/{self.prop}/{label}")

    @property
    def thorough(self) -> bool:
        return self.tier == "thorough"

    def pick(self, quick, thorough):
        return thorough if self.thorough else quick

    # -- scratch -----------------------------------------------------------------------------
    @property
    def scratch(self) -> Path:
        if self._scratch is None:
            base = Path(os.environ.get("SEDPACK_VERIF_SCRATCH", "/var/tmp"))
            base.mkdir(parents=True, exist_ok=True)
            self._scratch = Path(tempfile.mkdtemp(prefix=f"sedpack-verif.{os.getpid()}.", dir=base))
            atexit.register(shutil.rmtree, self._scratch, True)
        return self._scratch

    def elapsed(self) -> float:
        return time.time() - self.t0

    def log(self, *a):
        print(f"[{self.prop} {self.elapsed():6.1f}s]", *a, file=sys.stderr, flush=True)

    # -- replay files ------------------------------------------------------------------------
    def write_replay(self, name: str, payload: dict) -> Path:
        d = VERIF / "evidence" / "replays"
        d.mkdir(parents=True, exist_ok=True)
        p = d / f"{self.prop}_{name}.json"
        payload = dict(payload)
        payload.setdefault("property", self.prop)
        payload.setdefault("seed", self.seed)
        payload.setdefault("replay_cmd", f"./check {self.prop} {self.tier} --replay {p.relative_to(VERIF)}")
        p.write_text(json.dumps(payload, indent=1, default=str))
        return p
