"""Build the Rust extension from /repo/rust's *current* sources (offline) and make it the
`sedpack._sedpack_rs` that gets imported.  Cached by a hash of the crate sources."""
from __future__ import annotations
import hashlib, importlib.machinery, importlib.util, os, shutil, subprocess, sys
from pathlib import Path
from .ctx import REPO

CACHE = Path(os.environ.get("SEDPACK_VERIF_RUSTCACHE", "/var/tmp/sedpack-verif-rust"))


class RustBuildError(Exception):
    pass


def source_hash() -> str:
    h = hashlib.sha256()
    files = sorted((REPO / "rust" / "src").rglob("*.rs")) + [REPO / "rust" / "Cargo.toml", REPO / "rust" / "Cargo.lock"]
    for f in files:
        h.update(str(f.relative_to(REPO)).encode()); h.update(f.read_bytes())
    return h.hexdigest()[:16]


def build() -> Path:
    """Returns the path of the freshly built (or cached) extension module."""
    hv = source_hash()
    out = CACHE / hv / "_sedpack_rs.cpython-312-x86_64-linux-gnu.so"
    if out.exists():
        return out
    CACHE.mkdir(parents=True, exist_ok=True)
    env = dict(os.environ, CARGO_NET_OFFLINE="true", PYO3_PYTHON="/venv/bin/python")
    p = subprocess.run(["cargo", "build", "--release", "--offline", "--features", "pyo3/extension-module",
                        "--target-dir", str(CACHE / "target")], cwd=REPO / "rust", env=env,
                       capture_output=True, text=True, timeout=1800)
    so = CACHE / "target" / "release" / "libsedpack_rs.so"
    if p.returncode != 0 or not so.exists():
        raise RustBuildError(p.stderr[-3000:])
    for old in CACHE.iterdir():                     # keep one cached build only
        if old.is_dir() and old.name not in ("target", hv):
            shutil.rmtree(old, ignore_errors=True)
    out.parent.mkdir(parents=True, exist_ok=True)
    tmp = out.with_suffix(".tmp")
    shutil.copy2(so, tmp); os.replace(tmp, out)
    return out


def install() -> Path:
    """Import the freshly built extension as sedpack._sedpack_rs (must run before sedpack.io is imported)."""
    so = build()
    if "sedpack._sedpack_rs" in sys.modules and getattr(sys.modules["sedpack._sedpack_rs"], "__file__", None) == str(so):
        return so
    if "sedpack.io" in sys.modules:
        raise RustBuildError("sedpack.io imported before the rebuilt extension was installed")
    import sedpack
    loader = importlib.machinery.ExtensionFileLoader("sedpack._sedpack_rs", str(so))
    spec = importlib.util.spec_from_loader("sedpack._sedpack_rs", loader, origin=str(so))
    mod = importlib.util.module_from_spec(spec)
    loader.exec_module(mod)
    sys.modules["sedpack._sedpack_rs"] = mod
    sedpack._sedpack_rs = mod
    return so
