"""Helpers around the real sedpack API (always imported from /repo's working tree)."""
from __future__ import annotations
import os, sys, json
os.environ.setdefault("TF_CPP_MIN_LOG_LEVEL", "3")
os.environ.setdefault("CUDA_VISIBLE_DEVICES", "")
from pathlib import Path
from .ctx import REPO

# make sure the working tree of /repo is what gets imported (the editable install points there too)
_src = str(REPO / "src")
if _src not in sys.path:
    sys.path.insert(0, _src)

import numpy as np  # noqa: E402


def sedpack(rust: bool = False):
    """Import sedpack from /repo's working tree; with rust=True the native extension is first
    rebuilt from /repo/rust's current sources and installed as sedpack._sedpack_rs."""
    import sedpack  # noqa
    if rust:
        from . import rustbuild
        rustbuild.install()
    import sedpack.io  # noqa
    assert Path(sedpack.__file__).resolve().is_relative_to(REPO.resolve()), sedpack.__file__
    return sedpack


HASH_CHOICES = [("sha256",), (), ("xxh64", "md5", "xxh64"), ("sha256",)]


def mk(path, fmt="fb", comp="", eps=3, attrs=None, hashes=None, custom=None):
    """Create a dataset.  When the caller does not care about the checksum configuration (`hashes=None`) it is varied
    deterministically with the location: one algorithm, none at all, several with a repetition."""
    sedpack()
    if hashes is None:
        import zlib
        hashes = HASH_CHOICES[zlib.crc32(str(Path(path).name).encode()) % len(HASH_CHOICES)]
    from sedpack.io import Dataset, Metadata, DatasetStructure, Attribute
    attrs = attrs or [Attribute(name="a", dtype="int32", shape=(2,))]
    ds = DatasetStructure(saved_data_description=attrs, compression=comp, examples_per_shard=eps,
                          shard_file_type=fmt, hash_checksum_algorithms=tuple(hashes))
    return Dataset.create(path=path, metadata=Metadata(description="x", custom_metadata=custom or {}),
                          dataset_structure=ds)


def val(v: int):
    """The example payload carrying id `v` for the default attribute list."""
    return {"a": np.array([v, v], dtype=np.int32)}


def ident(e) -> int:
    x = np.asarray(e["a"]).reshape(-1)[0]
    if isinstance(x, (bytes, np.bytes_)):
        x = x.decode()
    return int(float(x))        # (npz may have turned a mixed column into floats or text)


def read_ids(d, split="train", **kw):
    kw.setdefault("shuffle", 0)
    kw.setdefault("repeat", False)
    return [ident(e) for e in d.as_numpy_iterator(split=split, **kw)]


def default_comp(fmt: str) -> str:
    return {"fb": "", "npz": "", "tfrec": ""}[fmt]
