"""Lean side: build, axiom audit, forbidden-token grep, line-protocol driver client."""
from __future__ import annotations
import json, os, re, subprocess, hashlib
from pathlib import Path
from .ctx import LEAN

ALLOWED_AXIOMS = {"propext", "Classical.choice", "Quot.sound"}
FORBIDDEN = re.compile(r"\b(sorry|admit|native_decide|bv_decide|implemented_by|unsafe)\b|^\s*axiom\s|maxHeartbeats\s+0")


class LeanError(Exception):
    pass


def build(targets: list[str] | None = None, timeout: int = 3000) -> tuple[bool, str]:
    """`lake build` (a no-op when up to date). Returns (ok, output)."""
    cmd = ["lake", "build"] + (targets or [])
    p = subprocess.run(cmd, cwd=LEAN, capture_output=True, text=True, timeout=timeout)
    return p.returncode == 0, p.stdout + p.stderr


def strip_comments(src: str) -> str:
    # remove /- ... -/ (nested not handled beyond one level, good enough) and -- comments
    out, i, depth = [], 0, 0
    while i < len(src):
        if src.startswith("/-", i):
            depth += 1; i += 2; continue
        if src.startswith("-/", i) and depth > 0:
            depth -= 1; i += 2; continue
        if depth == 0:
            out.append(src[i])
        elif src[i] == "\n":
            out.append("\n")
        i += 1
    s = "".join(out)
    return "\n".join(re.sub(r"--.*$", "", l) for l in s.split("\n"))


def forbidden_tokens() -> list[str]:
    hits = []
    for p in sorted(LEAN.rglob("*.lean")):
        if ".lake" in p.parts:
            continue
        for n, line in enumerate(strip_comments(p.read_text()).split("\n"), 1):
            if FORBIDDEN.search(line):
                hits.append(f"{p.relative_to(LEAN)}:{n}: {line.strip()}")
    return hits


def theorems_of(prop: str) -> list[str]:
    """Fully qualified names of every `theorem` in SedpackProps/<prop>*.lean."""
    names: list[str] = []
    for p in sorted((LEAN / "SedpackProps").glob(f"{prop}*.lean")):
        ns: list[str] = []
        for line in strip_comments(p.read_text()).split("\n"):
            m = re.match(r"^namespace\s+(\S+)", line)
            if m:
                ns.append(m.group(1)); continue
            m = re.match(r"^end\s+(\S+)", line)
            if m and ns and ns[-1] == m.group(1):
                ns.pop(); continue
            m = re.match(r"^(?:@\[[^\]]*\]\s*)?(?:private\s+|protected\s+)?theorem\s+(\S+)", line)
            if m:
                names.append(".".join(ns + [m.group(1)]))
    return names


def audit(prop: str) -> dict:
    """#print axioms for every property theorem. Returns {theorem: [axioms]} plus problems."""
    thms = theorems_of(prop)
    mods = sorted(p.stem for p in (LEAN / "SedpackProps").glob(f"{prop}*.lean"))
    d = LEAN / ".lake" / "audit"
    d.mkdir(parents=True, exist_ok=True)
    f = d / f"Audit_{prop}.lean"
    src = "".join(f"import SedpackProps.{m}\n" for m in mods) + "".join(f"#print axioms {t}\n" for t in thms)
    f.write_text(src)
    p = subprocess.run(["lake", "env", "lean", str(f)], cwd=LEAN, capture_output=True, text=True, timeout=1800)
    out = p.stdout + p.stderr
    res: dict[str, list[str] | None] = {t: None for t in thms}
    for m in re.finditer(r"'(\S+)' depends on axioms: \[([^\]]*)\]", out):
        res[m.group(1)] = [a.strip() for a in m.group(2).replace("\n", " ").split(",") if a.strip()]
    for m in re.finditer(r"'(\S+)' does not depend on any axioms", out):
        res[m.group(1)] = []
    bad = {t: a for t, a in res.items() if a is None or not set(a) <= ALLOWED_AXIOMS}
    return {"theorems": thms, "axioms": res, "bad": bad, "rc": p.returncode, "out": out if (bad or p.returncode) else ""}


def driver(requests: list[dict], timeout: int = 600) -> list[dict]:
    """Send all requests through the compiled driver, return the replies in order."""
    exe = LEAN / ".lake" / "build" / "bin" / "driver"
    if not exe.exists():
        raise LeanError("driver executable missing (lake build failed?)")
    data = "".join(json.dumps(r, separators=(",", ":")) + "\n" for r in requests)
    p = subprocess.run([str(exe)], input=data, capture_output=True, text=True, timeout=timeout)
    if p.returncode != 0:
        raise LeanError(f"driver exit {p.returncode}: {p.stderr[-2000:]}")
    lines = [l for l in p.stdout.split("\n") if l]
    if len(lines) != len(requests):
        raise LeanError(f"driver returned {len(lines)} lines for {len(requests)} requests: {p.stderr[-500:]}")
    return [json.loads(l) for l in lines]


def leanchecker(prop: str) -> tuple[bool, str]:
    mods = [f"SedpackProps.{p.stem}" for p in sorted((LEAN / "SedpackProps").glob(f"{prop}*.lean"))]
    p = subprocess.run(["lake", "env", "leanchecker"] + mods, cwd=LEAN, capture_output=True, text=True, timeout=3000)
    return p.returncode == 0, (p.stdout + p.stderr)[-2000:]
