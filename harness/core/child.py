"""Run a function of a harness module in a child interpreter that ends with os._exit, so that
non-daemon threads left blocked by the implementation under test can never hang a check."""
from __future__ import annotations
import json, os, subprocess, sys, tempfile
from pathlib import Path
from .ctx import PY, VERIF


class ChildTimeout(Exception):
    pass


class ChildError(Exception):
    pass


def call(module: str, func: str, arg, timeout: float = 600, env: dict | None = None, cwd: str | None = None):
    with tempfile.TemporaryDirectory(prefix="sedpack-verif-child.", dir="/var/tmp") as td:
        fin, fout = Path(td) / "in.json", Path(td) / "out.json"
        fin.write_text(json.dumps(arg))
        e = dict(os.environ)
        e["PYTHONPATH"] = f"{VERIF}:" + e.get("PYTHONPATH", "")
        e.setdefault("TF_CPP_MIN_LOG_LEVEL", "3")
        e.setdefault("CUDA_VISIBLE_DEVICES", "")
        if env:
            e.update(env)
        try:
            p = subprocess.run([PY, "-m", "harness.core.child", module, func, str(fin), str(fout)],
                               env=e, cwd=cwd, timeout=timeout, capture_output=True, text=True)
        except subprocess.TimeoutExpired as ex:
            raise ChildTimeout(f"{module}.{func} exceeded {timeout}s") from ex
        if not fout.exists():
            raise ChildError(f"{module}.{func} rc={p.returncode}\n{p.stderr[-4000:]}")
        return json.loads(fout.read_text())


def _main():
    module, func, fin, fout = sys.argv[1:5]
    import importlib
    arg = json.loads(Path(fin).read_text())
    res = getattr(importlib.import_module(module), func)(arg)
    tmp = fout + ".tmp"
    Path(tmp).write_text(json.dumps(res, default=str))
    os.replace(tmp, fout)
    sys.stdout.flush(); sys.stderr.flush()
    os._exit(0)


if __name__ == "__main__":
    _main()
