"""Known findings: a violation is *listed* iff some `known` entry for the property has all of its
`match` keys equal in the violation's signature.  The file is never written at run time."""
from __future__ import annotations
import json
from .ctx import VERIF


def load() -> dict:
    p = VERIF / "known_findings.json"
    if not p.exists():
        return {"known": [], "fixed": []}
    return json.loads(p.read_text())


def match(prop: str, sig: dict) -> dict | None:
    for k in load().get("known", []):
        if k.get("property") != prop:
            continue
        if all(sig.get(a) == b for a, b in k.get("match", {}).items()):
            return k
    return None
