#!/bin/bash
# seedmatrix.sh [tier] [names…] — run every confirmed seeded change against the check of its property
# (sequentially: each is applied to /repo, checked, undone).  Writes seeded/MATRIX.md.
HERE="$(cd "$(dirname "$0")/.." && pwd)"
TIER="${1:-quick}"; shift || true
NAMES="$@"; [ -z "$NAMES" ] && NAMES=$(ls "$HERE/seeded" | grep -E '^C[0-9]+_')
OUT="$HERE/seeded/MATRIX.md"
TMP=$(mktemp /var/tmp/seedmatrix.XXXXXX)
echo "| seed | property | applies | exit | verdict | first violation |" > "$TMP"; echo "|---|---|---|---|---|---|" >> "$TMP"
for n in $NAMES; do
  p="$HERE/seeded/$n/patch.diff"; prop="${n%%_*}"
  if ! git -C /repo apply --check "$p" 2>/dev/null; then echo "| $n | $prop | no | - | NOT-APPLICABLE | - |" >> "$TMP"; continue; fi
  log=$(mktemp /var/tmp/seedrun.XXXXXX)
  "$HERE/harness/seedtest.sh" "$p" "$TIER" "$prop" > "$log" 2>&1
  rc=$(grep -o "== $prop rc=[0-9]*" "$log" | tail -1 | sed 's/.*rc=//')
  first=$(grep -m1 "violation:" "$log" | sed 's/^\[[^]]*\] violation: //' | cut -c1-140 | tr '|' '/')
  v="MISSED"; [ "$rc" = "1" ] && v="caught"; [ "$rc" = "2" ] && v="INFRA"
  echo "| $n | $prop | yes | $rc | $v | $first |" >> "$TMP"
  echo "$n rc=$rc $v"
  rm -f "$log"
done
# merge with the rows already recorded for seeds that were not re-run
/venv/bin/python - "$OUT" "$TMP" <<'PY'
import sys, re
out, tmp = sys.argv[1:3]
rows = {}
def load(p):
    try:
        for l in open(p):
            m = re.match(r"\| (C\d+_\w+) \|", l)
            if m: rows[m.group(1)] = l.rstrip("\n")
    except FileNotFoundError:
        pass
load(out); load(tmp)
with open(out, "w") as f:
    f.write("# Seeded changes x checks (each row: last run of harness/seedmatrix.sh for that seed)\n\n")
    f.write("| seed | property | applies | exit | verdict | first violation |\n|---|---|---|---|---|---|\n")
    for k in sorted(rows): f.write(rows[k] + "\n")
PY
rm -f "$TMP"
git -C /repo status --short | grep -v '^??' && echo "WARNING: /repo not clean"
