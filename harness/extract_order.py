"""Translator for the *statement order* of the writer-side functions whose order the crash-safety (C06) and
all-or-nothing (C18) arguments rest on.  For each function the body is flattened, in evaluation order, into a
list of events — the last attribute of every callee (`write`, `replace`, `close_shard`, `deepcopy`, …), `set:<attr>`
/ `aug:<attr>` for (augmented) assignments to attributes or subscripts, `cmp:<ops>` for comparisons, `raise` — and emitted as a Lean list
(`SedpackProps/SrcGen.lean`), regenerated from /repo's current working tree on every run.  The theorems of
`C06Src.lean` / `C18Src.lean` are `decide`d over these lists by `lake build`.

Receivers and local variable names are dropped on purpose (renaming `tmp_file` is not a change of order)."""
from __future__ import annotations
import ast
from pathlib import Path
from harness.core.ctx import REPO, LEAN
from harness.extract_tables import _lean_str, write_if_changed

# tag -> (file, qualified name)
FUNCTIONS = {
    "safeUpdateFile": ("src/sedpack/io/utils.py", "safe_update_file"),
    "shardWrite": ("src/sedpack/io/shard/shard.py", "Shard.write"),
    "shardClose": ("src/sedpack/io/shard/shard.py", "Shard.close"),
    "writerBaseWrite": ("src/sedpack/io/shard/shard_writer_base.py", "ShardWriterBase.write"),
    "writeExample": ("src/sedpack/io/dataset_filler.py", "_DatasetFillerContext.write_example"),
    "closeShard": ("src/sedpack/io/dataset_filler.py", "_DatasetFillerContext.close_shard"),
    "fillerExit": ("src/sedpack/io/dataset_filler.py", "DatasetFiller.__exit__"),
    "updateInfos": ("src/sedpack/io/dataset_filler.py", "DatasetFiller._update_infos"),
    "mergeShardInfos": ("src/sedpack/io/merge_shard_infos.py", "merge_shard_infos"),
    "datasetWriteConfig": ("src/sedpack/io/dataset_writing.py", "DatasetWriting.write_config"),
    "writeMultiprocessing": ("src/sedpack/io/dataset_writing.py", "DatasetWriting.write_multiprocessing"),
    "listWriteConfig": ("src/sedpack/io/shard_file_metadata.py", "ShardsList.write_config"),
    "fbClose": ("src/sedpack/io/shard/shard_writer_flatbuffer.py", "ShardWriterFlatBuffer.close"),
    "npClose": ("src/sedpack/io/shard/shard_writer_np.py", "ShardWriterNP.close"),
    "checkListInfo": ("src/sedpack/io/dataset_writing.py", "DatasetWriting._check_shard_list_info"),
    "datasetCheck": ("src/sedpack/io/dataset_writing.py", "DatasetWriting.check"),
}


def _find(tree: ast.Module, qual: str):
    parts = qual.split(".")
    body = tree.body
    node = None
    for p in parts:
        node = next((n for n in body if isinstance(n, (ast.FunctionDef, ast.AsyncFunctionDef, ast.ClassDef)) and n.name == p), None)
        if node is None:
            return None
        body = node.body
    return node


def _last(expr: ast.AST) -> str:
    if isinstance(expr, ast.Attribute):
        return expr.attr
    if isinstance(expr, ast.Name):
        return expr.id
    if isinstance(expr, ast.Subscript):
        return _last(expr.value)
    if isinstance(expr, ast.Call):
        return _last(expr.func)
    return "?"


class _Events(ast.NodeVisitor):
    """Evaluation order: arguments before the call, the value before the assignment target."""

    def __init__(self):
        self.ev: list[str] = []

    def visit_Call(self, node: ast.Call):
        if isinstance(node.func, ast.Attribute):
            self.visit(node.func.value)
        for a in node.args:
            self.visit(a)
        for k in node.keywords:
            self.visit(k.value)
        self.ev.append(_last(node.func))

    def _target(self, t: ast.AST, kind: str):
        if isinstance(t, (ast.Attribute, ast.Subscript)):
            self.ev.append(f"{kind}:{_last(t)}")
        elif isinstance(t, (ast.Tuple, ast.List)):
            for e in t.elts:
                self._target(e, kind)

    def visit_Assign(self, node: ast.Assign):
        self.visit(node.value)
        for t in node.targets:
            self._target(t, "set")

    def visit_AnnAssign(self, node: ast.AnnAssign):
        if node.value is not None:
            self.visit(node.value)
            self._target(node.target, "set")

    def visit_AugAssign(self, node: ast.AugAssign):
        self.visit(node.value)
        self._target(node.target, "aug")

    def visit_Compare(self, node: ast.Compare):
        self.visit(node.left)
        for c in node.comparators:
            self.visit(c)
        self.ev.append("cmp:" + "".join(type(o).__name__ for o in node.ops))

    def visit_Raise(self, node: ast.Raise):
        self.ev.append("raise")          # (building the message is not an effect)

    def visit_Assert(self, node: ast.Assert):
        pass                              # assertions are not effects (and vanish under -O)

    def visit_Return(self, node: ast.Return):
        if node.value is not None:
            self.visit(node.value)
        self.ev.append("return")

    def visit_FunctionDef(self, node):    # nested definitions are not executed here
        pass

    visit_AsyncFunctionDef = visit_FunctionDef
    visit_Lambda = visit_FunctionDef


def events(tag: str) -> list[str]:
    file, qual = FUNCTIONS[tag]
    p = REPO / file
    if not p.is_file():
        return ["<missing file>"]
    node = _find(ast.parse(p.read_text()), qual)
    if node is None:
        return ["<missing function>"]
    v = _Events()
    for st in node.body:
        v.visit(st)
    return v.ev


def gen_src(dest: Path | None = None) -> bool:
    defs = []
    for tag, (file, qual) in FUNCTIONS.items():
        ev = events(tag)
        defs.append(f"/-- `{qual}` ({file}) -/\ndef {tag} : List String := [{', '.join(_lean_str(e) for e in ev)}]")
    text = '''/-!
GENERATED by harness/extract_order.py — do not edit.
For each writer-side function, its body flattened in evaluation order into events: the last attribute of every callee,
`set:<attr>` / `aug:<attr>` for (augmented) assignments to attributes or subscripts, `cmp:<ops>` for comparisons, `raise`, `return`.
-/
namespace Sedpack.Src

''' + "\n\n".join(defs) + '''

/-- position of the first / last occurrence of an event -/
def first (l : List String) (a : String) : Option Nat := let i := l.idxOf a; if i < l.length then some i else none
def last (l : List String) (a : String) : Option Nat := (first l.reverse a).map (fun i => l.length - 1 - i)

/-- `a` occurs, `b` occurs, and every `a` comes before every `b` -/
def allBefore (l : List String) (a b : String) : Bool :=
  match last l a, first l b with
  | some i, some j => i < j
  | _, _ => false

/-- `a` occurs, and no `b` occurs before the first `a` (`b` need not occur) -/
def noneBefore (l : List String) (b a : String) : Bool :=
  match first l a with
  | some i => !(l.take i).contains b
  | none => false

end Sedpack.Src
'''
    return write_if_changed((dest or (LEAN / "SedpackProps")) / "SrcGen.lean", text)


if __name__ == "__main__":
    for t in FUNCTIONS:
        print(t, events(t))
