"""Translator for the *statement order* of the writer-side functions whose order the crash-safety (C06) and
all-or-nothing (C18) arguments rest on.  For each function the body is flattened, in evaluation order, into a
list of events — the last attribute of every callee (`write`, `replace`, `close_shard`, `deepcopy`, …), `set:<attr>`
/ `aug:<attr>` for (augmented) assignments to attributes or subscripts, `cmp:<ops>` for comparisons, `raise` — and emitted as a Lean list
(`SedpackProps/SrcGen.lean`), regenerated from /repo's current working tree on every run.  The theorems of
`C06Src.lean` / `C18Src.lean` are `decide`d over these lists by `lake build`.

Receivers and local variable names are dropped on purpose (renaming `tmp_file` is not a change of order)."""
from __future__ import annotations
import ast
from pathlib import Path
from harness.core.ctx import REPO, LEAN
from harness.extract_tables import _lean_str, write_if_changed

# tag -> (file, qualified name)
FUNCTIONS = {
    "safeUpdateFile": ("src/sedpack/io/utils.py", "safe_update_file"),
    "shardWrite": ("src/sedpack/io/shard/shard.py", "Shard.write"),
    "shardClose": ("src/sedpack/io/shard/shard.py", "Shard.close"),
    "writerBaseWrite": ("src/sedpack/io/shard/shard_writer_base.py", "ShardWriterBase.write"),
    "writeExample": ("src/sedpack/io/dataset_filler.py", "_DatasetFillerContext.write_example"),
    "closeShard": ("src/sedpack/io/dataset_filler.py", "_DatasetFillerContext.close_shard"),
    "fillerExit": ("src/sedpack/io/dataset_filler.py", "DatasetFiller.__exit__"),
    "updateInfos": ("src/sedpack/io/dataset_filler.py", "DatasetFiller._update_infos"),
    "mergeShardInfos": ("src/sedpack/io/merge_shard_infos.py", "merge_shard_infos"),
    "datasetWriteConfig": ("src/sedpack/io/dataset_writing.py", "DatasetWriting.write_config"),
    "writeMultiprocessing": ("src/sedpack/io/dataset_writing.py", "DatasetWriting.write_multiprocessing"),
    "listWriteConfig": ("src/sedpack/io/shard_file_metadata.py", "ShardsList.write_config"),
    "fbClose": ("src/sedpack/io/shard/shard_writer_flatbuffer.py", "ShardWriterFlatBuffer.close"),
    "npClose": ("src/sedpack/io/shard/shard_writer_np.py", "ShardWriterNP.close"),
    "checkListInfo": ("src/sedpack/io/dataset_writing.py", "DatasetWriting._check_shard_list_info"),
    "datasetCheck": ("src/sedpack/io/dataset_writing.py", "DatasetWriting.check"),
    # (added with the ninth seed batch; for these, `try` / `except` / `endtry` and `if` / `endif` marks are emitted as well)
    "poolExit": ("src/sedpack/io/itertools/lazy_pool.py", "LazyPool.__exit__"),
    "poolReset": ("src/sedpack/io/itertools/lazy_pool.py", "LazyPool.finish_and_reset"),
    "shuffleBuffer": ("src/sedpack/io/itertools/itertools.py", "shuffle_buffer"),
    "shuffleBufferAsync": ("src/sedpack/io/itertools/itertools.py", "shuffle_buffer_async"),
    "roundRobin": ("src/sedpack/io/itertools/itertools.py", "round_robin"),
    "roundRobinAsync": ("src/sedpack/io/itertools/itertools.py", "round_robin_async"),
    "getHashFunction": ("src/sedpack/io/utils.py", "_get_hash_function"),
    "hashChecksums": ("src/sedpack/io/utils.py", "hash_checksums"),
    "datasetBaseInit": ("src/sedpack/io/dataset_base.py", "DatasetBase.__init__"),
    "fillerCtxInit": ("src/sedpack/io/dataset_filler.py", "_DatasetFillerContext.__init__"),
    "getNewShard": ("src/sedpack/io/dataset_filler.py", "_DatasetFillerContext._get_new_shard"),
    "datasetCreate": ("src/sedpack/io/dataset.py", "Dataset.create"),
    "imapUnordered": ("src/sedpack/io/itertools/lazy_pool.py", "LazyPool.imap_unordered"),
    "collectorRun": ("src/sedpack/io/itertools/lazy_pool.py", "Collector.run"),
    # the reading side: for these, a store whose target is rooted at `self` is emitted as `selfset:<attr>` / `selfaug:<attr>`
    "shardInfoIterator": ("src/sedpack/io/dataset_base.py", "DatasetBase.shard_info_iterator"),
    "shardInfoWalk": ("src/sedpack/io/dataset_base.py", "DatasetBase._shard_info_iterator"),
    "shardPathsDataset": ("src/sedpack/io/dataset_iteration.py", "DatasetIteration.shard_paths_dataset"),
    "asNumpyCommon": ("src/sedpack/io/dataset_iteration.py", "DatasetIteration.as_numpy_common"),
    "asNumpyIterator": ("src/sedpack/io/dataset_iteration.py", "DatasetIteration.as_numpy_iterator"),
    "asNumpyIteratorConcurrent": ("src/sedpack/io/dataset_iteration.py", "DatasetIteration.as_numpy_iterator_concurrent"),
    "asNumpyIteratorAsync": ("src/sedpack/io/dataset_iteration.py", "DatasetIteration.as_numpy_iterator_async"),
    "asNumpyIteratorRust": ("src/sedpack/io/dataset_iteration.py", "DatasetIteration.as_numpy_iterator_rust"),
    "asTfdataset": ("src/sedpack/io/dataset_iteration.py", "DatasetIteration.as_tfdataset"),
}
READERS = {"shardInfoIterator", "shardInfoWalk", "shardPathsDataset", "asNumpyCommon", "asNumpyIterator", "asNumpyIteratorConcurrent", "asNumpyIteratorAsync",
           "asNumpyIteratorRust", "asTfdataset"}
MARKED = {"poolExit", "poolReset", "shuffleBuffer", "shuffleBufferAsync", "roundRobin", "roundRobinAsync", "getHashFunction", "hashChecksums",
          "datasetBaseInit", "fillerCtxInit", "getNewShard", "imapUnordered", "collectorRun", "datasetCreate", "datasetWriteConfig"} | READERS


def _find(tree: ast.Module, qual: str):
    parts = qual.split(".")
    body = tree.body
    node = None
    for p in parts:
        node = next((n for n in body if isinstance(n, (ast.FunctionDef, ast.AsyncFunctionDef, ast.ClassDef)) and n.name == p), None)
        if node is None:
            return None
        body = node.body
    return node


def _last(expr: ast.AST) -> str:
    if isinstance(expr, ast.Attribute):
        return expr.attr
    if isinstance(expr, ast.Name):
        return expr.id
    if isinstance(expr, ast.Subscript):
        return _last(expr.value)
    if isinstance(expr, ast.Call):
        return _last(expr.func)
    return "?"


class _Events(ast.NodeVisitor):
    """Evaluation order: arguments before the call, the value before the assignment target."""

    def __init__(self, marks: bool = False, selfmarks: bool = False):
        self.ev: list[str] = []
        self.marks = marks
        self.selfmarks = selfmarks

    def visit_Try(self, node: ast.Try):
        if not self.marks:
            return self.generic_visit(node)
        self.ev.append("try")
        for st in node.body: self.visit(st)
        for h in node.handlers:
            self.ev.append("except")
            for st in h.body: self.visit(st)
        for st in node.orelse: self.visit(st)
        if node.finalbody:
            self.ev.append("finally")
            for st in node.finalbody: self.visit(st)
        self.ev.append("endtry")

    def visit_If(self, node: ast.If):
        if not self.marks:
            return self.generic_visit(node)
        self.visit(node.test)
        self.ev.append("if")
        for st in node.body: self.visit(st)
        if node.orelse:
            self.ev.append("else")
            for st in node.orelse: self.visit(st)
        self.ev.append("endif")

    def visit_YieldFrom(self, node: ast.YieldFrom):
        self.visit(node.value)
        if self.marks:
            self.ev.append("yieldfrom")

    def visit_Global(self, node: ast.Global):
        self.ev.append("global")

    def visit_Yield(self, node: ast.Yield):
        if node.value is not None:
            self.visit(node.value)
        if self.marks:
            self.ev.append("yield")

    @staticmethod
    def _is_logging(func: ast.AST) -> bool:
        """`logger.info(..)`, `self._logger.debug(..)`, `logging.warning(..)`, `print(..)`, `warnings.warn(..)`: diagnostics are not
        effects any model speaks about — adding or removing one must not move a proof obligation"""
        if isinstance(func, ast.Name):
            return func.id == "print"
        if isinstance(func, ast.Attribute) and func.attr in ("debug", "info", "warning", "warn", "error", "exception", "critical", "log"):
            base = func.value
            name = base.attr if isinstance(base, ast.Attribute) else (base.id if isinstance(base, ast.Name) else "")
            return "log" in name.lower() or name == "warnings"
        return False

    def visit_Call(self, node: ast.Call):
        if self._is_logging(node.func):
            return          # (its arguments are not visited either: building a message is not an effect)
        if isinstance(node.func, ast.Attribute):
            self.visit(node.func.value)
        for a in node.args:
            self.visit(a)
        for k in node.keywords:
            self.visit(k.value)
        self.ev.append(_last(node.func))

    def _target(self, t: ast.AST, kind: str):
        if isinstance(t, (ast.Attribute, ast.Subscript)):
            root = t
            while isinstance(root, (ast.Attribute, ast.Subscript)):
                root = root.value
            on_self = self.selfmarks and isinstance(root, ast.Name) and root.id == "self"
            self.ev.append(f"{'self' if on_self else ''}{kind}:{_last(t)}")
        elif isinstance(t, (ast.Tuple, ast.List)):
            for e in t.elts:
                self._target(e, kind)

    def visit_Assign(self, node: ast.Assign):
        self.visit(node.value)
        for t in node.targets:
            self._target(t, "set")

    def visit_AnnAssign(self, node: ast.AnnAssign):
        if node.value is not None:
            self.visit(node.value)
            self._target(node.target, "set")

    def visit_AugAssign(self, node: ast.AugAssign):
        self.visit(node.value)
        self._target(node.target, "aug")

    def visit_Compare(self, node: ast.Compare):
        self.visit(node.left)
        for c in node.comparators:
            self.visit(c)
        self.ev.append("cmp:" + "".join(type(o).__name__ for o in node.ops))

    def visit_Raise(self, node: ast.Raise):
        self.ev.append("raise")          # (building the message is not an effect)

    def visit_Assert(self, node: ast.Assert):
        pass                              # assertions are not effects (and vanish under -O)

    def visit_Return(self, node: ast.Return):
        if node.value is not None:
            self.visit(node.value)
        self.ev.append("return")

    def visit_FunctionDef(self, node):    # nested definitions are not executed here
        pass

    visit_AsyncFunctionDef = visit_FunctionDef
    visit_Lambda = visit_FunctionDef


def events(tag: str) -> list[str]:
    file, qual = FUNCTIONS[tag]
    p = REPO / file
    if not p.is_file():
        return ["<missing file>"]
    node = _find(ast.parse(p.read_text()), qual)
    if node is None:
        return ["<missing function>"]
    v = _Events(marks=tag in MARKED, selfmarks=tag in READERS)
    for st in node.body:
        v.visit(st)
    return v.ev


def gen_src(dest: Path | None = None) -> bool:
    defs = []
    kinds = {"cmp": set(), "store": set(), "selfstore": set()}
    for tag, (file, qual) in FUNCTIONS.items():
        ev = events(tag)
        kinds["cmp"] |= {e for e in ev if e.startswith("cmp:")}
        kinds["store"] |= {e for e in ev if e.startswith(("set:", "aug:"))}
        kinds["selfstore"] |= {e for e in ev if e.startswith(("selfset:", "selfaug:"))}
        defs.append(f"/-- `{qual}` ({file}) -/\ndef {tag} : List String := [{', '.join(_lean_str(e) for e in ev)}]")
    text = '''/-!
GENERATED by harness/extract_order.py — do not edit.
For each writer-side function, its body flattened in evaluation order into events: the last attribute of every callee,
`set:<attr>` / `aug:<attr>` for (augmented) assignments to attributes or subscripts, `cmp:<ops>` for comparisons, `raise`, `return`;
for the functions added later also `try` / `except` / `finally` / `endtry`, `if` / `else` / `endif`, `yield` / `yieldfrom`, `global`.
-/
namespace Sedpack.Src

''' + "\n\n".join(defs) + '''

/-- every comparison / store event that occurs in any of the lists above (the kind of an event is decided here, by the extractor:
string operations do not reduce in the kernel) -/
def cmpEvents : List String := [CMPS]
def storeEvents : List String := [STORES]
/-- (reading side only) stores whose target is rooted at `self` -/
def selfStoreEvents : List String := [SELFSTORES]
/-- does the function compare anything / store into an attribute or subscript? -/
def hasCmp (l : List String) : Bool := l.any (fun e => cmpEvents.contains e)
def hasStore (l : List String) : Bool := l.any (fun e => storeEvents.contains e)
def hasSelfStore (l : List String) : Bool := l.any (fun e => selfStoreEvents.contains e)
/-- how often an event occurs -/
def occurrences (l : List String) (a : String) : Nat := (l.filter (· == a)).length

/-- position of the first / last occurrence of an event -/
def first (l : List String) (a : String) : Option Nat := let i := l.idxOf a; if i < l.length then some i else none
def last (l : List String) (a : String) : Option Nat := (first l.reverse a).map (fun i => l.length - 1 - i)

/-- `a` occurs, `b` occurs, and every `a` comes before every `b` -/
def allBefore (l : List String) (a b : String) : Bool :=
  match last l a, first l b with
  | some i, some j => i < j
  | _, _ => false

/-- `a` occurs, and no `b` occurs before the first `a` (`b` need not occur) -/
def noneBefore (l : List String) (b a : String) : Bool :=
  match first l a with
  | some i => !(l.take i).contains b
  | none => false

end Sedpack.Src
'''
    text = text.replace("CMPS", ", ".join(_lean_str(e) for e in sorted(kinds["cmp"]))).replace("SELFSTORES", ", ".join(_lean_str(e) for e in sorted(kinds["selfstore"]))).replace("STORES", ", ".join(_lean_str(e) for e in sorted(kinds["store"])))
    return write_if_changed((dest or (LEAN / "SedpackProps")) / "SrcGen.lean", text)


if __name__ == "__main__":
    for t in FUNCTIONS:
        print(t, events(t))
