"""C04 — shard-list metadata always accounts exactly for what is stored.
Lean: SedpackProps/C04.lean (merge_spec, session/history exactness, counts) over M-TREE."""
from __future__ import annotations
import collections, json, shutil
from harness.core import lean, sp, child
from harness.checks import tree_common as T

ASSUMPTIONS = ["one live writing handle at a time; sessions complete (crashes are C06)", "uuid4 names are fresh (no collisions)"]
TRUSTED = ["modelled-not-verified: pydantic JSON (de)serialisation of the list documents, the shard decoders used for recounting"]


def run_cases(args):
    sp.sedpack()
    out = []
    for a in args:
        recs, create = T.run_history(__import__("pathlib").Path(a["root"]), a["fmt"], a["eps"], a["hist"], hashes=a.get("hashes", ["sha256"]))
        out.append({"case": {k: a[k] for k in a if k != "root"}, "recs": recs, "create": create})
        shutil.rmtree(a["root"], ignore_errors=True)
    return out


def gen(ctx, label):
    rng = ctx.rng(label)
    cases = []
    for i in range(ctx.pick(10, 60)):
        eps = rng.choice([1, 2, 3])
        hist = T.gen_history(rng, rng.choice([1, 2, 3, 4, 6] if not ctx.thorough else [2, 4, 6, 9, 12]), eps)
        cases.append({"root": str(ctx.scratch / f"{label}_{i}"), "fmt": ["fb", "npz", "tfrec"][i % 3], "eps": eps, "hist": hist,
                      # no checksum algorithm at all is a supported configuration
                      "hashes": [["sha256"], [], ["md5", "xxh32"]][(i // 3) % 3]})
    # corpus: directed histories
    directed = [
        [{"kind": "filler", "sub": "a", "writes": [[0, 3]], "reopen": False}, {"kind": "filler", "sub": "a", "writes": [[0, 2]], "reopen": False}],
        [{"kind": "filler", "sub": "a/y", "writes": [[0, 2]], "reopen": False}, {"kind": "filler", "sub": "a", "writes": [[0, 2]], "reopen": True}],
        [{"kind": "filler", "sub": "a/y", "writes": [[0, 2]], "reopen": False}, {"kind": "filler", "sub": "a/z", "writes": [[0, 3]], "reopen": False},
         {"kind": "filler", "sub": ".", "writes": [[0, 1]], "reopen": True}],
        [{"kind": "multi", "writers": [[[0, 2]], [[0, 3]], [[1, 1]]], "reopen": False}, {"kind": "filler", "sub": ".", "writes": [[0, 2]], "reopen": False},
         {"kind": "multi", "writers": [[[0, 1]], [[0, 1]]], "reopen": True}],
        [{"kind": "filler", "sub": "a", "writes": [[0, 2]], "reopen": False}, {"kind": "filler", "sub": "a/y", "writes": [[0, 2]], "reopen": False},
         {"kind": "filler", "sub": "b/y/q", "writes": [[0, 1], [1, 2]], "reopen": False}],
    ]
    directed += [
        # several sessions into the root of one split, without any checksum algorithm
        [{"kind": "filler", "sub": ".", "writes": [[0, 3]], "reopen": False}, {"kind": "filler", "sub": ".", "writes": [[0, 2]], "reopen": False},
         {"kind": "filler", "sub": ".", "writes": [[0, 4]], "reopen": True}],
        # a sub-directory named like another split
        [{"kind": "filler", "sub": ".", "writes": [[0, 3], [1, 2]], "reopen": False}, {"kind": "filler", "sub": "train", "writes": [[1, 3]], "reopen": False},
         {"kind": "filler", "sub": "test", "writes": [[2, 2]], "reopen": True}],
    ]
    directed += [
        # sibling directories one of whose names is a string prefix of the other's, at two levels, written in both orders
        [{"kind": "filler", "sub": "a", "writes": [[0, 3]], "reopen": False}, {"kind": "filler", "sub": "ab", "writes": [[0, 2]], "reopen": False},
         {"kind": "filler", "sub": "a/y", "writes": [[0, 2]], "reopen": True}, {"kind": "filler", "sub": "a/yz", "writes": [[0, 1]], "reopen": False},
         {"kind": "filler", "sub": "ab", "writes": [[0, 1]], "reopen": False}],
        [{"kind": "filler", "sub": "ab", "writes": [[0, 2], [1, 1]], "reopen": False}, {"kind": "filler", "sub": "a", "writes": [[0, 2], [1, 2]], "reopen": True},
         {"kind": "filler", "sub": ".", "writes": [[0, 1]], "reopen": False}],
        # a write the serializer rejects after the shape check passed (unsafe dtype), followed by accepted writes into the same shard
        [{"kind": "filler", "sub": ".", "writes": [[0, 1, "dtype"], [0, 2], [0, 1, "dtype"], [0, 1]], "reopen": False},
         {"kind": "multi", "writers": [[[0, 1, "dtype"], [0, 2]], [[1, 1, "dtype"]]], "reopen": True}],
    ]
    directed += [
        # sibling directories whose names differ only after the last dot, at two levels, one of them written again
        [{"kind": "filler", "sub": "part.0", "writes": [[0, 3]], "reopen": False}, {"kind": "filler", "sub": "part.1", "writes": [[0, 2], [1, 1]], "reopen": False},
         {"kind": "filler", "sub": "a/v1.2", "writes": [[0, 2]], "reopen": True}, {"kind": "filler", "sub": "a/v1.3", "writes": [[0, 3]], "reopen": False},
         {"kind": "filler", "sub": "part.0", "writes": [[0, 1]], "reopen": False}, {"kind": "filler", "sub": "b/x.json", "writes": [[0, 1]], "reopen": False}],
    ]
    # shards that hold thousands of examples (a large examples_per_shard): per-shard counts far beyond any small power of two
    big = [{"kind": "filler", "sub": ".", "writes": [[0, 2500], [1, 1030]], "reopen": False}, {"kind": "filler", "sub": "a", "writes": [[0, 2100]], "reopen": True}]
    cases.insert(0, {"root": str(ctx.scratch / f"{label}_big"), "fmt": ["npz", "fb"][ctx.seed % 2], "eps": 2600 if not ctx.thorough else 5000, "hist": big, "hashes": ["sha256"]})
    for j, h in enumerate(directed):
        cases.insert(0, {"root": str(ctx.scratch / f"{label}_d{j}"), "fmt": ["fb", "npz", "tfrec"][j % 3], "eps": 2, "hist": h,
                         "hashes": [] if j >= 5 and j % 2 == 1 else ["sha256"]})
    return cases


def analyse(ctx, results, prop):
    """Shared by C04 and C08: model comparison + oracles. Returns stats."""
    reqs, meta = [], []
    for ri, r in enumerate(results):
        for si in range(len(r["recs"])):
            req, ids, dirs = T.model_request(r["recs"], si)
            reqs.append(req); meta.append((ri, si, ids, dirs))
    reps = lean.driver(reqs) if reqs else []
    corr_bad, nsess, distinct = [], 0, set()
    for (ri, si, ids, dirs), rep in zip(meta, reps):
        r = results[ri]; rec = r["recs"][si]; nsess += 1
        case = r["case"]
        kinds = tuple((s["kind"], s.get("sub")) for s in case["hist"][:si + 1])
        distinct.add((case["fmt"], kinds[-1], len(kinds), bool(rec["session"].get("reopen"))))
        sig_hist = {"reused_subdir": any(kinds[:si].count(k) for k in [kinds[si]] if k[0] == "filler" and k[1] != "."),
                    "nested": any("/" in (k[1] or "") for k in kinds)}
        if prop == "C04":
            if rec["error"]:
                ctx.report(dict(sig_hist, kind="session-error", what=rec["error"].split(":")[0]),
                           f"session {si} ({rec['session']['kind']} {rec['session'].get('sub', '')}) raised {rec['error']}",
                           {"case": case, "session_index": si})
                break_ = True
            if rec["problems"]:
                ctx.report(dict(sig_hist, kind="inexact"), f"after session {si}: {rec['problems'][0]}", {"case": case, "session_index": si, "problems": rec["problems"][:8]})
            elif rec["handle_ok"] is not True:
                ctx.report({"kind": "handle"}, f"after session {si} the handle's in-memory description differs from a fresh open ({rec['handle_ok']})",
                           {"case": case, "session_index": si})
            elif rec["check_err"] and not rec["error"]:
                ctx.report({"kind": "check-fails"}, f"after session {si} Dataset.check() fails: {rec['check_err']}", {"case": case, "session_index": si})
        if "error" in rep:
            raise RuntimeError(rep)
        diffs = T.compare_with_model(rec, rep, ids, dirs)
        if diffs:
            corr_bad.append({"case": case, "session_index": si, "diffs": diffs[:4]})
    return corr_bad, nsess, distinct


def run(ctx):
    # ---- sessions nested in time on one handle (a root filler that has already closed a shard stays open while a complete session into an
    # existing sub-directory commits, then it exits): the metadata is exact afterwards
    from harness.checks import c08
    nest = child.call("harness.checks.c08", "nested_sessions",
                      [{"root": str(ctx.scratch / f"c04n_{i}"), "fmt": ["npz", "fb", "tfrec"][(i + ctx.seed) % 3], "eps": 2 + i % 2, "multi": False, "closed_first": True, "existing_sub": True}
                       for i in range(ctx.pick(2, 4))], timeout=900)
    for r in nest:
        if r.get("error") or r.get("problems") or r["got"] != r["want"]:
            ctx.report({"kind": "inexact", "nested_in_time": True},
                       f"a root filler left open (first shard closed) around a complete session into a sub-directory: {r.get('error') or ''} {(r.get('problems') or [''])[0]} (read back {len(r.get('got', []))} of {len(r['want'])} examples)",
                       {"nested_case": r["case"], "result": {k: v for k, v in r.items() if k != 'case'}})
    cases = gen(ctx, "c04")
    results = []
    for i in range(0, len(cases), 10):
        results += child.call("harness.checks.c04", "run_cases", cases[i:i + 10], timeout=1500)
    corr_bad, nsess, distinct = analyse(ctx, results, "C04")
    if corr_bad and not ctx.violations and not ctx.known_hits:
        ctx.report({"kind": "correspondence"}, "M-TREE no longer predicts the list documents the real code writes: " + corr_bad[0]["diffs"][0][:200],
                   {"correspondence": "M-TREE store vs shards_list.json documents after each session", "theorem": "Sedpack.Tree.C04_history_exact",
                    "cases": corr_bad[:3]}, name="corr", nofail=True)
    ctx.cov.update({
        "evaluations": nsess, "distinct_nontrivial": len(distinct), "traces_validated_against_impl": nsess - len(corr_bad),
        "correspondence_mismatches": len(corr_bad),
        "rule": "one history with shards of 1030-2500 examples; histories of 1-6 (thorough -12) completed sessions over {root filler, sub-directory filler (fresh, reused, nested up to depth 3), "
                "multi-writer call with 1-3 writers} x splits x reopen-or-keep handle, on fb/npz/tfrec; after every session the canonicalised list documents "
                "are compared with the model's store and an independent recount (decode every shard, walk the tree, files on disk vs listed) is evaluated; "
                "distinct = (format, last session kind/sub-directory, history length, reopened?)",
        "samples": [{"case": results[0]["case"], "closed": results[0]["recs"][0]["closed"]}] if results else [],
        "input_distribution": {"sessions": nsess, "kinds": collections.Counter(s["kind"] + ":" + str(s.get("sub", "")) for r in results for s in r["case"]["hist"])},
    })
