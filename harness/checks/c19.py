"""C19 — repeating iteration cycles through the whole split forever.
Lean: SedpackProps/C19.lean (cycle periodicity, the unshuffled stream as repeated one-pass sequence,
no monitor finishes on an endless source, only pulled elements are yielded, Rust epochs).
Oracle: the first m*N+r elements of every interface with repeat=True (the default): unshuffled =
one-pass sequence repeated; shuffled = only examples of the selected split, stream does not end;
Rust = a complete permutation of the split in every epoch.  Correspondence: the model's stream
formula (`paths[k mod n]`) is evaluated by the driver and compared with the real unshuffled prefix."""
from __future__ import annotations
import collections, json, shutil
from harness.core import lean, sp, child
from harness.checks import iter_common as I

ASSUMPTIONS = ["tf.data.Dataset.repeat repeats its input indefinitely (specified external)"]
TRUSTED = ["modelled-not-verified: tf.data repeat/shuffle, itertools.cycle"]


def run_e2e(args):
    sp.sedpack(rust=True)
    from sedpack.io import Dataset
    out = []
    for a in args:
        root = a["root"]
        ds, written = I.build_dataset(root, a["fmt"], a["comp"], a["eps"], a["plan"], hashes=None if a.get("hashes") is None else tuple(a["hashes"]))
        ds = Dataset(root)
        enum, enum_err = I.safe_enumeration(ds)
        rec = {"case": {k: a[k] for k in a if k != "root"}, "written": written, "enum_error": enum_err,
               "shards": {s: enum.get(s, []) for s in written}, "runs": []}
        for split in [s for s in written if written[s]]:
            N = len(written[split])
            for iface in I.IFACES:
                if not I.supports(iface, a["fmt"], a["comp"]):
                    continue
                for ci, (shuffle, T) in enumerate(a["configs"]):
                    take = a["m"] * N + a["r"]
                    spell = [True, "default", "np", "one"][(ci + a.get("spell", 0) + I.IFACES.index(iface)) % 4]
                    try:
                        got, _ = I.run_iface(ds, iface, split, shuffle=shuffle, T=T, repeat=spell, take=take)
                        rec["runs"].append({"iface": iface, "split": split, "shuffle": shuffle, "T": T, "take": take, "got": got, "spell": str(spell)})
                    except Exception as e:  # noqa: BLE001
                        rec["runs"].append({"iface": iface, "split": split, "shuffle": shuffle, "T": T, "take": take, "spell": str(spell),
                                            "error": f"{type(e).__name__}: {str(e)[:200]}"})
        # more reader threads than the split has shards (not a multiple of their number): a batch of shard paths then wraps around the
        # cycled list — the unshuffled stream is still the one-pass sequence repeated
        for split in [s for s in written if written[s]]:
            N = len(written[split]); nsh = len(rec["shards"][split]) or 1
            for iface in ("concurrent", "async", "rust", "tf"):
                if not I.supports(iface, a["fmt"], a["comp"]):
                    continue
                for T in sorted({nsh + 1, 2 * nsh + 1, 16}):
                    take = a["m"] * N + a["r"]
                    try:
                        got, _ = I.run_iface(ds, iface, split, shuffle=0, T=T, repeat=True, take=take)
                        rec["runs"].append({"iface": iface, "split": split, "shuffle": 0, "T": T, "take": take, "got": got, "wrap": True})
                    except Exception as e:  # noqa: BLE001
                        rec["runs"].append({"iface": iface, "split": split, "shuffle": 0, "T": T, "take": take, "wrap": True, "error": f"{type(e).__name__}: {str(e)[:200]}"})
        # a long run: well over a thousand epochs of a tiny split through one iterator (a training job left running): the stream
        # neither ends nor fails, and stays periodic — nothing may grow with the number of epochs (stack depth, handles, counters)
        if a.get("long"):
            lroot = root + "_long"
            lds, lw = I.build_dataset(lroot, a["fmt"], a["comp"], 1, [{"sub": ".", "writes": [(0, 2)]}])
            lds = Dataset(lroot)
            lone = [x for sh in I.safe_enumeration(lds)[0].get("train", []) for x in sh]
            for iface, shuffle in (("sync", 0), ("concurrent", 0), ("async", 0), ("sync", 3), ("rust", 0)):
                if not I.supports(iface, a["fmt"], a["comp"]):
                    continue
                take = a["long"] * 2 + 1
                try:
                    got, _ = I.run_iface(lds, iface, "train", shuffle=shuffle, T=2, repeat=True, take=take)
                    rec["runs"].append({"iface": iface, "split": "train", "shuffle": shuffle, "T": 2, "take": take, "got": got, "long": True, "onepass": lone})
                except BaseException as e:  # noqa: BLE001
                    rec["runs"].append({"iface": iface, "split": "train", "shuffle": shuffle, "T": 2, "take": take, "long": True, "onepass": lone,
                                        "error": f"{type(e).__name__}: {str(e)[:200]}"})
            shutil.rmtree(lroot, ignore_errors=True)
        # tf.data with batching: the stream of examples inside the batches (batch size not dividing the split)
        for split in [s for s in written if written[s]]:
            N = len(written[split])
            b = next(x for x in range(2, N + 3) if N % x)
            take = a["m"] * N + a["r"]
            try:
                got, _ = I.run_iface(ds, "tf", split, shuffle=0, T=2, repeat=True, take=take, batch=b)
                rec["runs"].append({"iface": "tf", "split": split, "shuffle": 0, "T": 2, "take": take, "got": got, "batch": b})
            except Exception as e:  # noqa: BLE001
                rec["runs"].append({"iface": "tf", "split": split, "shuffle": 0, "T": 2, "take": take, "batch": b, "error": f"{type(e).__name__}: {str(e)[:200]}"})
        # two Rust-backed repeating streams alive at the same time, consumed interleaved (train / validation during training)
        live = [s for s in written if written[s]]
        if I.supports("rust", a["fmt"], a["comp"]) and len(live) >= 2:
            try:
                its = {s: ds.as_numpy_iterator_rust(split=s, repeat=True, shuffle=0, file_parallelism=2) for s in live[:2]}
                got = {s: [] for s in its}
                want = {s: a["m"] * len(written[s]) + a["r"] for s in its}
                step = {live[0]: 3, live[1]: 2}
                while any(len(got[s]) < want[s] for s in its):
                    for s in its:
                        for _ in range(step[s]):
                            if len(got[s]) < want[s]:
                                got[s].append(sp.ident(next(its[s])))
                for s in its:
                    rec["runs"].append({"iface": "rust", "split": s, "shuffle": 0, "T": 2, "take": want[s], "got": got[s], "interleaved": True})
                for it in its.values(): it.close()
            except BaseException as e:  # noqa: BLE001
                rec["runs"].append({"iface": "rust", "split": live[0], "shuffle": 0, "T": 2, "take": 0, "interleaved": True,
                                    "error": f"{type(e).__name__}: {str(e)[:200]}"})
        # the re-entrant generator object behind the tf.data / Rust path, called again after the previous iterable was abandoned —
        # after exactly one epoch, in the middle of one, after two: every call gives an endless stream of complete epochs
        if I.supports("rust", a["fmt"], a["comp"]):
            from sedpack.io.dataset_iteration import RustGenerator
            for split in [s for s in written if written[s]][:1]:
                N = len(written[split])
                try:
                    with RustGenerator(dataset=ds, split=split, repeat=True, file_parallelism=2, shuffle=0) as gen:
                        for k in (N, max(1, N - 1), 2 * N, 1):
                            it = iter(gen())
                            for _ in range(k): next(it)
                            it.close()
                            take = 2 * N + 1
                            got = []
                            for e in gen():
                                got.append(sp.ident(e))
                                if len(got) >= take: break
                            rec["runs"].append({"iface": "rust", "split": split, "shuffle": 0, "T": 2, "take": take, "got": got, "regen": k})
                        # two iterables of the generator alive at once (tf.data calls the generator again while the previous iterable still
                        # exists): b is started while a is in mid-epoch, a is then closed and collected, b keeps cycling through the split
                        import gc
                        a_it = iter(gen())
                        for _ in range(max(1, N // 2)): next(a_it)
                        b_it = iter(gen())
                        gotb = [sp.ident(next(b_it)) for _ in range(2)]
                        a_it.close(); del a_it; gc.collect()
                        gotb += [sp.ident(next(b_it)) for _ in range(3 * N)]
                        b_it.close()
                        rec["runs"].append({"iface": "rust", "split": split, "shuffle": 0, "T": 2, "take": 3 * N + 2, "got": gotb, "regen": "overlap"})
                except BaseException as e:  # noqa: BLE001
                    rec["runs"].append({"iface": "rust", "split": split, "shuffle": 0, "T": 2, "take": 0, "regen": -1, "error": f"{type(e).__name__}: {str(e)[:200]}"})
        # the same handle, after it has iterated: a further session adds shards, then repeating streams are started again — they
        # cycle through the whole split as it is now (a freshly opened dataset gives the reference enumeration)
        if a.get("append"):
            split0 = next((s for s in written if written[s]), None)
            try:
                with ds.filler() as f:
                    for v in range(10 ** 5, 10 ** 5 + a["append"]):
                        f.write_example(values=sp.val(v), split=split0)
                fresh, _ = I.safe_enumeration(Dataset(root))
                onepass = [x for sh in fresh.get(split0, []) for x in sh]
                for iface in ("sync", "concurrent", "async", "tf", "rust"):
                    if not I.supports(iface, a["fmt"], a["comp"]):
                        continue
                    take = 2 * len(onepass) + 1
                    try:
                        got, _ = I.run_iface(ds, iface, split0, shuffle=0, T=2, repeat=True, take=take)
                        rec["runs"].append({"iface": iface, "split": split0, "shuffle": 0, "T": 2, "take": take, "got": got, "after_append": True, "onepass": onepass})
                    except Exception as e:  # noqa: BLE001
                        rec["runs"].append({"iface": iface, "split": split0, "shuffle": 0, "T": 2, "take": take, "after_append": True, "onepass": onepass,
                                            "error": f"{type(e).__name__}: {str(e)[:200]}"})
            except Exception as e:  # noqa: BLE001
                rec["runs"].append({"iface": "filler", "split": split0, "shuffle": 0, "T": 1, "take": 0, "after_append": True, "error": f"append session: {type(e).__name__}: {str(e)[:200]}"})
        out.append(rec)
        shutil.rmtree(root, ignore_errors=True)
    return out


def run(ctx):
    rng = ctx.rng("c19")
    cases = []
    for i in range(ctx.pick(3, 12)):
        fmt = ["fb", "npz", "tfrec"][i % 3]
        comp = rng.choice({"fb": ["", "LZ4"], "npz": [""], "tfrec": ["", "GZIP"]}[fmt])
        eps = rng.choice([1, 2, 3])
        nsp = rng.choice([2, 3])
        plan = [{"sub": ".", "writes": [(s, rng.choice([1, eps + 1, 2 * eps + 1])) for s in range(nsp)]}]
        if rng.random() < 0.5:
            plan.append({"sub": "x", "writes": [(0, eps + 1)]})
        configs = [(0, 1), (0, 3), (2, 2), (1000, 3)] if ctx.thorough else [(0, 1 + i % 3), (2 + i, 2)]
        cases.append({"root": str(ctx.scratch / f"c19_{i}"), "fmt": fmt, "comp": comp, "eps": eps, "plan": plan, "configs": configs,
                      "m": ctx.pick(3, 6), "r": rng.choice([0, 1, 2]), "spell": i, "long": (ctx.pick(1300, 5000) if i == 0 else 0),
                      # (no checksum algorithm at all is a legal configuration; every other case continues writing through the handle that iterated)
                      "hashes": [None, [], ["sha256"]][i % 3], "append": [0, 3][i % 2] if i % 3 != 1 else 3})
    recs = []
    for i in range(0, len(cases), 4):
        recs += child.call("harness.checks.c19", "run_e2e", cases[i:i + 4], timeout=1500)
    nruns, distinct = 0, set()
    for r in recs:
        if r.get("enum_error"):
            ctx.report({"kind": "listing-error"}, f"enumerating the shards of a valid dataset failed: {r['enum_error']}", {"case": r["case"]})
    for r in recs:
        for run_ in r["runs"]:
            nruns += 1
            split = run_["split"]
            onepass = run_.get("onepass") or [x for sh in r["shards"][split] for x in sh]
            N = len(onepass)
            sig = {"kind": "repeat", "iface": run_["iface"], "spelling": run_.get("spell", "True"), "shuffled": run_["shuffle"] > 0, "interleaved": bool(run_.get("interleaved")), "batched": bool(run_.get("batch")),
                   "after_append": bool(run_.get("after_append")), "long_run": bool(run_.get("long")), "threads_gt_shards": bool(run_.get("wrap"))}
            if "error" in run_:
                ctx.report(dict(sig, kind="repeat-error"), f"{run_['iface']} repeat=True raised {run_['error']}" + (f" during a run of {run_['take'] // 2} epochs of a two-example split" if run_.get("long") else ""),
                           {"case": r["case"], "run": {k: v for k, v in run_.items() if k != "got"}}); continue
            got = run_["got"]
            if len(got) < run_["take"]:
                ctx.report(dict(sig, kind="stream-ended"), f"{run_['iface']} shuffle={run_['shuffle']}: repeating stream ended after {len(got)} < {run_['take']} elements",
                           {"case": r["case"], "run": run_}); continue
            foreign = [x for x in got if x not in set(onepass)]
            if foreign:
                ctx.report(dict(sig, kind="foreign"), f"{run_['iface']}: elements {foreign[:5]} are not examples of split {split}", {"case": r["case"], "run": run_}); continue
            if run_["shuffle"] == 0 and "regen" not in run_:
                exp = [onepass[k % N] for k in range(len(got))]
                if got != exp:
                    ctx.report(dict(sig, kind="not-periodic"), f"{run_['iface']} unshuffled repeat: {got[:2*N+2]} is not {onepass} repeated",
                               {"case": r["case"], "run": run_, "onepass": onepass}); continue
            if run_.get("regen") == "overlap":
                # the second iterable may start in mid-epoch (it continues the native iterator): the stream is periodic with the split's
                # length and every window of that length holds every example once
                if any(got[i] != got[i + N] for i in range(len(got) - N)) or collections.Counter(got[:N]) != collections.Counter(onepass):
                    ctx.report(dict(sig, kind="epoch", overlapping_iterables=True), f"RustGenerator with two iterables alive, the older one closed while the newer one is read: the newer stream {got[:2 * N + 2]} is not periodic over the split {onepass}",
                               {"case": r["case"], "run": run_})
                continue
            if run_["iface"] == "rust":
                for e in range(len(got) // N):
                    ep = got[e * N:(e + 1) * N]
                    if collections.Counter(ep) != collections.Counter(onepass):
                        ctx.report(dict(sig, kind="epoch"), f"rust epoch {e} is not a permutation of the split: {ep}", {"case": r["case"], "run": run_}); break
            distinct.add((r["case"]["fmt"], run_["iface"], run_["shuffle"] > 0, min(run_["T"], 3), N > r["case"]["eps"]))
    ctx.cov.update({
        "evaluations": nruns, "distinct_nontrivial": len(distinct), "traces_validated_against_impl": nruns,
        "rule": "datasets with 2-3 splits (flat and nested shard lists); every interface with repeat enabled — spelled True, left at its default, numpy.True_, 1 — (tf.data also batched with a batch size that does not divide the split); prefix of m*N+r elements (m=3 quick, 6 thorough); reader thread counts above the number of shards (nsh+1, 2nsh+1, 16); one run of 1300 (5000) epochs of a two-example split per interface; "
                "unshuffled prefix compared with the model's stream formula onepass[k mod N]; distinct = (format, interface, shuffled?, T class, multi-shard?)",
        "samples": [{"case": r["case"], "run": r["runs"][0]} for r in recs[:2]],
        "input_distribution": {"by_iface": collections.Counter(x["iface"] for r in recs for x in r["runs"]),
                               "shuffled": sum(x["shuffle"] > 0 for r in recs for x in r["runs"]),
                               "repeat_spelling": collections.Counter(x.get("spell", "True") for r in recs for x in r["runs"])},
    })
