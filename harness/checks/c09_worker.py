"""Runs one multi-writer call (real worker processes or single_process) and records what happened.
Executed as a script, optionally under `strace -f`, by harness/checks/c09.py."""
import json, os, sys, time
sys.path.insert(0, os.path.dirname(os.path.dirname(os.path.dirname(os.path.abspath(__file__)))))
from harness.core import sp


def feed(filler, plan, delay):
    """plan: list of (split, [ids]); module level so that it can be pickled for the worker processes."""
    from harness.checks.tree_common import SPLITS
    n = 0
    with filler as f:
        for s, ids, *rej in plan:
            for v in ids:
                if delay:
                    time.sleep(delay)
                f.write_example(values=sp.val(v), split=SPLITS[s]); n += 1
            if rej and rej[0]:
                # the writer's last example for this split is one the library rejects (wrong shape); the writer carries on
                try:
                    f.write_example(values={"a": sp.np.zeros((3,), dtype=sp.np.int32)}, split=SPLITS[s])
                except Exception:  # noqa: BLE001
                    pass
    return [os.getpid(), n, plan[0][1][0] if plan and plan[0][1] else -1]


def feed_boom(filler, plan, delay):
    """like `feed`, but the writer's own code fails after its examples were written (the first writer only)"""
    r = feed(filler, plan, delay)
    if plan and plan[0][1] and plan[0][1][0] == 800000:
        raise RuntimeError("feed_writer failed")
    return r


def main():
    a = json.loads(open(sys.argv[1]).read())
    sp.sedpack()
    import uuid as real_uuid
    import sedpack.io.dataset_writing as DW
    from pathlib import Path
    root = Path(a["root"])
    ds = sp.mk(root, fmt=a["fmt"], eps=a["eps"])
    counter = {"k": 0}
    class FakeUUID:
        def __init__(self, k): self.hex = f"w{k:08d}" + "0" * 23
    class UuidMod:
        @staticmethod
        def uuid4():
            counter["k"] += 1; return FakeUUID(counter["k"])
    DW.uuid = UuidMod
    res = {"pid": os.getpid()}
    if a.get("early_worker"):
        # relative speeds of the worker processes: every pool worker but the first one to come up is slow to start (descheduled, a
        # cold interpreter), so the early one is back at the task queue before the others have taken a writer
        flag = str(root) + ".first_worker"
        def slow_start():
            try:
                os.close(os.open(flag, os.O_CREAT | os.O_EXCL | os.O_WRONLY))
            except FileExistsError:
                time.sleep(1.5)
        os.register_at_fork(after_in_child=slow_start)
    try:
        if a.get("other_first"):
            # this process has written *another* dataset with a multi-writer call before (same attribute names, its own directories)
            other = sp.mk(Path(str(root) + "_other"), fmt=a["fmt"], eps=a["eps"])
            other.write_multiprocessing(feed_writer=feed, custom_arguments=[([[0, [900000, 900001]]], 0), ([[1, [900002]]], 0)],
                                        single_process=a["single"], consistency_check=False)
        if a.get("fail_first"):
            # an earlier call on this dataset failed (a writer raised after it had closed a shard) and the caller caught the error:
            # nothing of it was merged; what it left on disk are orphans the dataset does not list
            try:
                ds.write_multiprocessing(feed_writer=feed_boom, custom_arguments=[([[0, list(range(800000, 800000 + a["eps"] + 1))]], 0), ([[1, [800100]]], 0)],
                                         single_process=a["single"], consistency_check=False)
                res["fail_first"] = "no error"
            except Exception as e:  # noqa: BLE001
                res["fail_first"] = type(e).__name__
            res["orphans"] = sorted(str(q.relative_to(root)) for q in root.rglob("*") if q.is_file() and q.suffix in (".fb", ".npz", ".tfrec"))
        out = ds.write_multiprocessing(feed_writer=feed, custom_arguments=[(p, d) for p, d in zip(a["plans"], a["delays"])],
                                       single_process=a["single"], consistency_check=False)
        res["returns"] = out
        if a.get("plans2"):
            # a second multi-writer call into the same dataset (splits that already hold writer directories)
            if a.get("reopen"):
                from sedpack.io import Dataset
                ds = Dataset(root)
            res["returns2"] = ds.write_multiprocessing(feed_writer=feed, custom_arguments=[(p, d) for p, d in zip(a["plans2"], a["delays2"])],
                                                       single_process=a["single"], consistency_check=False)
    except Exception as e:  # noqa: BLE001
        res["error"] = f"{type(e).__name__}: {str(e)[:300]}"
    finally:
        DW.uuid = real_uuid
    open(sys.argv[2], "w").write(json.dumps(res))


if __name__ == "__main__":
    main()
