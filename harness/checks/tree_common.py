"""Shared history runner for C04 / C08 (and reused by C05, C09): execute a generated history of
writing sessions on the real API, snapshot the metadata tree after every session, replay the same
history through M-TREE (Lean driver) and compare; evaluate the model-independent recount oracles."""
from __future__ import annotations
import hashlib, json, shutil
from pathlib import Path
from harness.core import lean, sp

SPLITS = ["train", "test", "holdout"]
SUBS = {".": [], "a": [10], "ab": [13], "b": [11], "a/y": [10, 20], "a/yz": [10, 22], "a/z": [10, 21], "b/y/q": [11, 20, 30], "c/y": [12, 20],
        # sub-directories that are *named like a split* (a directory `train` below the split `test` is just a directory)
        "train": [0], "test": [1], "a/train": [10, 0], "holdout/y": [2, 20],
        # sibling directories whose names differ only after a dot (shard `part.0`/`part.1`, version `v1.2`/`v1.3`), and a name ending in a dot-suffix that looks like a file's
        "part.0": [14], "part.1": [15], "a/v1.2": [10, 23], "a/v1.3": [10, 24], "b/x.json": [11, 25]}
NAME = {10: "a", 11: "b", 12: "c", 13: "ab", 14: "part.0", 15: "part.1", 20: "y", 21: "z", 22: "yz", 23: "v1.2", 24: "v1.3", 25: "x.json", 30: "q"}      # "a"/"ab", "y"/"yz": one name is a string prefix of its sibling's
CODE = {v: k for k, v in NAME.items()}


def comp_code(name: str) -> int:
    if name in SPLITS: return SPLITS.index(name)
    if name in CODE: return CODE[name]
    if name.startswith("w") and name[1:9].isdigit(): return 100 + int(name[1:9])     # patched uuid of a multi-writer dir
    import zlib
    return 10 ** 6 + zlib.crc32(name.encode()) % 10 ** 6                              # any other directory name: a stable code of its own


def dir_code(rel_parent: Path):
    return [comp_code(p) for p in rel_parent.parts]


def gen_history(rng, n_sessions: int, eps: int):
    """A history = list of sessions; kinds: filler (sub-directory, writes per split) or multi (writers)."""
    hist = []
    for _ in range(n_sessions):
        kind = rng.choice(["filler", "filler", "filler", "multi"])
        reopen = rng.random() < 0.5
        if kind == "filler":
            sub = rng.choice(list(SUBS))
            writes = []
            for _ in range(rng.choice([1, 1, 2, 3])):
                # third component: the caller's *last* write to that split in this step is a rejected one (wrong shape,
                # caught by the caller) — in particular right after a shard became full
                writes.append([rng.randrange(3), rng.choice([0, 1, eps, eps + 1, 2 * eps, 2 * eps + 1]), rng.choice([False, False, False, False, True, "dtype"])])
            if not any(w[1] for w in writes): writes[0][1] = 1
            hist.append({"kind": "filler", "sub": sub, "writes": writes, "reopen": reopen})
        else:
            k = rng.choice([1, 2, 3])
            writers = [[[rng.randrange(3), rng.choice([0, 1, eps, eps + 1]), rng.choice([False, False, False, True, "dtype"])] for _ in range(rng.choice([1, 2]))] for _ in range(k)]
            if not any(x[1] for w in writers for x in w): writers[0][0][1] = 2
            hist.append({"kind": "multi", "writers": writers, "reopen": reopen})
    return hist


def snapshot(root: Path):
    """All list documents on disk, canonicalised: {dir-code tuple: {n, files:[(name, n)], kids:[(dir, n, shards)]}}."""
    snap = {}
    for p in sorted(root.rglob("shards_list.json")):
        d = json.loads(p.read_text())
        rel = p.parent.relative_to(root)
        snap[tuple(dir_code(rel))] = {
            "n": d.get("number_of_examples", 0),
            "files": [(Path(s["file_infos"][0]["file_path"]).name, s.get("number_of_examples", 0)) for s in d.get("shard_files", [])],
            "kids": [(dir_code(Path(c["shard_list_info_file"]["file_path"]).parent), c.get("number_of_examples", 0), c.get("number_of_shards", 0))
                     for c in d.get("children_shard_lists", [])],
            "file_dirs": [str(Path(s["file_infos"][0]["file_path"]).parent) for s in d.get("shard_files", [])],
        }
    return snap


def recount(root: Path):
    """Model-independent oracle: walk the tree from dataset_info.json and recount everything.
    Returns (problems, per-split example id lists in enumeration order)."""
    from sedpack.io import Dataset
    from harness.checks.fill_common import decode_shard
    problems = []
    ds = Dataset(root)
    info = json.loads((root / "dataset_info.json").read_text())
    seen_files, per_split = {}, {}
    def walk(rec, where):
        rel = Path(rec["shard_list_info_file"]["file_path"])
        p = root / rel
        if not p.is_file():
            problems.append(f"{where}: list file {rel} missing"); return 0, 0, []
        if rel.name != "shards_list.json":
            problems.append(f"{where}: bad list name {rel}")
        d = json.loads(p.read_text())
        tot, shards, ids = 0, 0, []
        for s in d.get("shard_files", []):
            fp = Path(s["file_infos"][0]["file_path"])
            if fp.parent != rel.parent:
                problems.append(f"{rel}: shard {fp} is not in the list's directory")
            if not (root / fp).is_file():
                problems.append(f"{rel}: listed shard {fp} does not exist"); continue
            if str(fp) in seen_files:
                problems.append(f"shard {fp} listed twice ({seen_files[str(fp)]} and {rel})")
            seen_files[str(fp)] = str(rel)
            try:
                got = decode_shard(ds, root / fp)
            except Exception as e:  # noqa: BLE001
                problems.append(f"{fp}: undecodable {type(e).__name__}"); got = []
            if len(got) != s.get("number_of_examples", 0):
                problems.append(f"{fp}: recorded {s.get('number_of_examples', 0)} examples, file holds {len(got)}")
            tot += s.get("number_of_examples", 0); shards += 1; ids += got
        kid_dirs = set()
        for c in d.get("children_shard_lists", []):
            crel = Path(c["shard_list_info_file"]["file_path"])
            if crel.parent.parent != rel.parent:
                problems.append(f"{rel}: child {crel} is not one level deeper")
            if str(crel) in kid_dirs:
                problems.append(f"{rel}: child {crel} recorded twice")
            kid_dirs.add(str(crel))
            ct, cs, cids = walk(c, str(rel))
            if ct != c.get("number_of_examples", 0) or cs != c.get("number_of_shards", 0):
                problems.append(f"{rel}: child {crel} recorded as {c.get('number_of_examples', 0)} examples / {c.get('number_of_shards', 0)} shards, is {ct} / {cs}")
            tot += ct; shards += cs; ids += cids
        if tot != d.get("number_of_examples", 0):
            problems.append(f"{rel}: total {d.get('number_of_examples', 0)} but entries sum to {tot}")
        return tot, shards, ids
    for split, rec in info.get("splits", {}).items():
        t, s, ids = walk(rec, "dataset_info")
        if (t, s) != (rec.get("number_of_examples", 0), rec.get("number_of_shards", 0)):
            problems.append(f"split {split}: recorded {rec.get('number_of_examples', 0)} examples / {rec.get('number_of_shards', 0)} shards, is {t} / {s}")
        per_split[SPLITS.index(split)] = ids
    on_disk = sorted(str(p.relative_to(root)) for p in root.rglob("*") if p.is_file() and p.suffix in (".fb", ".npz", ".tfrec"))
    for f in on_disk:
        if f not in seen_files:
            problems.append(f"shard file {f} on disk is not listed")
    return problems, per_split


def bad_write(f, split, how=True, fmt="fb"):
    """A write the library must reject; the caller carries on.  `how`: True / "shape": wrong shape (fails the up-front check of
    every writer); "dtype": right shape, a dtype that cannot be cast safely to the declared one (int32 <- float64: passes the
    shape check, rejected later by the format's own serializer)."""
    if fmt != "fb":
        how = True            # only the FlatBuffers writer is required to refuse an unsafe cast (C18); elsewhere use the shape
    bad = {"a": sp.np.array([0.5, 1.5], dtype=sp.np.float64)} if how == "dtype" else {"a": sp.np.zeros((3,), dtype=sp.np.int32)}
    try:
        f.write_example(values=bad, split=split)
    except Exception:  # noqa: BLE001
        return
    raise AssertionError(f"an invalid example ({how}) was accepted")


def run_history(root: Path, fmt: str, eps: int, hist, hashes=None):
    """Execute on the real API. Returns per-session records."""
    import uuid as real_uuid
    import sedpack.io.dataset_writing as DW
    from sedpack.io import Dataset
    from sedpack.io.dataset_filler import DatasetFiller
    from sedpack.io.errors import DatasetExistsError
    ds = sp.mk(root, fmt=fmt, eps=eps, hashes=None if hashes is None else tuple(hashes))
    counter = {"k": 0}
    class FakeUUID:
        def __init__(self, k): self.hex = f"w{k:08d}" + "0" * 23
    class UuidMod:
        @staticmethod
        def uuid4():
            counter["k"] += 1; return FakeUUID(counter["k"])
    recs, nxt = [], 0
    prev_snap = snapshot(root)
    for si, se in enumerate(hist):
        if se.get("reopen"):
            ds = Dataset(root)
        written = {0: [], 1: [], 2: []}
        err = None
        try:
            if se["kind"] == "filler":
                with DatasetFiller(ds, relative_path_from_split=Path(se["sub"])) as f:
                    for s, n, *rej in se["writes"]:
                        for _ in range(n):
                            f.write_example(values=sp.val(nxt), split=SPLITS[s]); written[s].append(nxt); nxt += 1
                        if rej and rej[0]:
                            bad_write(f, SPLITS[s], rej[0], fmt)
            else:
                def feed(filler, plan):
                    nonlocal nxt
                    with filler as f:
                        for s, ids, rej in plan:
                            for v in ids:
                                f.write_example(values=sp.val(v), split=SPLITS[s])
                            if rej:
                                bad_write(f, SPLITS[s], rej, fmt)
                    return len(plan)
                plans = []
                for w in se["writers"]:
                    plan = []
                    for s, n, *rej in w:
                        ids = list(range(nxt, nxt + n)); nxt += n; written[s] += ids; plan.append((s, ids, (rej[0] if rej and rej[0] else False)))
                    plans.append((plan,))
                DW.uuid = UuidMod
                try:
                    ds.write_multiprocessing(feed_writer=feed, custom_arguments=plans, single_process=True, consistency_check=False)
                finally:
                    DW.uuid = real_uuid
        except Exception as e:  # noqa: BLE001
            err = f"{type(e).__name__}: {str(e)[:200]}"
        snap = snapshot(root)
        # the shards this session closed, per directory (new entries of each list, in list order)
        closed = []
        for d, l in snap.items():
            old = {n for n, _ in prev_snap.get(d, {}).get("files", [])}
            new = [(n, c) for n, c in l["files"] if n not in old]
            if new:
                closed.append((list(d), new))
        try:
            handle = json.loads(ds._dataset_info.model_dump_json())
            disk = json.loads(Dataset(root)._dataset_info.model_dump_json())
            handle_ok = handle == disk
        except Exception as e:  # noqa: BLE001
            handle_ok = f"{type(e).__name__}: {str(e)[:100]}"
        try:
            problems, per_split = recount(root)
        except Exception as e:  # noqa: BLE001
            problems, per_split = [f"recount failed: {type(e).__name__}: {str(e)[:150]}"], {}
        try:
            Dataset(root).check(show_progressbar=False); check_err = None
        except Exception as e:  # noqa: BLE001
            check_err = f"{type(e).__name__}: {str(e)[:150]}"
        recs.append({"session": se, "error": err, "written": written, "closed": closed, "snap": {json.dumps(list(k)): v for k, v in snap.items()},
                     "handle_ok": handle_ok, "problems": problems, "per_split": per_split, "check_err": check_err})
        prev_snap = snap
    # Dataset.create on an existing dataset must be refused and change nothing
    before = {str(p.relative_to(root)): hashlib.sha256(p.read_bytes()).hexdigest() for p in sorted(root.rglob("*")) if p.is_file()}
    # … whichever way the existing directory is spelled: absolute, relative to the working directory, through
    # `..`, with a trailing separator, through `~`, through a symbolic link
    import os
    root = Path(root)
    link = root.parent / (root.name + "_link")
    try:
        if link.is_symlink(): link.unlink()
        link.symlink_to(root, target_is_directory=True)
    except OSError:
        link = None
    spellings = [("absolute", str(root)), ("relative", root.name), ("dotdot", f"{root.name}/../{root.name}"), ("trailing-slash", str(root) + "/"),
                 ("tilde", f"~/{root.name}")] + ([("symlink", str(link))] if link else [])
    create, how = "refused", {}
    cwd, home = os.getcwd(), os.environ.get("HOME")
    os.chdir(root.parent); os.environ["HOME"] = str(root.parent)
    try:
        for name, pth in spellings:
            try:
                sp.mk(pth, fmt=fmt, eps=eps); how[name] = "created"
            except DatasetExistsError:
                how[name] = "refused"
            except Exception as e:  # noqa: BLE001
                how[name] = f"{type(e).__name__}"
            if how[name] != "refused" and create == "refused":
                create = f"{how[name]} via {name} path {pth!r}"
    finally:
        os.chdir(cwd)
        if home is None: os.environ.pop("HOME", None)
        else: os.environ["HOME"] = home
        if link and link.is_symlink(): link.unlink()
    after = {str(p.relative_to(root)): hashlib.sha256(p.read_bytes()).hexdigest() for p in sorted(root.rglob("*")) if p.is_file()}
    return recs, {"create": create, "unchanged": before == after, "spellings": how}


def model_request(recs, upto: int):
    """Driver request replaying sessions 0..upto; shard file names -> ids in order of first appearance."""
    ids, sessions, dirs = {}, [], set()
    for r in recs[:upto + 1]:
        se = []
        # the order of the directories inside one session is the order in which the fillers reported them:
        # filler: splits in first-close order (not observable from disk) -> any order gives the same store except the
        # split order inside write_config, which touches disjoint sub-trees; sort for determinism
        for d, new in sorted(r["closed"]):
            shards = []
            for name, n in new:
                ids.setdefault(name, len(ids)); shards.append([ids[name], n])
            se.append([d, shards]); dirs.add(tuple(d))
            for i in range(1, len(d)): dirs.add(tuple(d[:i]))
        sessions.append(se)
    return {"m": "tree", "fuel": 8, "sessions": sessions, "dirs": [list(d) for d in sorted(dirs)]}, ids, sorted(dirs)


def compare_with_model(rec, rep, ids, dirs):
    """Compare the snapshot after a session with the model's store. Returns list of differences."""
    diffs = []
    snap = {tuple(json.loads(k)): v for k, v in rec["snap"].items()}
    for d, ml in zip(dirs, rep["lists"]):
        il = snap.get(tuple(d))
        if ml is None and il is None: continue
        if ml is None or il is None:
            diffs.append(f"dir {d}: model {ml} impl {il}"); continue
        ifiles = [[ids.get(n, -1), c] for n, c in il["files"]]
        ikids = [[list(k[0]), k[1], k[2]] for k in il["kids"]]
        if ml["n"] != il["n"] or ml["files"] != ifiles or ml["kids"] != ikids:
            diffs.append(f"dir {d}: model n={ml['n']} files={ml['files']} kids={ml['kids']} | impl n={il['n']} files={ifiles} kids={ikids}")
    for d in snap:
        if tuple(d) not in {tuple(x) for x in dirs}:
            diffs.append(f"impl has a list at {d} unknown to the model")
    return diffs
