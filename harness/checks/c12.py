"""C12 — shard selection options mean the same thing in every iteration interface.
Lean: SedpackProps/C12.lean (selection theorems) + SedpackProps/C12Gen.lean, a table *generated
from the source on every run* (which interface accepts and forwards which option) with the theorem
`C12_every_interface_forwards`.  Correspondence: the model's selection vs the real
`shard_paths_dataset`; oracle: every interface x format yields exactly the examples stored in the
shards the property's wording selects."""
from __future__ import annotations
import collections, json, shutil
from harness.core import lean, sp, child
from harness import extract_tables as E
from harness.checks import iter_common as I

ASSUMPTIONS = ["'distinct custom-metadata value' means equality of the metadata value (any JSON value, nested or not)",
               "k >= 1 and n >= 1 (0 / None switch the option off in the code and in the model)"]
TRUSTED = ["the ~100-line ast extractor of the option wiring (harness/extract_tables.py)", "modelled-not-verified: tf.data / Rust reader once the shard list is fixed (C02)"]
ACCEPTS = {"sync": {"shards", "custom_metadata_type_limit", "shard_filter"}, "concurrent": {"shards", "custom_metadata_type_limit", "shard_filter"},
           "async": {"shards", "shard_filter"}, "rust": {"shards", "shard_filter"}, "tf": {"shards", "custom_metadata_type_limit", "shard_filter"}}


def pre_build(ctx):
    E.gen_c12()


def md_val(code, flip=False):
    """Equal codes give equal values; with `flip` the same value is built with its keys inserted in the opposite order at the
    top level and inside the nested dictionary (two writing scripts, two sessions): still the same metadata value."""
    if code % 2 == 0:
        return {"k": code}
    if flip:
        return {"n": {"m": code, "l": [code, str(code)]}, "k": code}
    return {"k": code, "n": {"l": [code, str(code)], "m": code}}


def run_e2e(args):
    sp.sedpack(rust=True)
    from sedpack.io import Dataset
    out = []
    import logging
    for a in args:
        root = a["root"]
        # the application's logging configuration is not an input of the selection: INFO / DEBUG enabled for the library's loggers
        logging.getLogger("sedpack").setLevel({"INFO": logging.INFO, "DEBUG": logging.DEBUG}.get(a.get("log"), logging.NOTSET))
        ds = sp.mk(root, fmt=a["fmt"], comp=a["comp"], eps=a["eps"], hashes=None if a.get("hashes") is None else tuple(a["hashes"]))
        v = 0
        with ds.filler() as f:
            for gi, code in enumerate(a["groups"]):
                for _ in range(a["eps"]):
                    f.write_example(values=sp.val(v), split="train", custom_metadata=md_val(code, flip=bool(gi % 2))); v += 1
            f.write_example(values=sp.val(10 ** 6), split="test")
        ds = Dataset(root)
        infos = list(ds.shard_info_iterator("train"))
        shard_ids = []
        from harness.checks.fill_common import decode_shard
        for si in infos:
            shard_ids.append(decode_shard(ds, ds.path / si.file_infos[0].file_path))
        rec = {"case": {k: a[k] for k in a if k != "root"}, "mds": [int(si.custom_metadata.get("k", 0)) for si in infos], "shard_ids": shard_ids, "runs": []}
        for opt in a["options"]:
            kw = {}
            import numpy as np
            num = getattr(np, opt["np"]) if opt.get("np") else int       # the number as the caller has it: a Python int or a NumPy integer scalar (arr.min(), rng.integers(..))
            if opt.get("k") is not None: kw["shards"] = num(opt["k"])
            if opt.get("limit") is not None: kw["custom_metadata_type_limit"] = num(opt["limit"])
            if opt.get("keep") is not None:
                keep = set(opt["keep"])
                kw["shard_filter"] = (lambda si, keep=keep: int(si.custom_metadata.get("k", 0)) in keep)
            # the real selection routine
            try:
                paths = ds.shard_paths_dataset(split="train", **kw)
                sel = [[str(ds.path / s.file_infos[0].file_path) for s in infos].index(p) for p in paths]
            except Exception as e:  # noqa: BLE001
                sel = f"{type(e).__name__}: {str(e)[:80]}"
            r = {"opt": opt, "select": sel, "ifaces": {}}
            for iface in I.IFACES:
                if not I.supports(iface, a["fmt"], a["comp"]): continue
                if not set(kw) <= ACCEPTS[iface]: continue
                for shuffle in a["shuffles"]:
                    try:
                        got, _ = I.run_iface(ds, iface, "train", shuffle=shuffle, T=2, **kw)
                        r["ifaces"][f"{iface}/{shuffle}"] = sorted(got)
                    except Exception as e:  # noqa: BLE001
                        r["ifaces"][f"{iface}/{shuffle}"] = f"{type(e).__name__}: {str(e)[:100]}"
            rec["runs"].append(r)
        # back-to-back passes on the same handle, each with its own short-lived inline predicate (the usual way to write it)
        codes_all = sorted({m for m in rec["mds"]})
        seqs = [[codes_all[0]], [codes_all[-1]], [9999], [codes_all[0], codes_all[-1]], [codes_all[-1]]]
        rec["inline"] = []
        for iface in I.IFACES:
            if not I.supports(iface, a["fmt"], a["comp"]) or "shard_filter" not in ACCEPTS[iface]: continue
            for keep in seqs:
                try:
                    got, _ = I.run_iface(ds, iface, "train", shuffle=0, T=2, shard_filter=(lambda si, keep=tuple(keep): int(si.custom_metadata.get("k", 0)) in keep))
                    got = sorted(got)
                except Exception as e:  # noqa: BLE001
                    got = f"{type(e).__name__}: {str(e)[:100]}"
                rec["inline"].append({"iface": iface, "keep": keep, "got": got})
        # the Rust interface with several passes alive at once, each with its own selection (A ends while B is mid-pass, then C opens)
        if I.supports("rust", a["fmt"], a["comp"]) and len(infos) >= 3:
            codes = sorted({int(si.custom_metadata.get("k", 0)) for si in infos})
            sels = {"A": {"shards": 1}, "B": {"shards": 2},
                    "C": {"shard_filter": (lambda si, c=codes[-1]: int(si.custom_metadata.get("k", 0)) == c)}}
            want = {nm: [sp.ident(e) for e in ds.as_numpy_iterator(split="train", repeat=False, shuffle=0, **kw)] for nm, kw in sels.items()}
            got = {"A": [], "B": [], "C": []}
            def rust(nm):
                return ds.as_numpy_iterator_rust(split="train", repeat=False, shuffle=0, file_parallelism=2, **sels[nm])
            try:
                A = rust("A"); got["A"].append(sp.ident(next(A)))
                B = rust("B"); got["B"].append(sp.ident(next(B)))
                got["A"] += [sp.ident(e) for e in A]; del A
                its = {"B": B, "C": rust("C")}; live = ["B", "C"]
                while live:
                    for nm in list(live):
                        try: got[nm].append(sp.ident(next(its[nm])))
                        except StopIteration: live.remove(nm)
                rec["overlap"] = {"got": got, "want": want}
            except BaseException as e:  # noqa: BLE001
                rec["overlap"] = {"got": got, "want": want, "error": f"{type(e).__name__}: {str(e)[:150]}"}
        # two passes over ONE tf.data.Dataset object that overlap in time (an evaluation loop started while the training iterator is in
        # mid-pass): each pass yields exactly the selected shards' examples
        try:
            k2 = max(2, len(infos) - 1)
            tfds = ds.as_tfdataset(split="train", repeat=False, shuffle=0, batch_size=0, file_parallelism=2, parallelism=2, prefetch=1, shards=k2)
            want_ids = sorted(x for i in range(k2) for x in shard_ids[i])
            it1 = iter(tfds.as_numpy_iterator()); first = [sp.ident(next(it1))]
            full = sorted(sp.ident(e) for e in tfds.as_numpy_iterator())
            rest = [sp.ident(e) for e in it1]
            rec["tf_overlap"] = {"k": k2, "want": want_ids, "inner": full, "outer": sorted(first + rest)}
        except BaseException as e:  # noqa: BLE001
            rec["tf_overlap"] = {"error": f"{type(e).__name__}: {str(e)[:150]}"}
        # the same handle after it has selected and iterated: a further session adds shards; every interface selects among the
        # shards as they are now (reference: a freshly opened dataset), with no option, a large first-k and a per-metadata limit
        if a.get("append"):
            try:
                with ds.filler() as f:
                    for j in range(2 * a["eps"]):
                        f.write_example(values=sp.val(5000 + j), split="train", custom_metadata=md_val(1 + 2 * (j // a["eps"]), flip=True))
                fresh = Dataset(root)
                rec["after_append"] = []
                for kw in ({}, {"shards": 50}, {"custom_metadata_type_limit": 2}):
                    want = sorted(sp.ident(e) for e in fresh.as_numpy_iterator(split="train", repeat=False, shuffle=0, **kw))
                    for iface in I.IFACES:
                        if not I.supports(iface, a["fmt"], a["comp"]) or not set(kw) <= ACCEPTS[iface]: continue
                        try:
                            got, _ = I.run_iface(ds, iface, "train", shuffle=0, T=2, **kw); got = sorted(got)
                        except Exception as e:  # noqa: BLE001
                            got = f"{type(e).__name__}: {str(e)[:100]}"
                        rec["after_append"].append({"iface": iface, "kw": kw, "got": got, "want": want})
            except Exception as e:  # noqa: BLE001
                rec["after_append"] = [{"iface": "filler", "kw": {}, "got": f"append session: {type(e).__name__}: {str(e)[:150]}", "want": []}]
        out.append(rec)
        shutil.rmtree(root, ignore_errors=True)
    return out


def oracle_select(mds, opt):
    """The property's wording, independent of the model: predicate, first k, at most n per distinct metadata value."""
    idx = list(range(len(mds)))
    if opt.get("keep") is not None:
        idx = [i for i in idx if mds[i] in set(opt["keep"])]
    if not idx:
        return "error"
    if opt.get("k"):
        idx = idx[:opt["k"]]
    if opt.get("limit"):
        seen, out = collections.Counter(), []
        for i in idx:
            seen[mds[i]] += 1
            if seen[mds[i]] <= opt["limit"]: out.append(i)
        idx = out
    return idx


def run(ctx):
    rng = ctx.rng("c12")
    # the generated table, as evidence
    rows = E.wiring()
    bad_rows = [r for r in rows if r[3] and not r[4]]
    cases = []
    layouts = [[1, 1, 2, 1, 2, 2, 1], [1, 2, 3], [2, 2, 2, 2], [1, 2, 1, 2, 1]]
    for i in range(ctx.pick(3, 9)):
        fmt = ["fb", "npz", "tfrec"][i % 3]
        groups = layouts[i % len(layouts)] if i < len(layouts) else [rng.choice([1, 2, 3]) for _ in range(rng.randrange(3, 8))]
        n = len(groups)
        options = [{"k": 1}, {"k": max(1, n - 1)}, {"k": n + 2}, {"limit": 1}, {"limit": 2}, {"limit": n + 1},
                   {"keep": [1]}, {"keep": [1, 2, 3]}, {"keep": [9]}, {"k": 3, "limit": 1}, {"keep": [1, 2], "limit": 1, "k": n}]
        if not ctx.thorough:
            options = [options[j] for j in (0, 2, 3, 4, 6, 8, 9, 10)]
        options += [{"k": 1 + i % 2, "np": "int64"}, {"limit": 1, "np": "int32"}, {"k": 3, "limit": 1, "np": "uint8"}]
        cases.append({"root": str(ctx.scratch / f"c12_{i}"), "fmt": fmt, "comp": "", "eps": 2, "groups": groups, "options": options,
                      "shuffles": [0, 3] if ctx.thorough else [0 if i % 2 else 3],
                      # no checksum algorithm is a legal configuration; the handle that selected and iterated keeps being used after a further session
                      "hashes": [[], None, ["sha256"]][i % 3], "append": True, "log": [None, "INFO", "DEBUG"][i % 3]})
    recs = []
    for i in range(0, len(cases), 3):
        recs += child.call("harness.checks.c12", "run_e2e", cases[i:i + 3], timeout=1800)
    reqs, meta = [], []
    nruns, distinct = 0, set()
    for r in recs:
        mds = r["mds"]
        for run_ in r["runs"]:
            opt = run_["opt"]
            want = oracle_select(mds, opt)
            sig_opt = "+".join(sorted(k for k in opt))
            nested = any(m % 2 for m in mds)
            reqs.append({"m": "select", "infos": [[i, m] for i, m in enumerate(mds)],
                         "keep": None if opt.get("keep") is None else [i for i, m in enumerate(mds) if m in set(opt["keep"])],
                         "k": opt.get("k"), "limit": opt.get("limit")})
            meta.append((r, run_))
            # the selection routine itself
            if want == "error":
                if not isinstance(run_["select"], str) or not run_["select"].startswith("ValueError"):
                    ctx.report({"kind": "empty-selection", "site": "shard_paths_dataset"}, f"a selection matching no shard gives {run_['select']} instead of an error",
                               {"case": r["case"], "opt": opt})
            elif run_["select"] != want:
                ctx.report({"kind": "selection", "site": "shard_paths_dataset", "option": sig_opt, "nested_metadata": nested},
                           f"shard_paths_dataset({opt}) over metadata {mds} selects {run_['select']}, expected shards {want}", {"case": r["case"], "opt": opt})
            exp_ids = None if want == "error" else sorted(x for i in want for x in r["shard_ids"][i])
            for key, got in run_["ifaces"].items():
                nruns += 1
                iface = key.split("/")[0]
                distinct.add((r["case"]["fmt"], iface, sig_opt, key.endswith("/0")))
                if want == "error":
                    if not isinstance(got, str):
                        ctx.report({"kind": "empty-selection", "iface": iface}, f"{iface}: a selection matching no shard yields {got[:5]} instead of an error", {"case": r["case"], "opt": opt})
                elif got != exp_ids:
                    ctx.report({"kind": "iface-selection", "iface": iface, "option": sig_opt, "format_tfrec": r["case"]["fmt"] == "tfrec", "nested_metadata": nested},
                               f"{r['case']['fmt']} {key} with {opt}: yields {str(got)[:120]} but the selected shards {want} hold {exp_ids}", {"case": r["case"], "opt": opt, "got": got})
    for r in recs:
        for x in r.get("after_append", []):
            nruns += 1
            if x["got"] != x["want"]:
                ctx.report({"kind": "iface-selection", "iface": x["iface"], "option": "after-append:" + "+".join(sorted(x["kw"])) },
                           f"{r['case']['fmt']} {x['iface']} {x['kw']} on a handle that iterated before a further session added shards: {str(x['got'])[:120]} instead of {str(x['want'])[:120]}",
                           {"case": r["case"], "run": x})
                break
        for x in r.get("inline", []):
            nruns += 1
            sel = [i for i, m in enumerate(r["mds"]) if m in set(x["keep"])]
            want = sorted(v for i in sel for v in r["shard_ids"][i]) if sel else "error"
            ok = (isinstance(x["got"], str) and x["got"].startswith("ValueError")) if want == "error" else x["got"] == want
            if not ok:
                ctx.report({"kind": "iface-selection", "iface": x["iface"], "option": "consecutive-inline-predicates"},
                           f"{r['case']['fmt']} {x['iface']}: consecutive passes with different inline predicates: keeping metadata {x['keep']} yields {str(x['got'])[:100]} instead of {str(want)[:100]}",
                           {"case": r["case"], "pass": x, "want": want})
    for r in recs:
        to = r.get("tf_overlap")
        if to is not None:
            nruns += 1
            if to.get("error") or to["inner"] != to["want"] or to["outer"] != to["want"]:
                ctx.report({"kind": "iface-selection", "iface": "tf", "option": "overlapping-passes"},
                           f"{r['case']['fmt']} as_tfdataset(shards={to.get('k')}): two passes over the same tf.data object overlapping in time: {to.get('error') or ''} the pass that was "
                           f"in progress yields {to.get('outer')}, the one started meanwhile {to.get('inner')}, selected {to.get('want')}", {"case": r["case"], "tf_overlap": to})
    for r in recs:
        ov = r.get("overlap")
        if ov is None: continue
        nruns += 1
        if ov.get("error") or ov["got"] != ov["want"]:
            bad = next((k for k in ("A", "B", "C") if ov["got"][k] != ov["want"][k]), "?")
            ctx.report({"kind": "iface-selection", "iface": "rust", "option": "overlapping-passes"},
                       f"three overlapping Rust passes with different selections: pass {bad} yields {ov['got'].get(bad)} instead of {ov['want'].get(bad)} {ov.get('error', '')}",
                       {"case": r["case"], "overlap": ov})
    reps = lean.driver(reqs)
    corr_bad = []
    for (r, run_), rep in zip(meta, reps):
        model = "error" if "error" in rep else rep["ids"]
        impl = "error" if isinstance(run_["select"], str) and run_["select"].startswith("ValueError") else run_["select"]
        if model != impl:
            corr_bad.append({"case": r["case"], "opt": run_["opt"], "model": model, "impl": impl})
    if corr_bad and not ctx.violations and not ctx.known_hits:
        ctx.report({"kind": "correspondence"}, f"M-SEL and shard_paths_dataset disagree: {corr_bad[0]['opt']} model {corr_bad[0]['model']} impl {corr_bad[0]['impl']}",
                   {"correspondence": "Sel.select vs DatasetIteration.shard_paths_dataset", "theorem": "Sedpack.Sel.C12_select_limit", "cases": corr_bad[:3]}, name="corr", nofail=True)
    ctx.cov.update({
        "evaluations": nruns + len(reqs), "distinct_nontrivial": len(distinct), "traces_validated_against_impl": len(reqs) - len(corr_bad),
        "generated_table_rows": len(rows), "generated_table_accept_without_forward": [list(r) for r in bad_rows],
        "rule": "datasets with 3-7 shards in metadata groups (contiguous and interleaved layouts, flat and nested metadata values) on fb/npz/tfrec; options first-k "
                "(1, n-1, n+2), predicates (some/all/none), per-metadata limit (1, 2, n+1) and combinations, the numbers given as Python ints and as NumPy integer scalars; every interface that accepts the option, shuffled and not; "
                "distinct = (format, interface, option set, unshuffled?)",
        "samples": [{"case": recs[0]["case"], "mds": recs[0]["mds"], "run": {k: v for k, v in recs[0]["runs"][0].items() if k != "ifaces"}}] if recs else [],
        "input_distribution": {"iface_runs": nruns, "selections": len(reqs), "options": collections.Counter("+".join(sorted(x["opt"])) for r in recs for x in r["runs"])},
    })
