"""C20 — reopening or relocating restores the full dataset; newer formats are refused.
Lean: SedpackProps/C20.lean (version gate for all triples; dump-without-defaults/load identity;
relocation via C17's containment).  Correspondence: the gate on generated version triples; the
defaults model on generated list documents.  Oracle: generated descriptions (unicode, nested custom
metadata at dataset / attribute / shard level, every format / compression / algorithm) survive
reopening exactly; moved / copied datasets (nested, unicode, blank-containing, relative locations)
open, verify, iterate and accept further writing exactly like the original."""
from __future__ import annotations
import collections, json, os, shutil
from pathlib import Path
from harness.core import lean, sp, child

ASSUMPTIONS = ["custom metadata is JSON-representable (strings, finite numbers, booleans, nulls, lists, string-keyed maps)",
               "version strings are MAJOR.MINOR.PATCH triples"]
TRUSTED = ["modelled-not-verified: pydantic-core's JSON printer/parser, semver's parser"]


def rand_json(rng, depth=0):
    r = rng.random()
    if depth > 2 or r < 0.35:
        return rng.choice([0, 1, -7, 3.5, 1e-3, 2 ** 40, True, False, None, "", "plain", "ünï©ødé ☃", "with \"quotes\" and \\ slash", "line\nbreak", "emoji 🙂"])
    if r < 0.65:
        return [rand_json(rng, depth + 1) for _ in range(rng.randrange(0, 4))]
    return {rng.choice(["a", "b", "ключ", "k y", "z"]) + str(i): rand_json(rng, depth + 1) for i in range(rng.randrange(0, 4))}


def jeq(a, b) -> bool:
    """JSON values equal *as JSON* (Python's `==` identifies True with 1 and 1 with 1.0)."""
    return json.dumps(a, sort_keys=True) == json.dumps(b, sort_keys=True)


def run_cases(args):
    sp.sedpack()
    import random, sedpack
    from sedpack.io import Dataset, Metadata, DatasetStructure, Attribute
    from sedpack.io.shard_file_metadata import ShardsList, ShardInfo, ShardListInfo
    from sedpack.io.file_info import FileInfo
    out = {"descr": [], "moves": [], "versions": [], "defaults": []}
    base = Path(args["base"]); base.mkdir(parents=True, exist_ok=True)
    rng = random.Random(args["seed"])
    # ---- descriptions
    for i in range(args["n_descr"]):
        fmt = ["fb", "npz", "tfrec"][i % 3]
        comp = rng.choice({"fb": ["", "BZ2", "GZIP", "LZMA", "LZ4", "ZLIB", "ZSTD"], "npz": ["", "ZIP"], "tfrec": ["", "GZIP", "ZLIB"]}[fmt])
        algos = rng.sample(["md5", "sha1", "sha256", "sha3_256", "xxh32", "xxh64", "xxh128", "sha512"], rng.randrange(1, 4))
        amd = rand_json(rng)
        attrs = [Attribute(name="a", dtype="int32", shape=(2,), custom_metadata={"m": rand_json(rng)}),
                 Attribute(name="bé", dtype="float32", shape=(), custom_metadata=amd if isinstance(amd, dict) else {"v": amd})]
        def text():
            parts = ["", "plain", "ünï©ødé ☃", "\"q\"", "\\", "\n", "tab\t", " ", "%20", "%", "100%", "a b", "http://x/ü?q=1&r=é#frag", "{}", "<tag>", "^`|", "null", "1.2.3", "\u0000"[:0] + "z"]
            return "".join(rng.choice(parts) for _ in range(rng.randrange(0, 4)))
        md = Metadata(description=text(), dataset_license=text(), dataset_version=text(), download_from=text(),
                      custom_metadata={"root": rand_json(rng), "lst": [rand_json(rng)], text(): text(),
                                       # user keys that happen to be spelled like fields of the description itself (a tool recording the
                                       # versions / structure it was run with): data, never interpreted
                                       **([{}, {"sedpack_version": "999.0.0", "nested": {"sedpack_version": "not-a-version", "dataset_structure": None}},
                                           {"sedpack_version": "0.0.1", "splits": {"train": 1}, "metadata": {"description": 5}}][i % 3])})
        st = DatasetStructure(saved_data_description=attrs, compression=comp, examples_per_shard=rng.choice([1, 2, 256]), shard_file_type=fmt,
                              hash_checksum_algorithms=tuple(algos))
        root = base / f"d{i}"
        try:
            ds = Dataset.create(root, md, st)
            shard_md = {"s": rand_json(rng), "t": "ü", "flag": bool(i % 2), "none": None, "big": 2 ** 40 + i, "ratio": 0.5, "nested": {"ok": True, "l": [False, 1, 1.0]}}
            with ds.filler() as f:
                for v in range(3):
                    f.write_example(values={"a": sp.np.array([v, v], dtype=sp.np.int32), "bé": sp.np.float32(1.5)}, split="train", custom_metadata=shard_md)
            re = Dataset(root)
            same = re._dataset_info == ds._dataset_info
            same_json = jeq(json.loads(re._dataset_info.model_dump_json()), json.loads(ds._dataset_info.model_dump_json()))
            sm = [si.custom_metadata for si in re.shard_info_iterator("train")]
            # the writer records something it only knows after filling (and nothing else changes), saves the description, reopens
            md2 = Metadata(description=text() + " (edited)", dataset_license=md.dataset_license, dataset_version=text(), download_from=text(),
                           custom_metadata={"stats": rand_json(rng), "edited": True})
            ds.metadata = md2
            ds.write_config(updated_infos=[])
            re2 = Dataset(root)
            edited_same = jeq(json.loads(re2._dataset_info.model_dump_json()), json.loads(ds._dataset_info.model_dump_json()))
            # … and edits made *in place* on the objects the handle holds (no property assignment), saved without any new shard list
            ds.metadata.description = "in place: " + text()
            ds.metadata.custom_metadata["inplace"] = [i, {"x": None, "flag": True}]
            ds.dataset_structure.saved_data_description[0].custom_metadata["unit"] = "mV"
            ds.write_config(updated_infos=[])
            re3 = Dataset(root)
            edited_same = bool(edited_same) and jeq(json.loads(re3._dataset_info.model_dump_json()), json.loads(ds._dataset_info.model_dump_json())) \
                and re3.metadata.description == ds.metadata.description
            if i < args.get("keep", 0):
                keep = base.parent / f"c20_keep_{i}"
                shutil.rmtree(keep, ignore_errors=True); shutil.copytree(root, keep)
                out.setdefault("kept", []).append({"root": str(keep), "info": json.loads(Dataset(keep)._dataset_info.model_dump_json()), "shard_md": shard_md, "n": 3})
            out["descr"].append({"i": i, "fmt": fmt, "comp": comp, "same": bool(same), "same_json": same_json, "edited_same": bool(edited_same),
                                 # (type-exact: `True == 1` in Python, a boolean that comes back as a number is a different JSON value)
                                 "shard_md_ok": all(json.dumps(m, sort_keys=True) == json.dumps(shard_md, sort_keys=True) for m in sm) and len(sm) > 0, "md": json.loads(md.model_dump_json())})
        except Exception as e:  # noqa: BLE001
            out["descr"].append({"i": i, "fmt": fmt, "comp": comp, "error": f"{type(e).__name__}: {str(e)[:200]}"})
    # ---- moves / copies
    from harness.checks import iter_common as I
    from sedpack.io.dataset_filler import DatasetFiller
    for i, fmt in enumerate(args["move_fmts"]):
        root = base / f"orig{i}"
        ds, written = I.build_dataset(root, fmt, "", 2, [{"sub": ".", "writes": [(0, 3), (1, 2)]}, {"sub": "a/y", "writes": [(0, 3)]}])
        ref = {s: sp.read_ids(Dataset(root), s) for s in ("train", "test")}
        ref_info = json.loads(Dataset(root)._dataset_info.model_dump_json())
        for kind, target in [("copy", base / "nested" / "deeper" / f"c{i}"), ("copy", base / f"ünï©ødé ☃ {i}"), ("copy", base / f"with blank {i}"),
                             ("move", base / f"moved{i}"), ("relative", base / f"rel{i}"), ("tilde-name", base / "~archive 2024" / f"t{i}"), ("dotdot", base / f"up {i}"), ("symlink", base / f"linked{i}")]:
            target.parent.mkdir(parents=True, exist_ok=True)
            src = root
            if kind == "move":
                tmp = base / f"tomove{i}"; shutil.copytree(root, tmp); shutil.move(str(tmp), str(target))
            else:
                shutil.copytree(root, target)
            r = {"fmt": fmt, "kind": kind, "target": str(target.relative_to(base))}
            try:
                if kind == "relative":
                    cwd = os.getcwd(); os.chdir(base)
                    try:
                        d2 = Dataset(Path(target.name))
                    finally:
                        os.chdir(cwd)
                elif kind == "tilde-name":
                    # under a directory whose name merely starts with `~` (not a user), addressed relative to the working directory
                    cwd = os.getcwd(); os.chdir(base)
                    try:
                        d2 = Dataset(Path(target.parent.name) / target.name)
                    finally:
                        os.chdir(cwd)
                elif kind == "dotdot":
                    # reached from a sibling working directory through `..`
                    here = base / f"cwd{i}" / "deep"; here.mkdir(parents=True, exist_ok=True)
                    cwd = os.getcwd(); os.chdir(here)
                    try:
                        d2 = Dataset(Path("..") / ".." / target.name)
                    finally:
                        os.chdir(cwd)
                elif kind == "symlink":
                    link = base / f"link{i}"
                    if link.is_symlink(): link.unlink()
                    link.symlink_to(target, target_is_directory=True)
                    d2 = Dataset(link)
                else:
                    d2 = Dataset(str(target) if i % 2 else target)
                r["info_same"] = jeq(json.loads(d2._dataset_info.model_dump_json()), ref_info)
                d2.check(show_progressbar=False); r["check"] = "ok"
                r["read_same"] = {s: sp.read_ids(d2, s) == ref[s] for s in ref}
                with DatasetFiller(d2, relative_path_from_split=Path("a")) as f:
                    f.write_example(values=sp.val(999), split="train")
                d3 = Dataset(target)
                d3.check(show_progressbar=False)
                r["after_write"] = sorted(sp.read_ids(d3, "train")) == sorted(ref["train"] + [999])
                r["orig_untouched"] = sp.read_ids(Dataset(root), "train") == ref["train"]
            except Exception as e:  # noqa: BLE001
                r["error"] = f"{type(e).__name__}: {str(e)[:200]}"
            out["moves"].append(r)
    # ---- version gate
    running = tuple(int(x) for x in sedpack.__version__.split(".")[:3])
    out["running"] = list(running)
    for vi, rec in enumerate(args["versions"]):
        root = base / f"v{vi}_{'_'.join(map(str, rec))}"
        r = {"recorded": rec}
        try:
            Dataset.create(root, Metadata(description="v", sedpack_version=".".join(map(str, rec))), DatasetStructure(shard_file_type="fb", compression=""))
            try:
                Dataset(root); r["loads"] = True
            except ValueError as e:
                r["loads"] = False; r["msg"] = str(e)[:80]
        except Exception as e:  # noqa: BLE001
            r["error"] = f"{type(e).__name__}: {str(e)[:200]}"
        out["versions"].append(r)
    # ---- dump without defaults / load
    for i in range(args["n_defaults"]):
        n = rng.choice([0, 0, 5]); files = [ShardInfo(file_infos=(FileInfo(file_path=f"train/f{j}.fb", hash_checksums=tuple(rng.choice([(), ("ab",)]))),),
                                                      number_of_examples=rng.choice([0, 0, 3]), custom_metadata=rng.choice([{}, {}, {"k": [1, {"z": None}]}]))
                                            for j in range(rng.choice([0, 0, 2]))]
        kids = [ShardListInfo(shard_list_info_file=FileInfo(file_path=f"train/c{j}/shards_list.json"), number_of_examples=rng.choice([0, 4]), number_of_shards=rng.choice([0, 2]))
                for j in range(rng.choice([0, 0, 2]))]
        sl = ShardsList(relative_path_self=Path("train/shards_list.json"), number_of_examples=n, shard_files=files, children_shard_lists=kids)
        txt = sl.model_dump_json(exclude_defaults=True)
        back = ShardsList.model_validate_json(txt)
        # the same document in the model's terms: field -> code of its value (0 = default)
        doc = [[1, n], [2, len(files)], [3, len(kids)]]
        present = json.loads(txt)
        out["defaults"].append({"equal": back == sl, "doc": doc,
                                "omitted": [k for k, name in ((1, "number_of_examples"), (2, "shard_files"), (3, "children_shard_lists")) if name not in present]})
    shutil.rmtree(base, ignore_errors=True)
    return out


def twins_in_two_threads(a):
    """(child) a dataset and its copy (same relative paths inside) opened, listed and checked by two threads of one process at the same
    time, repeatedly: a relocated copy behaves exactly like the original whatever else the process is doing."""
    import threading, time
    sp.sedpack()
    from sedpack.io import Dataset
    from harness.checks import iter_common as I
    base = Path(a["base"]); shutil.rmtree(base, ignore_errors=True); base.mkdir(parents=True)
    orig = base / "orig"; copy = base / "moved to" / "cöpy"
    I.build_dataset(orig, a["fmt"], "", 1, [{"sub": ".", "writes": [(0, a["shards"])]}, {"sub": "a", "writes": [(0, 20)]}])
    copy.parent.mkdir(parents=True); shutil.copytree(orig, copy)
    errs, rounds = [], {"orig": 0, "copy": 0}
    t0 = time.time()
    def loop(name, root):
        try:
            while time.time() - t0 < a["secs"] and not errs:
                d = Dataset(root)
                n = sum(1 for _ in d.shard_info_iterator("train"))
                if n != a["shards"] + 20: errs.append(f"{name}: {n} shards listed"); return
                d.check(show_progressbar=False)
                rounds[name] += 1
        except Exception as e:  # noqa: BLE001
            errs.append(f"{name}: {type(e).__name__}: {str(e)[:160]}")
    ths = [threading.Thread(target=loop, args=("orig", orig)), threading.Thread(target=loop, args=("copy", copy))]
    for t in ths: t.start()
    for t in ths: t.join(a["secs"] + 120)
    shutil.rmtree(base, ignore_errors=True)
    return {"errors": errs[:3], "rounds": rounds}


def other_locale(args):
    """(child started with LC_ALL=C PYTHONUTF8=0 PYTHONCOERCECLOCALE=0: the default text encoding is ASCII) — the description files are
    UTF-8 whatever the process's locale: create / fill / reopen / check / continue, and open a dataset a UTF-8 process wrote."""
    import locale
    sp.sedpack()
    from sedpack.io import Dataset, Metadata, DatasetStructure, Attribute
    out = {"encoding": locale.getpreferredencoding(False), "steps": []}
    base = Path(args["base"]); base.mkdir(parents=True, exist_ok=True)
    def step(name, fn):
        try:
            out["steps"].append({"step": name, "ok": fn()})
        except Exception as e:  # noqa: BLE001
            out["steps"].append({"step": name, "error": f"{type(e).__name__}: {str(e)[:160]}"})
    smd = {"site": "Zürich", "note": "ünï©ødé ☃", "k": [1, "é"]}
    for fmt in args["fmts"]:
        root = base / f"own_{fmt}"
        md = Metadata(description="déscription ☃", dataset_license="lïcence", custom_metadata={"ключ": ["значение", 1, None]})
        st = DatasetStructure(saved_data_description=[Attribute(name="a", dtype="int32", shape=(2,), custom_metadata={"unit": "µV"})], compression="", examples_per_shard=2, shard_file_type=fmt)
        def create():
            ds = Dataset.create(root, md, st)
            with ds.filler() as f:
                for v in range(3):
                    f.write_example(values=sp.val(v), split="train", custom_metadata=smd)
            return True
        step(f"{fmt}: create and fill with non-ASCII text at dataset / attribute / shard level", create)
        def reopen():
            d = Dataset(root)
            sm = [si.custom_metadata for si in d.shard_info_iterator("train")]
            d.check(show_progressbar=False)
            return d.metadata.description == md.description and jeq(d.metadata.custom_metadata, md.custom_metadata) \
                and d.dataset_structure.saved_data_description[0].custom_metadata == {"unit": "µV"} and len(sm) == 2 and all(jeq(m, smd) for m in sm) \
                and sorted(sp.read_ids(d, "train")) == [0, 1, 2]
        step(f"{fmt}: reopen, compare, check, iterate", reopen)
        def cont():
            d = Dataset(root)
            with d.filler() as f:
                f.write_example(values=sp.val(7), split="train", custom_metadata=smd)
            return sorted(sp.read_ids(Dataset(root), "train")) == [0, 1, 2, 7]
        step(f"{fmt}: continue writing and reopen", cont)
    for ex in args["existing"]:
        def foreign():
            d = Dataset(ex["root"])
            sm = [si.custom_metadata for si in d.shard_info_iterator("train")]
            d.check(show_progressbar=False)
            ok = jeq(json.loads(d._dataset_info.model_dump_json()), ex["info"]) and all(jeq(m, ex["shard_md"]) for m in sm) and len(sm) > 0
            with d.filler() as f:
                f.write_example(values={"a": sp.np.array([50, 50], dtype=sp.np.int32), "bé": sp.np.float32(1.5)}, split="train", custom_metadata=ex["shard_md"])
            return ok and len(sp.read_ids(Dataset(ex["root"]), "train")) == ex["n"] + 1
        step(f"open / check / continue a dataset written by a UTF-8 process ({Path(ex['root']).name})", foreign)
    return out


def run(ctx):
    rng = ctx.rng("c20")
    versions = [[0, 0, 7], [0, 0, 6], [0, 0, 8], [0, 0, 10], [0, 0, 69], [0, 1, 0], [1, 0, 0], [0, 0, 0], [0, 10, 0], [10, 0, 0], [0, 0, 70], [0, 0, 100]]
    versions += [[rng.choice([0, 0, 1, 12]), rng.choice([0, 0, 2, 30]), rng.choice([0, 5, 7, 9, 11, 123])] for _ in range(ctx.pick(6, 40))]
    res = child.call("harness.checks.c20", "run_cases", {"base": str(ctx.scratch / "c20"), "seed": rng.randrange(1 << 30), "n_descr": ctx.pick(9, 60),
                                                         "move_fmts": ["fb"] if not ctx.thorough else ["fb", "npz", "tfrec"], "versions": versions, "n_defaults": ctx.pick(30, 300), "keep": 2}, timeout=1800)
    # ---- the original and its copy used by two threads at once
    tw = child.call("harness.checks.c20", "twins_in_two_threads", {"base": str(ctx.scratch / "c20_twins"), "fmt": ["npz", "fb"][ctx.seed % 2], "shards": ctx.pick(200, 400), "secs": ctx.pick(5, 20)}, timeout=900)
    if tw["errors"]:
        ctx.report({"kind": "relocation", "how": "two-threads"}, f"a dataset and its copy opened, listed and checked by two threads at the same time: {tw['errors'][0]} (rounds completed: {tw['rounds']})", {"twins": tw})
    ctx.cov["twin_rounds_in_two_threads"] = tw["rounds"]
    # ---- the same under another default text encoding (a process whose locale is not UTF-8)
    loc = child.call("harness.checks.c20", "other_locale", {"base": str(ctx.scratch / "c20_locale"), "fmts": ["npz", "fb"] if not ctx.thorough else ["npz", "fb", "tfrec"], "existing": res.get("kept", [])},
                     timeout=900, env={"LC_ALL": "C", "LANG": "C", "PYTHONUTF8": "0", "PYTHONCOERCECLOCALE": "0"})
    for st_ in loc["steps"]:
        if st_.get("ok") is not True:
            ctx.report({"kind": "locale", "step": st_["step"].split(":")[-1].strip()[:40]},
                       f"in a process whose default text encoding is {loc['encoding']} (LC_ALL=C, UTF-8 mode off): {st_['step']} -> {st_.get('error', 'differs')}",
                       {"locale_env": {"LC_ALL": "C", "PYTHONUTF8": "0", "PYTHONCOERCECLOCALE": "0"}, "encoding": loc["encoding"], "step": st_})
    for k_ in res.get("kept", []): shutil.rmtree(k_["root"], ignore_errors=True)
    running = res["running"]
    for d in res["descr"]:
        if "error" in d:
            ctx.report({"kind": "descr-error"}, f"create/reopen failed: {d['error']}", {"case": d})
        elif not d.get("edited_same", True):
            ctx.report({"kind": "descr-differs", "what": "edited"}, f"a description edited after filling and saved with write_config is not what a fresh open reads ({d['fmt']}/{d['comp']})", {"case": d})
        elif not (d["same"] and d["same_json"] and d["shard_md_ok"]):
            ctx.report({"kind": "descr-differs", "what": "shard_md" if not d["shard_md_ok"] else "info"}, f"reopened description differs from the writer's ({d['fmt']}/{d['comp']}: same={d['same']} json={d['same_json']} shard_md={d['shard_md_ok']})", {"case": d})
    for m in res["moves"]:
        bad = "error" in m or not m.get("info_same") or m.get("check") != "ok" or not all(m.get("read_same", {}).values()) or not m.get("after_write") or not m.get("orig_untouched")
        if bad:
            ctx.report({"kind": "relocation", "how": m["kind"]}, f"{m['kind']} to {m['target']!r}: {({k: v for k, v in m.items() if k not in ('fmt', 'kind', 'target')})}", {"case": m})
    reqs = [{"m": "ver", "recorded": v["recorded"], "running": running} for v in res["versions"]]
    reps = lean.driver(reqs)
    corr_bad = []
    for v, rep in zip(res["versions"], reps):
        if "error" in v:
            ctx.report({"kind": "version-error"}, f"could not stamp version {v['recorded']}: {v['error']}", {"case": v}); continue
        newer = tuple(v["recorded"]) > tuple(running)          # the property's wording: numeric comparison of the triples
        if v["loads"] == newer:
            ctx.report({"kind": "version-gate", "newer": newer, "more_digits": any(len(str(a)) != len(str(b)) for a, b in zip(v["recorded"], running))},
                       f"running {running}, dataset recorded by {v['recorded']}: {'loaded' if v['loads'] else 'refused'} (expected {'refusal' if newer else 'load'})", {"case": v, "running": running})
        if rep.get("loads") != v["loads"]:
            corr_bad.append({"recorded": v["recorded"], "running": running, "model": rep.get("loads"), "impl": v["loads"]})
    dreqs = [{"m": "defaults", "dflt": [[1, 0], [2, 0], [3, 0]], "doc": d["doc"]} for d in res["defaults"]]
    dreps = lean.driver(dreqs)
    for d, rep in zip(res["defaults"], dreps):
        if not d["equal"]:
            ctx.report({"kind": "defaults-roundtrip"}, f"ShardsList dump(exclude_defaults)/load is not the identity for {d['doc']}", {"case": d})
        model_omitted = sorted({1, 2, 3} - {p[0] for p in rep["dump"]})
        if model_omitted != sorted(d["omitted"]) or rep["load"] != d["doc"]:
            corr_bad.append({"doc": d["doc"], "model_omitted": model_omitted, "impl_omitted": d["omitted"], "model_load": rep["load"]})
    if corr_bad and not ctx.violations and not ctx.known_hits:
        ctx.report({"kind": "correspondence"}, f"M-VER disagrees with the implementation: {corr_bad[0]}",
                   {"correspondence": "Ver.loads vs DatasetBase._load; Ver.dump/load vs pydantic exclude_defaults", "theorem": "Sedpack.Ver.C20_gate", "cases": corr_bad[:3]}, name="corr", nofail=True)
    ctx.cov.update({
        "evaluations": len(res["descr"]) + len(res["moves"]) + len(res["versions"]) + len(res["defaults"]) + len(loc["steps"]),
        "other_locale": {"encoding": loc["encoding"], "steps": len(loc["steps"])},
        "distinct_nontrivial": len({(d.get("fmt"), d.get("comp")) for d in res["descr"]}) + len({tuple(v["recorded"]) for v in res["versions"]}) + len({(m["kind"], m["target"]) for m in res["moves"]}),
        "traces_validated_against_impl": len(res["versions"]) + len(res["defaults"]) - len(corr_bad),
        "rule": "descriptions with unicode text and random nested JSON custom metadata at dataset/attribute/shard level over every format x compression x algorithm subset; copies/moves to nested, "
                "unicode, blank-containing and cwd-relative locations followed by open/check/iterate/continue-writing; the create / reopen / check / continue cycle and the opening of a dataset written by a UTF-8 process repeated in a child process whose default text encoding is ASCII; version triples around the running version incl. multi-digit components; "
                "random ShardsList documents through dump(exclude_defaults)/validate",
        "samples": [res["descr"][0], res["moves"][0], res["versions"][3]],
        "input_distribution": {"descriptions": len(res["descr"]), "moves": len(res["moves"]), "versions": len(res["versions"]), "defaults": len(res["defaults"]), "running": running},
    })
