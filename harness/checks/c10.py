"""C10 — shards respect the configured size.  Lean: SedpackProps/C10.lean over M-FILL."""
from __future__ import annotations
from harness.checks import fill_common as F

ASSUMPTIONS = ["examples_per_shard >= 1 (the property's own premise)",
               "the shard writers are atomic per example (their accept/append behaviour is C18's concern)"]
TRUSTED = ["modelled-not-verified: shard file encoders/decoders (used only to count stored examples)"]


def oracle(ctx, c):
    impl = c["impl"]
    if impl["read_err"] or impl["session_errors"]:
        ctx.report({"kind": "session-error", "format": c["fmt"]}, f"session failed: {impl['session_errors'] or impl['read_err']}",
                   {"case": F.slim(c), "errors": impl["session_errors"], "read_err": impl["read_err"]})
        return
    eps = c["eps"]
    sess_of = {r["ex"]: si for si, recs in enumerate(impl["records"]) for r in recs}
    for s in range(3):
        shards = impl["listing"].get(s, [])
        for x in shards:
            ids = x["ids"]
            if isinstance(ids, str) or not (1 <= x["n"] <= eps) or x["n"] != len(ids):
                ctx.report({"kind": "size", "format": c["fmt"]},
                           f"listed shard with n={x['n']} stored={ids if isinstance(ids, str) else len(ids)} eps={eps}",
                           {"case": F.slim(c), "split": s, "shard": x})
                return
        # full-except-last: within a session, a shard that is not the last and not full must have been closed by a
        # metadata change, i.e. between its last example and the next shard's first example some write to this split
        # carried a non-empty metadata value different from the shard's own.
        from harness.checks.fill_common import md_code
        for si, recs in enumerate(impl["records"]):
            seg = [x for x in shards if x["ids"] and sess_of.get(x["ids"][0]) == si]
            mine = [r for r in recs if r["split"] == s]
            for x, nxt in zip(seg, seg[1:]):
                if x["n"] == eps:
                    continue
                a, b = x["ids"][-1], nxt["ids"][0]
                own = md_code(x["md"])
                if not any(a < r["ex"] <= b and r["md"] not in (0, own) for r in mine):
                    ctx.report({"kind": "not-full", "format": c["fmt"]},
                               f"non-last shard of session {si} split {s} holds {x['n']} < eps={eps} although the metadata did not change there",
                               {"case": F.slim(c), "split": s, "segment": seg})
                    return


def failing_label(a):
    """(child) the example is fine but its *label* cannot be copied (an object `copy.deepcopy` refuses: a lock handed over by mistake;
    a label nested deeper than the recursion limit allows): `write_example` raises, the caller skips that example and keeps writing.
    Whether the example of the failing call is stored or not, no listed shard may exceed the configured size, and the recorded count
    of every shard is what its file holds."""
    import shutil, threading, sys
    from pathlib import Path
    from harness.core import sp
    sp.sedpack()
    from sedpack.io import Dataset
    out = []
    for kind in a["kinds"]:
        root = Path(a["root"]); shutil.rmtree(root, ignore_errors=True)
        r = {"kind": kind, "eps": a["eps"]}
        try:
            ds = sp.mk(root, fmt=a["fmt"], eps=a["eps"])
            def bad_label():
                if kind == "lock":
                    return {"k": 1, "handle": threading.Lock()}
                d = cur = {"k": 1}
                for _ in range(sys.getrecursionlimit() * 2):
                    cur["n"] = {}; cur = cur["n"]
                return d
            failed = 0
            with ds.filler() as f:
                v = 0
                for step in range(a["steps"]):
                    for lab in ([bad_label()] * a["bad_run"] if step % 2 == 0 else []) + [{"k": 1}] * (a["eps"] + 1):
                        try:
                            f.write_example(values=sp.val(v), split="train", custom_metadata=lab)
                        except Exception:  # noqa: BLE001  (TypeError: cannot pickle a lock / RecursionError)
                            failed += 1
                        v += 1
            r["failed_calls"] = failed
            d2 = Dataset(root)
            r["shards"] = []
            for si in d2.shard_info_iterator("train"):
                ids = F.decode_shard(d2, d2.path / si.file_infos[0].file_path)
                r["shards"].append({"n": si.number_of_examples, "stored": len(ids) if isinstance(ids, list) else str(ids)})
        except Exception as e:  # noqa: BLE001
            r["error"] = f"{type(e).__name__}: {str(e)[:200]}"
        out.append(r)
        shutil.rmtree(root, ignore_errors=True)
    return out


def two_threads_one_filler(a):
    """(child) one filler used by two threads, each confined to its own split; some of thread A's writes are paused in the middle (the
    example is a mapping whose lookup of the attribute waits) while the other thread completes a write into the other split.  Sizes are
    per split: every shard but the last of a split is full, none is over-full."""
    import shutil, threading
    from pathlib import Path
    from harness.core import sp
    sp.sedpack()
    from sedpack.io import Dataset
    class Pausing(dict):
        def __init__(self, d, reached, go):
            super().__init__(d); self._reached, self._go, self._done = reached, go, False
        def __getitem__(self, k):
            if not self._done:
                self._done = True; self._reached.set(); self._go.wait(10)
            return super().__getitem__(k)
    out = []
    for fmt in a["fmts"]:
        root = Path(a["root"]); shutil.rmtree(root, ignore_errors=True)
        r = {"fmt": fmt, "eps": a["eps"]}
        try:
            ds = sp.mk(root, fmt=fmt, eps=a["eps"])
            errs = []
            with ds.filler() as f:
                pauses = {}
                def writer_a():
                    try:
                        for v in range(a["na"]):
                            vals = sp.val(v)
                            if v in a["pause_at"]:
                                ev = pauses[v] = (threading.Event(), threading.Event())
                                vals = Pausing(vals, *ev)
                            f.write_example(values=vals, split="train")
                    except Exception as e:  # noqa: BLE001
                        errs.append(f"A: {type(e).__name__}: {str(e)[:120]}")
                t = threading.Thread(target=writer_a)
                for v in a["pause_at"]: pauses[v] = None
                t.start()
                vb = 1000
                import time
                for v in a["pause_at"]:
                    t0 = time.time()
                    while (pauses.get(v) is None or not pauses[v][0].wait(0.05)) and time.time() - t0 < 5 and t.is_alive(): pass
                    try:
                        f.write_example(values=sp.val(vb), split="test"); vb += 1        # one complete write into the other split meanwhile
                    except Exception as e:  # noqa: BLE001
                        errs.append(f"B: {type(e).__name__}: {str(e)[:120]}")
                    if pauses.get(v): pauses[v][1].set()
                t.join(60)
                for _ in range(a["nb"] - len(a["pause_at"])):
                    f.write_example(values=sp.val(vb), split="test"); vb += 1
            r["errors"] = errs
            d2 = Dataset(root)
            r["sizes"] = {s_: [[si.number_of_examples, len(F.decode_shard(d2, d2.path / si.file_infos[0].file_path))] for si in d2.shard_info_iterator(s_)] for s_ in ("train", "test")}
            r["want"] = {"train": a["na"], "test": a["nb"]}
        except Exception as e:  # noqa: BLE001
            r["error"] = f"{type(e).__name__}: {str(e)[:200]}"
        out.append(r)
        shutil.rmtree(root, ignore_errors=True)
    return out


def run(ctx):
    from harness.core import child
    nfl = 0
    for r in child.call("harness.checks.c10", "two_threads_one_filler", {"root": str(ctx.scratch / "c10_threads"), "fmts": ["npz", "fb"] if not ctx.thorough else ["npz", "fb", "tfrec"],
                                                                      "eps": 4, "na": 10, "nb": 9, "pause_at": [2, 3, 6]}, timeout=600):
        nfl += 1
        bad = r.get("error") or r.get("errors")
        if not bad:
            for s_, sizes in r["sizes"].items():
                if any(n != st for n, st in sizes) or any(not (1 <= n <= r["eps"]) for n, _ in sizes) or any(n != r["eps"] for n, _ in sizes[:-1]) or sum(n for n, _ in sizes) != r["want"][s_]:
                    bad = f"split {s_}: shards (recorded, stored) {sizes} for {r['want'][s_]} examples, eps={r['eps']}"
        if bad:
            ctx.report({"kind": "size", "format": r["fmt"], "two_threads": True},
                       f"{r['fmt']}: one filler used by two threads, each writing its own split, some writes overlapping in time: {bad}", {"threads_case": r})
    for j, fmt in enumerate(["fb", "npz", "tfrec"][: ctx.pick(2, 3)]):
        fa = {"root": str(ctx.scratch / f"c10_label{j}"), "fmt": ["fb", "npz", "tfrec"][(j + ctx.seed) % 3], "eps": [4, 2, 3][j], "steps": 4, "bad_run": [3, 7, 1][j], "kinds": ["lock", "deep"]}
        for r in child.call("harness.checks.c10", "failing_label", fa, timeout=600):
            nfl += 1
            if "error" in r:
                ctx.report({"kind": "session-error", "format": fa["fmt"], "label": r["kind"]}, f"session with labels that cannot be copied failed as a whole: {r['error']}", {"label_case": fa, "result": r}); continue
            bad = next((x for x in r["shards"] if not isinstance(x["stored"], int) or not (1 <= x["stored"] <= r["eps"]) or x["n"] != x["stored"]), None)
            if bad is not None:
                ctx.report({"kind": "size", "format": fa["fmt"], "label": r["kind"]},
                           f"after write_example calls that failed while copying the label ({r['kind']}; {r['failed_calls']} failed calls, skipped by the caller): a listed shard records {bad['n']} and stores {bad['stored']} examples, eps={r['eps']}",
                           {"label_case": fa, "result": r})
    ctx.cov["failing_label_runs"] = nfl
    cases = F.explore(ctx, "C10")
    for c in cases:
        oracle(ctx, c)
    F.finish(ctx, "C10", cases, "Sedpack.Fill.C10_shard_size_bounds / C10_full_except_last")
