"""C10 — shards respect the configured size.  Lean: SedpackProps/C10.lean over M-FILL."""
from __future__ import annotations
from harness.checks import fill_common as F

ASSUMPTIONS = ["examples_per_shard >= 1 (the property's own premise)",
               "the shard writers are atomic per example (their accept/append behaviour is C18's concern)"]
TRUSTED = ["modelled-not-verified: shard file encoders/decoders (used only to count stored examples)"]


def oracle(ctx, c):
    impl = c["impl"]
    if impl["read_err"] or impl["session_errors"]:
        ctx.report({"kind": "session-error", "format": c["fmt"]}, f"session failed: {impl['session_errors'] or impl['read_err']}",
                   {"case": F.slim(c), "errors": impl["session_errors"], "read_err": impl["read_err"]})
        return
    eps = c["eps"]
    sess_of = {r["ex"]: si for si, recs in enumerate(impl["records"]) for r in recs}
    for s in range(3):
        shards = impl["listing"].get(s, [])
        for x in shards:
            ids = x["ids"]
            if isinstance(ids, str) or not (1 <= x["n"] <= eps) or x["n"] != len(ids):
                ctx.report({"kind": "size", "format": c["fmt"]},
                           f"listed shard with n={x['n']} stored={ids if isinstance(ids, str) else len(ids)} eps={eps}",
                           {"case": F.slim(c), "split": s, "shard": x})
                return
        # full-except-last: within a session, a shard that is not the last and not full must have been closed by a
        # metadata change, i.e. between its last example and the next shard's first example some write to this split
        # carried a non-empty metadata value different from the shard's own.
        from harness.checks.fill_common import md_code
        for si, recs in enumerate(impl["records"]):
            seg = [x for x in shards if x["ids"] and sess_of.get(x["ids"][0]) == si]
            mine = [r for r in recs if r["split"] == s]
            for x, nxt in zip(seg, seg[1:]):
                if x["n"] == eps:
                    continue
                a, b = x["ids"][-1], nxt["ids"][0]
                own = md_code(x["md"])
                if not any(a < r["ex"] <= b and r["md"] not in (0, own) for r in mine):
                    ctx.report({"kind": "not-full", "format": c["fmt"]},
                               f"non-last shard of session {si} split {s} holds {x['n']} < eps={eps} although the metadata did not change there",
                               {"case": F.slim(c), "split": s, "segment": seg})
                    return


def run(ctx):
    cases = F.explore(ctx, "C10")
    for c in cases:
        oracle(ctx, c)
    F.finish(ctx, "C10", cases, "Sedpack.Fill.C10_shard_size_bounds / C10_full_except_last")
