"""C03 — unshuffled iteration is deterministic and preserves write order.
Lean: SedpackProps/C03.lean (output = function of the on-disk state, for every file_parallelism).
Correspondence/oracle: every interface with shuffle=0 over several passes, after reopening, with
file_parallelism 1..#shards+2 and seeded loader delays; sequences compared with each other, with the
shard enumeration order and (single-session datasets) with the write order; the batches the real
concurrent path forms are compared with the model's `batches`."""
from __future__ import annotations
import collections, json, shutil, time
from harness.core import lean, sp, child
from harness.checks import iter_common as I

ASSUMPTIONS = ["concurrent.futures' Executor.map returns results in argument order; tf.data with cycle_length=1 is order preserving (specified externals)"]
TRUSTED = ["modelled-not-verified: ThreadPoolExecutor.map ordering, tf.data deterministic interleave, Rust channel FIFO order (C15)"]


def run_e2e(args):
    sp.sedpack(rust=True)
    from sedpack.io import Dataset
    import sedpack.io.dataset_iteration as DI
    import random
    out = []
    for a in args:
        root = a["root"]
        rng = random.Random(a["seed"])
        ds = sp.mk(root, fmt=a["fmt"], comp=a["comp"], eps=a["eps"])
        order = {s: [] for s in I.SPLITS}
        sess_orders = []       # per session: {split: ids in write order}
        lo = 0
        def feed(filler, lo_, hi_, split):
            with filler as f:
                for k in range(lo_, hi_):
                    f.write_example(values=sp.val(k), split=split)
            return hi_ - lo_
        for se in a["sessions"]:
            so = {s: [] for s in I.SPLITS}
            if se["mode"] == "session":
                from sedpack.io.dataset_filler import DatasetFiller
                from pathlib import Path as _P
                with DatasetFiller(ds, relative_path_from_split=_P(se.get("sub", "."))) as f:
                    for wi, s in enumerate(se["writes"]):
                        # optional shard-level metadata that comes back to an earlier value after a different one (A, B, A)
                        md = None
                        if se.get("mds"):
                            code = se["mds"][wi % len(se["mds"])]
                            md = {"k": code} if code else None
                        f.write_example(values=sp.val(lo), split=I.SPLITS[s], custom_metadata=md); so[I.SPLITS[s]].append(lo); lo += 1
            else:   # one multi-writer call, single_process so that the order of the argument list is the write order
                argl = []
                for n, s in se["writers"]:
                    argl.append((lo, lo + n, I.SPLITS[s])); so[I.SPLITS[s]] += list(range(lo, lo + n)); lo += n
                ds.write_multiprocessing(feed_writer=feed, custom_arguments=argl, single_process=True)
            sess_orders.append(so)
            for s in I.SPLITS: order[s] += so[s]
        rec = {"case": {k: a[k] for k in a if k != "root"}, "order": order, "sess_orders": sess_orders, "runs": [], "batches": []}
        # log the batches of the unshuffled concurrent path
        RealTPE = DI.ThreadPoolExecutor
        batches_seen = []
        class LogTPE(RealTPE):
            def map(self, fn, *iterables, **kw):
                its = [list(i) for i in iterables]
                batches_seen.append([str(p).rsplit("/", 1)[-1] for p in its[0]])
                return super().map(fn, *its, **kw)
        DI.ThreadPoolExecutor = LogTPE
        # seeded delays in the loaders (perturbs completion order of the worker threads)
        from sedpack.io.flatbuffer import IterateShardFlatBuffer
        from sedpack.io.npz import IterateShardNP
        from sedpack.io.tfrec import IterateShardTFRec
        origs = {}
        for cls in (IterateShardFlatBuffer, IterateShardNP, IterateShardTFRec):
            origs[cls] = cls.process_and_list
            def slow(self, shard_file, _o=cls.process_and_list):
                time.sleep((hash(str(shard_file)) % 5) * 0.002)
                return _o(self, shard_file)
            cls.process_and_list = slow
        try:
            for handle in ("same", "reopen"):
                d = ds if handle == "same" else Dataset(root)
                for split in [s for s in order if order[s]]:
                    paths = [p.rsplit("/", 1)[-1] for p in d.shard_paths_dataset(split=split)]
                    nsh = len(paths)
                    for iface in I.IFACES:
                        if not I.supports(iface, a["fmt"], a["comp"]):
                            continue
                        Ts = [1] if iface in ("sync",) else sorted({1, 2, max(1, nsh - 1), nsh, nsh + 2})
                        if not a["thorough"]:
                            Ts = Ts[:1] + Ts[-1:] if len(Ts) > 1 else Ts
                        for T in Ts:
                            for p in range(2 if handle == "same" else 1):
                                batches_seen.clear()
                                try:
                                    got, _ = I.run_iface(d, iface, split, shuffle=0, T=T)
                                except Exception as e:  # noqa: BLE001
                                    got = f"{type(e).__name__}: {str(e)[:150]}"
                                rec["runs"].append({"iface": iface, "split": split, "T": T, "handle": handle, "got": got})
                                if iface == "concurrent" and p == 0:
                                    rec["batches"].append({"T": T, "paths": paths, "seen": [list(b) for b in batches_seen]})
                        # "on every pass": the repeating unshuffled stream, several passes long, with a read parallelism
                        # that does not divide the number of shards
                        if handle == "same":
                            N = len(order[split])
                            for T in ([1] if iface == "sync" else [nsh + 1, 2 * nsh + 1]):
                                take = 3 * N + 1
                                try:
                                    got, _ = I.run_iface(d, iface, split, shuffle=0, T=T, repeat=True, take=take)
                                except Exception as e:  # noqa: BLE001
                                    got = f"{type(e).__name__}: {str(e)[:150]}"
                                rec["runs"].append({"iface": iface, "split": split, "T": T, "handle": "repeat", "got": got, "take": take})
        finally:
            DI.ThreadPoolExecutor = RealTPE
            for cls, o in origs.items():
                cls.process_and_list = o
        enum, rec["enum_error"] = I.safe_enumeration(Dataset(root))
        rec["enumerated"] = {s: [x for sh in enum.get(s, []) for x in sh] for s in order}
        out.append(rec)
        shutil.rmtree(root, ignore_errors=True)
    return out


def many_shards(args):
    """(child) one split of ~100 one-example shards read unshuffled with a read parallelism above 64 and not a round number."""
    sp.sedpack(rust=True)
    from sedpack.io import Dataset
    out = []
    for a in args:
        root = a["root"]
        ds = sp.mk(root, fmt="fb", comp=a["comp"], eps=1)
        n = a["n"]
        with ds.filler() as f:
            for v in range(n):
                f.write_example(values=sp.val(v), split="train")
        ds = Dataset(root)
        rec = {"case": {k: a[k] for k in a if k != "root"}, "runs": []}
        for iface in ("rust", "concurrent", "async"):
            if not I.supports(iface, "fb", a["comp"]): continue
            for T in a["Ts"]:
                try:
                    got, _ = I.run_iface(ds, iface, "train", shuffle=0, T=T)
                except BaseException as e:  # noqa: BLE001
                    got = f"{type(e).__name__}: {str(e)[:150]}"
                rec["runs"].append({"iface": iface, "T": T, "got": got})
        out.append(rec)
        shutil.rmtree(root, ignore_errors=True)
    return out


def gen(ctx):
    rng = ctx.rng("c03")
    cases = []
    for i in range(ctx.pick(5, 20)):
        fmt = ["fb", "npz", "tfrec"][i % 3]
        comp = rng.choice({"fb": ["", "LZ4", "GZIP"], "npz": ["", "ZIP"], "tfrec": ["", "GZIP"]}[fmt])
        eps = rng.choice([1, 2, 3])
        c = {"root": str(ctx.scratch / f"c03_{i}"), "fmt": fmt, "comp": comp, "eps": eps, "seed": rng.randrange(1 << 30), "thorough": ctx.thorough}
        def one_session():
            nsp = rng.choice([1, 2, 3])
            return {"mode": "session", "sub": rng.choice([".", ".", "a", "a/y"]),
                    "writes": [rng.randrange(nsp) for _ in range(rng.choice([1, eps + 1, 3 * eps + 1, 4 * eps + 2]))],
                    "mds": rng.choice([None, None, [1, 1, 2, 2, 1, 1], [1, 2, 1, 0, 2], [3, 3, 3, 4, 4, 3, 3, 3]])}
        def one_multi():
            w = [(rng.choice([0, 1, eps, eps + 1, 2 * eps + 1]), rng.randrange(2)) for _ in range(rng.choice([2, 3, 4]))]
            if not any(n for n, _ in w): w[0] = (eps + 1, 0)
            return {"mode": "multi", "writers": w}
        shape = i % 5
        if shape == 0: c["sessions"] = [one_session()]
        elif shape == 1: c["sessions"] = [one_multi()]
        elif shape == 2: c["sessions"] = [one_multi(), one_session()]            # a later session must not disturb the earlier order
        elif shape == 3: c["sessions"] = [one_session(), one_multi(), one_session()]
        else: c["sessions"] = [one_multi(), one_multi()]
        c["mode"] = "+".join(s["mode"] for s in c["sessions"])
        cases.append(c)
    # directed: an earlier multi-writer / sub-directory session followed by later sessions touching the same split
    directed = [
        [{"mode": "multi", "writers": [(3, 0), (5, 0), (2, 0)]}, {"mode": "session", "sub": ".", "writes": [0, 0, 0]}],
        [{"mode": "multi", "writers": [(2, 0), (2, 1), (3, 0)]}, {"mode": "multi", "writers": [(1, 0), (2, 0)]}, {"mode": "session", "sub": "a", "writes": [0, 1]}],
        [{"mode": "session", "sub": "a", "writes": [0, 0, 0]}, {"mode": "session", "sub": "b", "writes": [0, 0]}, {"mode": "session", "sub": "a/y", "writes": [0, 0]},
         {"mode": "session", "sub": ".", "writes": [0]}],
    ]
    directed += [
        # many writer directories in one split: one call with 11 writers, and two calls of 5 and 6 that add up
        [{"mode": "multi", "writers": [(1 + k % 2, 0) for k in range(11)]}, {"mode": "session", "sub": ".", "writes": [0]}],
        [{"mode": "multi", "writers": [(1, 0)] * 5}, {"mode": "multi", "writers": [(2, 0), (1, 1), (1, 0), (1, 0), (1, 0), (1, 0)]}],
    ]
    for j, d in enumerate(directed):
        cases.insert(0, {"root": str(ctx.scratch / f"c03_d{j}"), "fmt": ["fb", "npz", "tfrec"][j % 3], "comp": "", "eps": 2, "seed": j,
                         "thorough": ctx.thorough, "sessions": d, "mode": "directed:" + "+".join(x["mode"] for x in d)})
    return cases


def rust_order(ctx):
    """`parallel_map` driven directly (the cargo harness of C15): whatever the relative speeds of the workers — one straggler among fast
    items, item-dependent delays, a stalling consumer — a full pass returns the results in input order."""
    from harness.checks import c15
    lines, _, rc, tail = c15.cargo_harness(ctx, long_stall_ms=1)
    n = 0
    for l in lines:
        if l["kind"] not in ("full", "stall"):
            continue
        n += 1
        if l["out"] != [x * 10 for x in range(l["n"])]:
            ctx.report({"kind": "rust-order", "stage": "parallel_map", "straggler": "straggler" in l},
                       f"parallel_map(n={l['n']}, threads={l['threads']}" + (f", item {l['straggler']} slow" if "straggler" in l else "") + f") returned {str(l['out'])[:120]} instead of the inputs' order", {"case": l})
            break
    if not n:
        raise RuntimeError(f"cargo harness produced nothing (rc={rc}): {tail[-300:]}")
    return n


def run(ctx):
    ctx.cov["rust_parallel_map_order_cases"] = rust_order(ctx)
    cases = gen(ctx)
    recs = []
    for i in range(0, len(cases), 6):
        recs += child.call("harness.checks.c03", "run_e2e", cases[i:i + 6], timeout=1500)
    nruns, distinct = 0, set()
    breqs, bobs = [], []
    for r in child.call("harness.checks.c03", "many_shards", [{"root": str(ctx.scratch / "c03_many"), "comp": ["", "LZ4", "GZIP"][ctx.seed % 3], "n": 110,
                                                                "Ts": [65, 72, 99] if not ctx.thorough else [63, 64, 65, 72, 99, 100, 128, 130]}], timeout=900):
        for run_ in r["runs"]:
            nruns += 1
            if run_["got"] != list(range(r["case"]["n"])):
                ctx.report({"kind": "sequence", "iface": run_["iface"], "many_threads": True},
                           f"fb {run_['iface']} with file_parallelism={run_['T']} over {r['case']['n']} one-example shards: {str(run_['got'])[:160]} is not the write order",
                           {"case": r["case"], "run": {"iface": run_["iface"], "T": run_["T"], "got": run_["got"] if isinstance(run_["got"], str) else run_["got"][:140]}})
            distinct.add(("fb", "many", run_["iface"], 4, "same"))
    for r in recs:
        if r.get("enum_error"):
            ctx.report({"kind": "listing-error"}, f"enumerating the shards of a valid dataset failed: {r['enum_error']}", {"case": r["case"]})
    for r in recs:
        for split, order in r["order"].items():
            if not order:
                continue
            enum = r["enumerated"].get(split)
            # every session's examples must appear in the order written (later sessions must not disturb it)
            for si, so in enumerate(r["sess_orders"]):
                mine = set(so[split])
                sub = [x for x in (enum or []) if x in mine]
                if sub != so[split]:
                    ctx.report({"kind": "write-order", "mode": r["case"]["mode"], "later_session": si + 1 < len(r["sess_orders"])},
                               f"split {split}: session {si} wrote {so[split]} but the shards enumerate them as {sub}", {"case": r["case"], "split": split})
            for run_ in [x for x in r["runs"] if x["split"] == split]:
                nruns += 1
                if run_["handle"] == "repeat":
                    want = ((enum or []) * 4)[:run_["take"]]
                    if run_["got"] != want:
                        ctx.report({"kind": "sequence-repeat", "iface": run_["iface"]},
                                   f"{r['case']['fmt']} {run_['iface']} T={run_['T']} repeating stream of split {split}: {str(run_['got'])[:200]} is not the one-pass sequence {str(enum)[:100]} repeated",
                                   {"case": r["case"], "run": run_, "expected": want})
                    distinct.add((r["case"]["fmt"], r["case"]["mode"], run_["iface"], min(run_["T"], 4), "repeat"))
                    continue
                if run_["got"] != enum:
                    ctx.report({"kind": "sequence", "iface": run_["iface"]},
                               f"{r['case']['fmt']} {run_['iface']} T={run_['T']} ({run_['handle']}) split {split}: {str(run_['got'])[:200]} != enumeration order {str(enum)[:120]}",
                               {"case": r["case"], "run": run_, "expected": enum})
                distinct.add((r["case"]["fmt"], r["case"]["mode"], run_["iface"], min(run_["T"], 4), run_["handle"]))
        for b in r["batches"]:
            ids = {p: k for k, p in enumerate(b["paths"])}
            breqs.append({"m": "batches", "T": b["T"], "xs": list(range(len(b["paths"])))})
            bobs.append((r["case"], b, [[ids.get(p, -1) for p in bb] for bb in b["seen"]]))
    reps = lean.driver(breqs) if breqs else []
    corr_bad = []
    for (case, b, seen), rep in zip(bobs, reps):
        if rep.get("batches") != seen:
            corr_bad.append({"case": case, "T": b["T"], "n_shards": len(b["paths"]), "impl_batches": seen, "model_batches": rep.get("batches")})
    if corr_bad and not ctx.violations and not ctx.known_hits:
        ctx.report({"kind": "correspondence"}, "the unshuffled concurrent path no longer forms the model's batches",
                   {"correspondence": "Iter.batches vs executor.map argument lists", "theorem": "Sedpack.Pipe.C03_concurrent_unshuffled_eq", "cases": corr_bad[:3]},
                   name="corr", nofail=True)
    ctx.cov.update({
        "evaluations": nruns + len(bobs), "distinct_nontrivial": len(distinct), "traces_validated_against_impl": len(bobs) - len(corr_bad),
        "rule": "single-session datasets (splits interleaved) and single multi-writer calls; every interface with shuffle=0, repeat=False, "
                "file_parallelism in {1,2,#shards-1,#shards,#shards+2}, two passes + reopened handle, seeded loader delays; plus the repeating stream (3 passes + 1) with file_parallelism #shards+1 and 2*#shards+1; "
                "distinct = (format, write mode, interface, T class, handle)",
        "samples": [{"case": r["case"], "order": r["order"], "first_run": r["runs"][:1]} for r in recs[:2]],
        "input_distribution": {"by_iface": collections.Counter(x["iface"] for r in recs for x in r["runs"]),
                               "modes": collections.Counter(r["case"]["mode"] for r in recs), "batch_observations": len(bobs)},
    })
