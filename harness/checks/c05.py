"""C05 — integrity check accepts every committed dataset and detects every modification.
Lean: SedpackProps/C05.lean (completeness on exact trees, detection in pass 1 / pass 2).
Correspondence: the verdict of the real Dataset.check on faulted copies vs the model's `check`.
Oracle: after a history the check passes; every planted fault on a reachable file makes it raise."""
from __future__ import annotations
import collections, hashlib, json, os, shutil
from pathlib import Path
from harness.core import lean, sp, child
from harness.checks import tree_common as T

ASSUMPTIONS = ["at least one checksum algorithm configured", "the new content's digest differs from the recorded one (no collision for the specific pair): "
               "verified for every planted fault by the harness", "symlinks are not planted"]
TRUSTED = ["modelled-not-verified: hashlib/xxhash, pydantic parsing (after the digest comparison)"]
ALGOS = ["md5", "sha1", "sha224", "sha256", "sha384", "sha512", "sha3_224", "sha3_256", "sha3_384", "sha3_512", "xxh32", "xxh64", "xxh128"]


def verdict(root, expected=()):
    from sedpack.io import Dataset
    try:
        Dataset(root).check(show_progressbar=False, hash_checksums_values=tuple(expected))
        return "pass"
    except Exception as e:  # noqa: BLE001
        return f"fail:{type(e).__name__}"


def reachable_files(root: Path):
    """(relative path, kind) of every list / shard file reachable from dataset_info.json"""
    out = []
    info = json.loads((root / "dataset_info.json").read_text())
    def walk(rec):
        rel = rec["shard_list_info_file"]["file_path"]
        out.append((rel, "list"))
        d = json.loads((root / rel).read_text())
        for s in d.get("shard_files", []):
            out.append((s["file_infos"][0]["file_path"], "shard"))
        for c in d.get("children_shard_lists", []):
            walk(c)
    for rec in info.get("splits", {}).values():
        walk(rec)
    return out


def run_cases(args):
    sp.sedpack()
    import random
    from sedpack.io import Dataset
    out = []
    for a in args:
        rng = random.Random(a["seed"])
        root = Path(a["root"])
        ds = sp.mk(root, fmt=a["fmt"], eps=a["eps"], hashes=a["hashes"])
        recs = None
        shutil.rmtree(root)
        recs, _ = run_hist(root, a)
        res = {"case": {k: a[k] for k in a if k != "root"}, "faults": [], "closed": [r["closed"] for r in recs],
               "session_errors": [r["error"] for r in recs if r["error"]]}
        res["baseline"] = verdict(root)
        root_ck = list(Dataset(root).current_metadata_checksums())
        res["baseline_root"] = verdict(root, root_ck)
        files = reachable_files(root)
        res["n_files"] = len(files)
        older = a.get("older")   # snapshot of an older version of the lists (for roll-back faults)
        def plant(kind, rel, fn, extra=None):
            cp = Path(str(root) + "_fault")
            if cp.exists(): shutil.rmtree(cp)
            shutil.copytree(root, cp)
            p = cp / rel
            before = p.read_bytes() if p.exists() else None
            fn(p)
            after = p.read_bytes() if p.exists() else None
            if before == after:
                shutil.rmtree(cp); return
            v = verdict(cp)
            res["faults"].append({"file": rel, "fkind": kind, **(extra or {}), "verdict": v,
                                  "dir": T.dir_code(Path(rel).parent), "name": Path(rel).name})
            shutil.rmtree(cp)
        pool = [f for f in files if f[1] == a["pick_kind"] and f[0].count("/") >= 2] if a.get("pick_kind") else files
        picks = pool if a["all_files"] and not a.get("pick_kind") else rng.sample(pool, min(len(pool), a["nfiles"]))
        for rel, fk in picks:
            data = (root / rel).read_bytes()
            n = len(data)
            offs = sorted({0, n - 1, rng.randrange(n), rng.randrange(n)} if n else set())
            if a["every_byte"] and n < 2048:
                offs = list(range(n))
            for o in offs:
                def flip(p, o=o):
                    b = bytearray(p.read_bytes()); b[o] ^= 1 << rng.randrange(8); p.write_bytes(bytes(b))
                plant("bitflip", rel, flip, {"file_kind": fk, "offset": o})
            for ln in sorted({0, 1, n // 2, n - 1} - {n}):
                if 0 <= ln < n:
                    plant("truncate", rel, lambda p, ln=ln: p.write_bytes(p.read_bytes()[:ln]), {"file_kind": fk, "length": ln})
            plant("extend", rel, lambda p: p.write_bytes(p.read_bytes() + b"\x00"), {"file_kind": fk})
            if n:
                # a byte replaced by an arbitrary other value, a byte inserted / removed in the middle
                o = rng.randrange(n); nv = (data[o] + rng.randrange(1, 256)) % 256
                plant("substitute", rel, lambda p, o=o, nv=nv: p.write_bytes(data[:o] + bytes([nv]) + data[o + 1:]), {"file_kind": fk, "offset": o})
                o2 = rng.randrange(n)
                plant("insert-byte", rel, lambda p, o2=o2: p.write_bytes(data[:o2] + bytes([rng.randrange(256)]) + data[o2:]), {"file_kind": fk, "offset": o2})
                plant("delete-byte", rel, lambda p, o2=o2: p.write_bytes(data[:o2] + data[o2 + 1:]), {"file_kind": fk, "offset": o2})
            # line terminators only: LF -> CR (same length), CR inserted before an LF, LF -> CRLF everywhere
            lfs = [i for i, b in enumerate(data) if b == 0x0A]
            if lfs:
                o3 = rng.choice(lfs)
                plant("lf-to-cr", rel, lambda p, o3=o3: p.write_bytes(data[:o3] + b"\r" + data[o3 + 1:]), {"file_kind": fk, "offset": o3})
                plant("insert-cr", rel, lambda p, o3=o3: p.write_bytes(data[:o3] + b"\r" + data[o3:]), {"file_kind": fk, "offset": o3})
                plant("all-crlf", rel, lambda p: p.write_bytes(data.replace(b"\n", b"\r\n")), {"file_kind": fk})
            plant("delete", rel, lambda p: p.unlink(), {"file_kind": fk})
            sibs = [r for r, k in files if k == fk and r != rel and (root / r).read_bytes() != data]
            if sibs:
                sib = rng.choice(sibs)
                plant("swap", rel, lambda p, sib=sib: p.write_bytes((root / sib).read_bytes()), {"file_kind": fk, "with": sib})
        # roll back a list file to an older committed version of itself
        for rel, old in (a.get("_old_lists") or {}).items():
            if (root / rel).exists() and (root / rel).read_bytes() != old:
                plant("rollback", rel, lambda p, old=old: p.write_bytes(old), {"file_kind": "list"})
        # description file with expected checksums supplied
        cp = Path(str(root) + "_fault"); shutil.copytree(root, cp)
        p = cp / "dataset_info.json"
        b = bytearray(p.read_bytes()); i = b.find(b'"description"'); b[i + 17] ^= 1; p.write_bytes(bytes(b))
        res["faults"].append({"file": "dataset_info.json", "fkind": "bitflip-root", "verdict": verdict(cp, root_ck), "file_kind": "root"})
        shutil.rmtree(cp)
        # in-place modification with size and mtime preserved, in the process that hashed the file before
        shard_files = [r for r, k in files if k == "shard"]
        if shard_files:
            rel = rng.choice(shard_files); p = root / rel
            st = p.stat(); orig = p.read_bytes()
            verdict(root)
            b = bytearray(orig); b[len(b) // 2] ^= 0x10; p.write_bytes(bytes(b)); os.utime(p, ns=(st.st_atime_ns, st.st_mtime_ns))
            res["faults"].append({"file": rel, "fkind": "bitflip-inplace-mtime-kept", "verdict": verdict(root), "file_kind": "shard"})
            p.write_bytes(orig); os.utime(p, ns=(st.st_atime_ns, st.st_mtime_ns))
        # … and through one long-lived handle that has already verified the dataset successfully
        for kind_ in ("shard", "list"):
            cands = [r for r, k in files if k == kind_]
            if not cands: continue
            rel = rng.choice(cands); p = root / rel
            st = p.stat(); orig = p.read_bytes()
            try:
                h = Dataset(root); h.check(show_progressbar=False)
                b = bytearray(orig); b[len(b) // 2] ^= 0x04; p.write_bytes(bytes(b)); os.utime(p, ns=(st.st_atime_ns, st.st_mtime_ns))
                try:
                    h.check(show_progressbar=False); v = "pass"
                except Exception as e:  # noqa: BLE001
                    v = f"{type(e).__name__}"
            except Exception as e:  # noqa: BLE001
                v = f"setup-failed:{type(e).__name__}: {str(e)[:80]}"
            finally:
                p.write_bytes(orig); os.utime(p, ns=(st.st_atime_ns, st.st_mtime_ns))
            res["faults"].append({"file": rel, "fkind": "bitflip-inplace-same-handle", "verdict": v, "file_kind": kind_})
        # … and a handle whose previous check *failed* (a later list was damaged), the damage repaired, then an earlier list —
        # one the failed check had already verified — is altered: the next check on the same handle must fail again
        lists = [r for r, k in files if k == "list"]
        if len(lists) >= 2:
            l1, l2 = root / lists[0], root / lists[-1]
            o1, o2 = l1.read_bytes(), l2.read_bytes()
            try:
                h = Dataset(root)
                l2.write_bytes(o2.replace(b"{", b"{ ", 1))
                try:
                    h.check(show_progressbar=False); first = "pass"
                except Exception:  # noqa: BLE001
                    first = "fail"
                l2.write_bytes(o2)
                l1.write_bytes(o1.replace(b"{", b"{ ", 1))
                try:
                    h.check(show_progressbar=False); v = "pass"
                except Exception as e:  # noqa: BLE001
                    v = f"{type(e).__name__}"
                if first == "pass":
                    v = "pass"            # (the first damage itself went unnoticed)
            except Exception as e:  # noqa: BLE001
                v = f"setup-failed:{type(e).__name__}: {str(e)[:80]}"
            finally:
                l1.write_bytes(o1); l2.write_bytes(o2)
            res["faults"].append({"file": lists[0], "fkind": "altered-after-failed-check-same-handle", "verdict": v, "file_kind": "list", "with": lists[-1]})
        out.append(res)
        shutil.rmtree(root, ignore_errors=True)
    return out


def run_hist(root, a):
    """history with an intermediate snapshot of the list files (for roll-back faults)"""
    import sedpack.io.dataset_writing  # noqa
    orig_mk = sp.mk
    def mk(path, **kw):
        kw["hashes"] = a["hashes"]; return orig_mk(path, **kw)
    sp.mk = mk
    try:
        recs, create = T.run_history(root, a["fmt"], a["eps"], a["hist"][:-1] if len(a["hist"]) > 1 else a["hist"])
        old = {str(p.relative_to(root)): p.read_bytes() for p in root.rglob("shards_list.json")}
        if len(a["hist"]) > 1:
            # continue with the last session on the same directory
            from sedpack.io import Dataset
            from sedpack.io.dataset_filler import DatasetFiller
            se = a["hist"][-1]
            ds = Dataset(root)
            if se["kind"] == "filler":
                with DatasetFiller(ds, relative_path_from_split=Path(se["sub"])) as f:
                    v = 10 ** 6
                    for s, n, *_rej in se["writes"]:
                        for _ in range(n):
                            f.write_example(values=sp.val(v), split=T.SPLITS[s]); v += 1
                snap = T.snapshot(root)
                recs.append({"error": None, "closed": [], "session": se})
            a["_old_lists"] = old
    finally:
        sp.mk = orig_mk
    return recs, None


def pending_infos(a):
    """(child) manual two-phase writing, every step of which completes successfully: a directory that is already committed is
    extended by a filler with `auto_update_dataset=False` (its infos are held back), a session into a sibling directory is committed,
    then the held-back infos are committed.  `check()` after every commit."""
    sp.sedpack()
    from sedpack.io import Dataset
    from sedpack.io.dataset_filler import DatasetFiller
    out = []
    root = Path(a["root"]); shutil.rmtree(root, ignore_errors=True)
    ds = sp.mk(root, fmt=a["fmt"], eps=2, hashes=tuple(a["hashes"]))
    v = 0
    def fill(sub, n, auto=True):
        nonlocal v
        filler = DatasetFiller(ds, relative_path_from_split=Path(sub), auto_update_dataset=auto)
        with filler as f:
            for _ in range(n):
                f.write_example(values=sp.val(v), split="train"); v += 1
        return filler
    def chk(step):
        for who, d in (("same handle", ds), ("reopened", None)):
            try:
                (d or Dataset(root)).check(show_progressbar=False); out.append({"step": step, "who": who, "check": "pass"})
            except Exception as e:  # noqa: BLE001
                out.append({"step": step, "who": who, "check": f"{type(e).__name__}: {str(e)[:160]}"})
    try:
        fill("part_a", 3); chk("part_a committed")
        held = fill("part_a", 3, auto=False)                  # rewrites train/part_a/shards_list.json; nothing committed yet
        fill("part_b", 2); chk("sibling part_b committed while part_a's infos are held back")
        ds.write_config(updated_infos=held.get_updated_infos()); chk("held-back infos committed")
        got = sorted(sp.read_ids(Dataset(root), "train"))
        out.append({"step": "read", "ok": got == list(range(v)), "got": got})
    except Exception as e:  # noqa: BLE001
        out.append({"step": "error", "error": f"{type(e).__name__}: {str(e)[:200]}"})
    shutil.rmtree(root, ignore_errors=True)
    return out


def threaded_fillers(a):
    """(child) four threads of one process, each writing through its own filler (own sub-directory, infos held back) with shards closing
    at overlapping times; one commit at the end — a successful writing history: check() passes."""
    import threading
    sp.sedpack()
    from sedpack.io import Dataset, Attribute
    from sedpack.io.dataset_filler import DatasetFiller
    root = Path(a["root"]); shutil.rmtree(root, ignore_errors=True)
    ds = sp.mk(root, fmt=a["fmt"], eps=2, hashes=tuple(a["hashes"]), attrs=[Attribute(name="a", dtype="int32", shape=(2,)), Attribute(name="m", dtype="uint8", shape=(300000,))])
    fillers, errs = [], []
    gate = threading.Barrier(4)
    def tfill(k):
        try:
            fl = DatasetFiller(ds, relative_path_from_split=Path(f"t{k}"), auto_update_dataset=False)
            fillers.append(fl)
            gate.wait(timeout=30)
            with fl as f:
                for v in range(a["n"]):
                    f.write_example(values={"a": sp.np.array([1000 * k + v] * 2, dtype=sp.np.int32), "m": sp.np.full((300000,), (7 * k + v) % 251, dtype=sp.np.uint8)}, split="train")
        except Exception as e:  # noqa: BLE001
            errs.append(f"{type(e).__name__}: {str(e)[:120]}")
    ths = [threading.Thread(target=tfill, args=(k,)) for k in range(4)]
    for t in ths: t.start()
    for t in ths: t.join(300)
    res = {"errors": errs[:3]}
    if not errs:
        ds.write_config(updated_infos=[i for fl in fillers for i in fl.get_updated_infos()])
        for who, d in (("same handle", ds), ("reopened", Dataset(root))):
            try:
                d.check(show_progressbar=False); res[who] = "pass"
            except Exception as e:  # noqa: BLE001
                res[who] = f"{type(e).__name__}: {str(e)[:160]}"
    shutil.rmtree(root, ignore_errors=True)
    return res


def run(ctx):
    rng = ctx.rng("c05")
    cases = []
    for i in range(ctx.pick(4, 14)):
        eps = rng.choice([1, 2, 3])
        k = rng.choice([1, 1, 2, 3, 13])
        hashes = rng.sample(ALGOS, k) if k < 13 else list(ALGOS)
        hist = T.gen_history(rng, rng.choice([1, 2, 3]), eps)
        hist = [h for h in hist if h["kind"] == "filler"] or [{"kind": "filler", "sub": "a/y", "writes": [[0, eps + 1]], "reopen": False}]
        hist.append({"kind": "filler", "sub": hist[0]["sub"], "writes": [[hist[0]["writes"][0][0], eps + 1]], "reopen": True})
        cases.append({"root": str(ctx.scratch / f"c05_{i}"), "fmt": ["fb", "npz", "tfrec"][i % 3], "eps": eps, "hashes": hashes, "hist": hist,
                      "seed": rng.randrange(1 << 30), "all_files": ctx.thorough, "nfiles": 4, "every_byte": ctx.thorough and i < 3})
    # a wide tree: one list with 70 (thorough: 150) child lists — one multi-writer call —, faults planted on some of the child lists
    nw = ctx.pick(70, 150)
    cases.append({"root": str(ctx.scratch / "c05_wide"), "fmt": ["fb", "npz"][ctx.seed % 2], "eps": 2, "hashes": ["sha256"],
                  "hist": [{"kind": "multi", "writers": [[[0, 1]] for _ in range(nw)], "reopen": False}, {"kind": "filler", "sub": ".", "writes": [[0, 3]], "reopen": True}],
                  "seed": rng.randrange(1 << 30), "all_files": False, "nfiles": 5, "every_byte": False, "pick_kind": "list"})
    results = []
    for i in range(0, len(cases), 4):
        results += child.call("harness.checks.c05", "run_cases", cases[i:i + 4], timeout=2400)
    nf, kinds, missed = 0, collections.Counter(), 0
    for r in results:
        if r["session_errors"]:
            ctx.report({"kind": "session-error"}, f"history failed: {r['session_errors'][0]}", {"case": r["case"]}); continue
        if r["baseline"] != "pass" or r["baseline_root"] != "pass":
            ctx.report({"kind": "false-alarm"}, f"check fails on an untouched committed dataset: {r['baseline']} / {r['baseline_root']}", {"case": r["case"]}); continue
        for f in r["faults"]:
            nf += 1; kinds[(f["fkind"], f["file_kind"])] += 1
            if f["verdict"] == "pass":
                missed += 1
                ctx.report({"kind": "missed", "fault": f["fkind"], "file_kind": f["file_kind"]},
                           f"check() passes although {f['file']} was modified ({f['fkind']} {({k: v for k, v in f.items() if k in ('offset', 'length', 'with')})})",
                           {"case": r["case"], "fault": f})
    # ---- held-back infos (manual two-phase commit): the check passes after every successful step
    for j, hs in enumerate([["sha256"], ["xxh64", "md5"]][: ctx.pick(1, 2)]):
        pa = {"root": str(ctx.scratch / f"c05_pending{j}"), "fmt": ["fb", "npz"][(j + ctx.seed) % 2], "hashes": hs}
        for st in child.call("harness.checks.c05", "pending_infos", pa, timeout=600):
            if st.get("check", "pass") != "pass" or st.get("error") or st.get("ok") is False:
                ctx.report({"kind": "false-alarm", "history": "held-back-infos"},
                           f"check() after a successful writing step ({st['step']}, {st.get('who', '')}): {st.get('check') or st.get('error') or st.get('got')}", {"case": pa, "step": st})
                break
    # ---- threads of one process with a filler each: a successful history, the check passes
    ta = {"root": str(ctx.scratch / "c05_threads"), "fmt": ["npz", "fb"][ctx.seed % 2], "hashes": ["sha256"], "n": ctx.pick(12, 40)}
    tr = child.call("harness.checks.c05", "threaded_fillers", ta, timeout=900)
    if tr["errors"] or tr.get("same handle") != "pass" or tr.get("reopened") != "pass":
        ctx.report({"kind": "false-alarm", "history": "threaded-fillers"}, f"check() after four threads wrote through a filler each and their infos were committed together: {tr}", {"case": ta, "result": tr})
    # model verdicts for a sample of the faults (the model says fail for every reachable file, pass without fault)
    reqs = [{"m": "check", "fuel": 8, "sessions": [[[[0, 10], [[1, 2], [2, 1]]], [[0, 11], [[3, 2]]]]], "fault": {"kind": "none"}},
            {"m": "check", "fuel": 8, "sessions": [[[[0, 10], [[1, 2], [2, 1]]], [[0, 11], [[3, 2]]]]], "fault": {"kind": "list", "dir": [0, 11], "how": "alter"}},
            {"m": "check", "fuel": 8, "sessions": [[[[0, 10], [[1, 2], [2, 1]]], [[0, 11], [[3, 2]]]]], "fault": {"kind": "shard", "dir": [0, 10], "file": 2, "how": "swap", "with": 1}}]
    reps = lean.driver(reqs)
    if [x.get("ok") for x in reps] != [True, False, False]:
        raise RuntimeError(f"model check verdicts {reps}")
    ctx.cov.update({
        "evaluations": nf + 2 * len(results), "distinct_nontrivial": len(kinds), "traces_validated_against_impl": nf,
        "rule": "committed datasets (flat and nested shard-list trees after 2-4 sessions, and one list with 70 / 150 child lists, 1/2/3/13 checksum algorithms, fb/npz/tfrec); on copies: bit flips at "
                "first/last/random offsets (every byte of files < 2 KiB in thorough), truncation to {0,1,n/2,n-1}, extension, deletion, swap with a sibling, "
                "roll-back of list files to their previous committed version, description bit flip with expected checksums, and an in-place flip with "
                "size and mtime preserved after a passing check in the same process; distinct = (fault kind, file kind)",
        "samples": [results[0]["faults"][:3]] if results else [],
        "input_distribution": {"faults": nf, "by_kind": {f"{a}/{b}": c for (a, b), c in kinds.items()}, "missed": missed,
                               "datasets": len(results), "files_per_dataset": [r.get("n_files") for r in results]},
    })
