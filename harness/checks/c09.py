"""C09 — parallel writers do not interfere.  Lean: SedpackProps/C09.lean (every interleaving of
writers with disjoint directories equals their sequential run; writer footprints).
The real `write_multiprocessing` runs with real worker processes (seeded per-writer delays) under
`strace -f`; the result is compared with the single-process run of the same writers, with M-TREE,
with the recount oracle, and the set of paths written by each process is checked for overlap."""
from __future__ import annotations
import collections, json, re, shutil, subprocess
from pathlib import Path
from harness.core import lean, sp
from harness.core.ctx import PY, VERIF
from harness.checks import tree_common as T

ASSUMPTIONS = ["multiprocessing.Pool.imap returns results in argument order (specified external)", "uuid4 directory names are distinct"]
TRUSTED = ["modelled-not-verified: multiprocessing.Pool, pickling of the fillers; strace's view of the file system calls"]


def run_one(ctx, a, name, use_strace):
    arg = ctx.scratch / f"{name}.arg.json"; out = ctx.scratch / f"{name}.out.json"; st = ctx.scratch / f"{name}.strace"
    arg.write_text(json.dumps(a))
    cmd = [PY, str(VERIF / "harness" / "checks" / "c09_worker.py"), str(arg), str(out)]
    if use_strace and shutil.which("strace"):
        cmd = ["strace", "-f", "-qq", "-e", "trace=openat,open,creat,rename,renameat,renameat2,mkdir,mkdirat,unlink,unlinkat", "-o", str(st)] + cmd
    p = subprocess.run(cmd, capture_output=True, text=True, timeout=900,
                       env={**__import__("os").environ, "TF_CPP_MIN_LOG_LEVEL": "3", "CUDA_VISIBLE_DEVICES": ""})
    res = json.loads(out.read_text()) if out.exists() else {"error": f"worker rc={p.returncode}: {p.stderr[-500:]}"}
    writes = collections.defaultdict(set)
    if st.exists():
        root = a["root"]
        for line in st.read_text(errors="replace").split("\n"):
            m = re.match(r"^(\d+)\s+(\w+)\((.*)$", line)
            if not m or "= -1" in line:
                continue
            pid, call, rest = m.group(1), m.group(2), m.group(3)
            paths = re.findall(r'"([^"]*)"', rest)
            if call in ("mkdir", "mkdirat"):
                continue        # creating (shared) parent directories with exist_ok is not a file write
            if call in ("openat", "open", "creat"):
                if not re.search(r"O_WRONLY|O_RDWR|O_CREAT", rest) and call != "creat":
                    continue
                cand = paths[:1]
            else:
                cand = paths
            for q in cand:
                if q.startswith(root + "/"):
                    writes[pid].add(q[len(root) + 1:])
        st.unlink()
    return res, {k: sorted(v) for k, v in writes.items()}


def run(ctx):
    sp.sedpack()
    from sedpack.io import Dataset
    rng = ctx.rng("c09")
    cases = []
    for i in range(ctx.pick(4, 16)):
        eps = rng.choice([1, 2, 3])
        k = rng.choice([1, 2, 3, 4])
        plans, nxt = [], 0
        for w in range(k):
            plan = []
            for _ in range(rng.choice([1, 1, 2])):
                n = rng.choice([0, 1, eps, eps + 1, 2 * eps, 2 * eps + 1])
                plan.append([rng.randrange(3), list(range(nxt, nxt + n)), rng.random() < 0.3]); nxt += n
            plans.append(plan)
        if not any(x[1] for p in plans for x in p):
            plans[0][0][1] = [nxt, nxt + 1]; nxt += 2
        delays = [rng.choice([0, 0, 0.002, 0.01]) for _ in range(k)]
        c = {"fmt": ["fb", "npz", "tfrec"][i % 3], "eps": eps, "plans": plans, "delays": delays}
        if i % 2 == 1:
            # a second call into the same dataset: its splits already hold the first call's writer directories
            k2 = rng.choice([1, 2, 3]); plans2 = []
            for w in range(k2):
                n = rng.choice([1, eps, eps + 1, 2 * eps + 1])
                plans2.append([[rng.randrange(3), list(range(nxt, nxt + n))]]); nxt += n
            c.update({"plans2": plans2, "delays2": [rng.choice([0, 0.002]) for _ in range(k2)], "reopen": rng.random() < 0.5})
        c["other_first"] = i % 3 == 0
        c["fail_first"] = i % 3 == 1
        cases.append(c)
    # more writers than CPU cores (every writer must still run, in its own process slot or queued)
    import os
    kbig = (os.cpu_count() or 4) + 2
    cases.append({"fmt": "fb", "eps": 2, "plans": [[[w % 2, [1000 + 2 * w, 1001 + 2 * w] if w % 5 else [1000 + 2 * w]]] for w in range(kbig)],
                  "delays": [0] * kbig})
    # one worker process comes up well before the others and is back at the task queue first: it runs several small writers in turn
    cases.append({"fmt": ["npz", "fb", "tfrec"][ctx.seed % 3], "eps": 2, "plans": [[[0, [2000, 2001, 2002]], [1, [2003]]], [[0, [2010]]], [[1, []]], [[0, [2020, 2021]], [2, [2022]]]],
                  "delays": [0, 0, 0, 0], "early_worker": True})
    nok, reqs, meta, distinct = 0, [], [], set()
    for i, c in enumerate(cases):
        rootp = ctx.scratch / f"c09p_{i}"; roots = ctx.scratch / f"c09s_{i}"
        resp, writes = run_one(ctx, dict(c, root=str(rootp), single=False), f"p{i}", True)
        ress, _ = run_one(ctx, dict(c, root=str(roots), single=True), f"s{i}", False)
        sig = {"writers": len(c["plans"]) > 1}
        if "error" in resp or "error" in ress:
            ctx.report(dict(sig, kind="call-error"), f"write_multiprocessing failed: parallel={resp.get('error')} single={ress.get('error')}", {"case": c}); continue
        # return values in argument order
        bad_ret = False
        for plans_k, rets in ((c["plans"], resp["returns"]), (c.get("plans2"), resp.get("returns2"))):
            if plans_k is None: continue
            exp_first = [p[0][1][0] if p and p[0][1] else -1 for p in plans_k]
            if rets is None or len(rets) != len(plans_k) or [r[2] for r in rets] != exp_first or [r[1] for r in rets] != [sum(len(x[1]) for x in p) for p in plans_k]:
                ctx.report(dict(sig, kind="return-order"), f"return values {rets} are not in argument order", {"case": c}); bad_ret = True
        if bad_ret: continue
        all_plans = c["plans"] + (c.get("plans2") or [])
        all_returns = resp["returns"] + (resp.get("returns2") or [])
        # recount oracle on the parallel result + check()
        problems, per_split = T.recount(rootp)
        # "equivalent to running the same writers one after another": no list documents but those of writers that closed a shard
        # there (a writer that writes nothing into a split leaves no directory; nothing else may add one)
        for pth in sorted(rootp.rglob("shards_list.json")):
            doc = json.loads(pth.read_text())
            if not doc.get("shard_files") and not doc.get("children_shard_lists"):
                problems.append(f"{pth.relative_to(rootp)} is an empty shard list (no sequential run of these writers creates one)")
        orphans = set(resp.get("orphans") or [])
        problems = [q for q in problems if not (q.startswith("shard file ") and q.endswith(" on disk is not listed") and q[len("shard file "):-len(" on disk is not listed")] in orphans)]
        for extra in ("_other",):
            q = Path(str(rootp) + extra)
            if q.exists(): shutil.rmtree(q, ignore_errors=True)
            q = Path(str(roots) + extra)
            if q.exists(): shutil.rmtree(q, ignore_errors=True)
        try:
            Dataset(rootp).check(show_progressbar=False); chk = None
        except Exception as e:  # noqa: BLE001
            chk = f"{type(e).__name__}: {e}"
        if problems or chk:
            ctx.report(dict(sig, kind="inexact"), f"parallel run: {(problems or [chk])[0]}", {"case": c, "problems": problems[:5], "check": chk}); continue
        _, per_split_s = T.recount(roots)
        if per_split != per_split_s:
            ctx.report(dict(sig, kind="differs-from-sequential"), f"parallel run reads {per_split}, single-process run reads {per_split_s}", {"case": c}); continue
        for s in range(3):
            want = [v for p in all_plans for sp_, ids, *_r in p if sp_ == s for v in ids]
            if collections.Counter(per_split.get(s, [])) != collections.Counter(want):
                ctx.report(dict(sig, kind="multiset"), f"split {s}: read {per_split.get(s)} written {want}", {"case": c}); break
            for p in all_plans:     # each writer's examples in its own order
                mine = [v for sp_, ids, *_r in p if sp_ == s for v in ids]
                if [x for x in per_split.get(s, []) if x in set(mine)] != mine:
                    ctx.report(dict(sig, kind="writer-order"), f"split {s}: writer order {mine} not preserved in {per_split.get(s)}", {"case": c}); break
        # per-process write sets: workers pairwise disjoint, each inside one writer directory
        worker_pids = {str(r[0]) for r in all_returns} - {str(resp["pid"])}
        wsets = {pid: set(w) for pid, w in writes.items() if pid in worker_pids}
        for pa in wsets:
            for pb in wsets:
                if pa < pb and wsets[pa] & wsets[pb]:
                    ctx.report(dict(sig, kind="shared-file"), f"worker processes {pa} and {pb} both wrote {sorted(wsets[pa] & wsets[pb])[:3]}", {"case": c})
        by_pid_first = {str(r[0]): idx for idx, r in reversed(list(enumerate(all_returns)))}
        for pid, w in wsets.items():
            off = 2 if (c.get("other_first") or c.get("fail_first")) else 0          # (the earlier call of the same process used up two writer names)
            own = {f"w{j + 1 + off:08d}" + "0" * 23 for j, r in enumerate(all_returns) if str(r[0]) == pid}
            for path in w:
                parts = Path(path).parts
                if len(parts) < 2 or parts[1] not in own:
                    ctx.report(dict(sig, kind="outside-own-dir"), f"worker {pid} wrote {path} outside its own directories {sorted(own)}", {"case": c}); break
        # correspondence with M-TREE: one session made of all writers' closed shards
        if not c.get("plans2"):
            snap = T.snapshot(rootp)
            odirs = {tuple(T.dir_code(Path(q).parent)) for q in orphans}          # what the failed earlier call left behind is not part of the dataset
            snap = {d: l for d, l in snap.items() if tuple(d) not in odirs}
            closed = [(list(d), l["files"]) for d, l in snap.items() if l["files"]]
            rec = {"closed": closed, "snap": {json.dumps(list(k)): v for k, v in snap.items()}}
            req, ids, dirs = T.model_request([rec], 0)
            reqs.append(req); meta.append((c, rec, ids, dirs))
        distinct.add((c["fmt"], len(c["plans"]), len(worker_pids), sum(1 for d in c["delays"] if d) > 0))
        nok += 1
        shutil.rmtree(rootp, ignore_errors=True); shutil.rmtree(roots, ignore_errors=True)
    reps = lean.driver(reqs) if reqs else []
    corr_bad = []
    for (c, rec, ids, dirs), rep in zip(meta, reps):
        diffs = T.compare_with_model(rec, rep, ids, dirs)
        # children order inside a split list follows argument order in the model; accept the real order only if equal
        if diffs:
            corr_bad.append({"case": c, "diffs": diffs[:3]})
    if corr_bad and not ctx.violations and not ctx.known_hits:
        ctx.report({"kind": "correspondence"}, "M-TREE does not predict the result of the multi-writer call: " + corr_bad[0]["diffs"][0][:200],
                   {"correspondence": "M-TREE session vs real write_multiprocessing (real processes)", "theorem": "Sedpack.Tree.C09_multiwriter_eq_sequential",
                    "cases": corr_bad[:2]}, name="corr", nofail=True)
    ctx.cov.update({
        "evaluations": len(cases), "distinct_nontrivial": len(distinct), "traces_validated_against_impl": nok - len(corr_bad),
        "rule": "multi-writer calls with 1-4 writers, uneven loads (0..2*eps+1 per split), several splits per writer, idle writers, seeded per-writer delays, "
                "real worker processes under strace -f; compared with the single_process run, the recount oracle, check(), M-TREE; per-process write sets must be "
                "pairwise disjoint and inside the writer's own uuid directory; distinct = (format, #writers, #worker processes, delays?)",
        "samples": cases[:2],
        "input_distribution": {"writers": collections.Counter(len(c["plans"]) for c in cases), "strace": bool(shutil.which("strace"))},
    })
