"""Shared engine for C10 / C11 / C18: run generated write sequences on the real filler, replay the
same sequence through M-FILL (Lean driver), compare what a reader sees, and evaluate the
model-independent oracles of the three properties."""
from __future__ import annotations
import copy, json, shutil, traceback
from pathlib import Path
from harness.core import lean, sp

SPLITS = ["train", "test", "holdout"]
FORMATS = ["fb", "npz", "tfrec"]
BAD_KINDS = ["shape", "rank", "scalar", "dtype_unsafe", "missing", "container", "extra", "foreign", "float_integral", "uint64_small", "bytearray"]


def md_value(code: int, style: int = 0):
    """The JSON value standing for metadata code `code` (0 = falsy).  The shape of the value is a
    function of the code alone, so equal codes are equal values.  Every non-empty value carries the
    code at the top level *and* inside nested containers (so that sharing of nested parts shows)."""
    if code == 0:
        return None if style % 2 == 0 else {}
    v = {"k": code, "n": {"l": [code, str(code)]}}
    if code % 2 == 0:
        v["z"] = [1.5, None, True, {"deep": [code]}]
    if code % 3 == 0:
        # values that JSON does not hand back unchanged (a tuple becomes a list): equal by value on every
        # call, so they must not look like a metadata change to the writer
        v["t"] = (code, 128)
        v["w"] = {"window": (0, code), "ratio": code / 8}
    return v


def md_canon(value):
    """Metadata as JSON hands it back (what is recorded on disk): tuples are lists."""
    import json
    return json.loads(json.dumps(value)) if value is not None else None


def md_mutate(d: dict, code: int, nested: bool):
    """Change the caller's object in place to the value of `code`: either by replacing the
    top-level items, or (nested=True) by editing the nested containers it already has."""
    if code == 0 or not d or not nested:
        d.clear()
        d.update(md_value(code) or {})
        return
    new = md_value(code)
    d["k"] = code
    d["n"]["l"][0] = code
    d["n"]["l"][1] = str(code)
    if "z" in new and "z" in d:
        d["z"][3]["deep"][0] = code
    elif "z" in new:
        d["z"] = new["z"]
    else:
        d.pop("z", None)
    for key in ("t", "w"):
        if key in new:
            d[key] = new[key]
        else:
            d.pop(key, None)


def md_code(value) -> int:
    if not value:
        return 0
    k = value.get("k")
    return int(k)


def gen_session(rng, eps: int, *, n_ops: int, splits: int, md_mode: str, bad_rate: float, mutate: bool):
    """A session = list of ops.  ('w', split, obj|None, kind, ex) | ('mut', obj, code)."""
    ops = []
    objs = list(range(rng.choice([1, 2, 3])))
    for _ in range(n_ops):
        if mutate and objs and rng.random() < 0.15:
            ops.append(["mut", rng.choice(objs), rng.choice([0, 1, 2, 3, 4]), rng.random() < 0.6])
            continue
        s = rng.randrange(splits)
        if md_mode == "none":
            o = None
        elif md_mode == "const":
            o = rng.choice([None, 0])
        else:
            o = rng.choice([None] + objs)
        kind = rng.choice(BAD_KINDS) if rng.random() < bad_rate else "ok"
        ops.append(["w", s, o, kind, None])
    return ops


def values_for(ex: int, kind: str, attrs):
    """Values of one example; `kind` decides which defect (if any) the *last wrong-able* attribute has."""
    np = sp.np
    vals = {}
    for name, dtype, shape in attrs:
        if name == "a":
            vals[name] = np.array([ex, ex], dtype=np.int32)
        else:
            vals[name] = np.full(shape, ex % 100, dtype=dtype)
    if kind == "ok":
        return vals
    target = attrs[ex % len(attrs)][0]          # which attribute is wrong varies with the id
    shape = dict((n, s) for n, _, s in attrs)[target]
    if kind == "shape":
        vals[target] = np.zeros(tuple(d + 1 for d in shape) or (2,), dtype=np.int32)
    elif kind == "rank":
        vals[target] = np.zeros(shape + (1,), dtype=np.int32)
    elif kind == "scalar":
        vals[target] = 5 if shape != () else np.zeros((2,), dtype=np.int32)
    elif kind == "dtype_unsafe":
        # (for the id carrier the integer part still is the id, should a format accept the value)
        vals[target] = np.full(shape, (ex if target == "a" else 1) + 0.5, dtype=np.float64)
    elif kind == "float_integral":
        # a float array whose elements all happen to be whole numbers (np.zeros / np.eye rows, counters kept as floats)
        vals[target] = np.full(shape, float(ex if target == "a" else ex % 100), dtype=np.float64)
    elif kind == "uint64_small":
        vals[target] = np.full(shape, ex if target == "a" else ex % 100, dtype=np.uint64)
    elif kind == "bytearray":
        # numpy reads a bytearray as a uint8 vector: a rank violation for every fixed-size attribute
        vals[target] = bytearray(b"ab" if shape != (2,) else b"abc")
    elif kind == "missing":
        del vals[target]
    elif kind == "container":
        vals[target] = [1, 2, 3, 4, 5]
    elif kind == "extra":
        vals["zz_undeclared"] = np.zeros((1,), dtype=np.int32)
    elif kind == "foreign":
        # a value of a foreign type in the declared shape (text where a number is declared)
        scal = [n for n, _, s in attrs if s == () and n != "a"]
        if scal:
            vals[scal[0]] = "text"
        else:
            vals[target] = np.full(shape, "t", dtype="U1") if target != "a" else np.array([str(ex), str(ex)])
    return vals


def classify(exc: BaseException) -> str:
    names = [fr.name for fr in traceback.extract_tb(exc.__traceback__)]
    if "close_shard" in names:
        return "closeFailed"
    return "rejected"


def decode_shard(ds, path: Path):
    from sedpack.io.flatbuffer import IterateShardFlatBuffer
    from sedpack.io.npz import IterateShardNP
    from sedpack.io.tfrec import IterateShardTFRec
    st = ds.dataset_structure
    it = {"fb": IterateShardFlatBuffer, "npz": IterateShardNP, "tfrec": IterateShardTFRec}[st.shard_file_type](
        dataset_structure=st, process_record=None)
    return [sp.ident(e) for e in it.iterate_shard(path)]


def reordered(v):
    """An equal value whose dictionaries were filled in the opposite key order (at every depth)."""
    if isinstance(v, dict):
        return {k: reordered(x) for k, x in reversed(list(v.items()))}
    if isinstance(v, list):
        return [reordered(x) for x in v]
    return v


def run_impl(root: Path, fmt: str, eps: int, sessions, attrs, reopen: bool, md_shift: int = 0, select: bool = False, hashes=None):
    """Execute on the real API. Returns per-write records and the final per-split listing."""
    from sedpack.io import Dataset, Attribute
    A = [Attribute(name=n, dtype=d, shape=s) for n, d, s in attrs]
    ds = sp.mk(root, fmt=fmt, eps=eps, attrs=A, hashes=hashes)      # (hashes=None: varied with the location, see sp.mk)
    records, ex = [], 0
    session_errors = []
    for si, ops in enumerate(sessions):
        if reopen and si > 0:
            ds = Dataset(root)
        objs: dict[int, dict] = {}
        styles: dict[int, int] = {}
        recs = []
        try:
            with ds.filler() as f:
                for op in ops:
                    if op[0] == "mut":
                        o, code = op[1], op[2]
                        d = objs.setdefault(o, {}); styles.setdefault(o, o)
                        md_mutate(d, code, nested=(len(op) > 3 and bool(op[3])))
                        continue
                    _, s, o, kind, _ = op
                    ex += 1
                    op[4] = ex
                    if o is None:
                        arg = None
                    else:
                        if o not in objs:
                            styles[o] = o
                            objs[o] = dict(md_value(o + 1 + md_shift))
                        arg = objs[o]
                        if ex % 2 == 1 and not any(x[0] == "mut" for x in ops):
                            # the same value built along another code path: equal, but with another key insertion order
                            arg = reordered(arg)
                    snap = copy.deepcopy(arg)
                    rec = {"split": s, "ex": ex, "kind": kind, "md": md_code(snap), "md_value": snap}
                    try:
                        f.write_example(values=values_for(ex, kind, attrs), split=SPLITS[s], custom_metadata=arg)
                        rec["out"] = "ok"
                    except Exception as e:  # noqa: BLE001
                        rec["out"] = classify(e)
                        rec["exc"] = f"{type(e).__name__}: {str(e)[:120]}"
                    recs.append(rec)
        except Exception as e:  # noqa: BLE001  (raised by __exit__)
            session_errors.append(f"session {si}: {type(e).__name__}: {str(e)[:160]}")
        records.append(recs)
    # what a fresh reader sees
    listing, read_err = {}, None
    try:
        d2 = Dataset(root)
        for s, name in enumerate(SPLITS):
            if name not in d2._dataset_info.splits:
                listing[s] = []
                continue
            shards = []
            for info in d2.shard_info_iterator(name):
                p = d2.path / info.file_infos[0].file_path
                try:
                    ids = decode_shard(d2, p)
                except Exception as e:  # noqa: BLE001
                    ids = f"UNDECODABLE {type(e).__name__}: {str(e)[:100]}"
                shards.append({"md": info.custom_metadata, "n": info.number_of_examples, "ids": ids})
            listing[s] = shards
        on_disk = sorted(str(p.relative_to(d2.path)) for p in d2.path.rglob("*") if p.is_file()
                         and p.suffix in (".fb", ".npz", ".tfrec"))
        named = sorted(str(i.file_infos[0].file_path) for name in d2._dataset_info.splits for i in d2.shard_info_iterator(name))
        listing["unlisted_files"] = [p for p in on_disk if p not in named]
        listing["missing_files"] = [p for p in named if p not in on_disk]
        listing["total"] = {s: (d2._dataset_info.splits[name].number_of_examples if name in d2._dataset_info.splits else 0)
                            for s, name in enumerate(SPLITS)}
        if select:
            listing["selections"] = select_by_metadata(d2, fmt)
    except Exception as e:  # noqa: BLE001
        read_err = f"{type(e).__name__}: {str(e)[:200]}"
    return {"records": records, "listing": listing, "session_errors": session_errors, "read_err": read_err}


def select_by_metadata(ds, fmt: str):
    """Iterate every split restricted, by `shard_filter`, to the shards labelled with one metadata value — through every
    interface that accepts the option.  Returns [{split, md, iface, got | error}]."""
    import asyncio
    out = []
    ifaces = ["sync", "concurrent", "tf"] + (["async"] if fmt in ("fb", "npz") else [])
    class Stateful:
        """ONE selector object for the whole process; which metadata it wants is changed in place between selections
        (a bound method / a callable with settings, kept by the application)"""
        def __init__(self): self.wanted = None
        def __call__(self, si): return md_code(si.custom_metadata) == self.wanted
    stateful = Stateful()
    for s, name in enumerate(SPLITS):
        if name not in ds._dataset_info.splits:
            continue
        codes = sorted({md_code(i.custom_metadata) for i in ds.shard_info_iterator(name)})
        nsh = sum(1 for _ in ds.shard_info_iterator(name))
        for code in codes:
            flt = (lambda si, code=code: md_code(si.custom_metadata) == code)
            # … alone, and combined with the other selection options set to values that select nothing away (a per-metadata
            # limit / a shard count as large as the split): the predicate must keep deciding
            class Recording:
                """a predicate object that also records what it accepted; its length (0 before the first use) makes it falsy"""
                def __init__(self, code): self.code, self.seen = code, []
                def __call__(self, si):
                    ok = md_code(si.custom_metadata) == self.code
                    if ok: self.seen.append(1)
                    return ok
                def __len__(self): return len(self.seen)
            variants = [(i, {}) for i in ifaces] + [(i + "+limit", {"custom_metadata_type_limit": nsh}) for i in ("sync", "concurrent", "tf")] \
                + [(i + "+shards", {"shards": nsh}) for i in ("sync", "concurrent")] + [(i + "+object", {"shard_filter": "RECORDING"}) for i in ("sync", "concurrent")] \
                + [(i + "+stateful", {"shard_filter": "STATEFUL"}) for i in ("sync", "concurrent", "tf")]
            for iface_name, extra in variants:
                iface = iface_name.split("+")[0]
                kw = dict(split=name, repeat=False, shuffle=0, shard_filter=flt)
                kw.update(extra)
                if kw["shard_filter"] == "RECORDING":
                    kw["shard_filter"] = Recording(code)
                elif kw["shard_filter"] == "STATEFUL":
                    stateful.wanted = code
                    kw["shard_filter"] = stateful
                try:
                    if iface == "sync": got = [sp.ident(e) for e in ds.as_numpy_iterator(**kw)]
                    elif iface == "concurrent": got = [sp.ident(e) for e in ds.as_numpy_iterator_concurrent(file_parallelism=2, **kw)]
                    elif iface == "tf": got = [sp.ident(e) for e in ds.as_tfdataset(batch_size=0, file_parallelism=2, **kw).as_numpy_iterator()]
                    else:
                        async def main():
                            return [sp.ident(e) async for e in ds.as_numpy_iterator_async(file_parallelism=2, **kw)]
                        got = asyncio.run(main())
                    out.append({"split": s, "md": code, "iface": iface_name, "got": sorted(got)})
                except Exception as e:  # noqa: BLE001
                    out.append({"split": s, "md": code, "iface": iface_name, "error": f"{type(e).__name__}: {str(e)[:120]}"})
    return out


def model_requests(eps: int, records, intended_ok):
    """One driver request per session; the verdict fed to M-FILL is the observed one, except that a
    write which failed while *closing* is fed its intended verdict (so the difference shows)."""
    reqs = []
    for recs in records:
        ops = []
        for r in recs:
            ok = (r["out"] == "ok") if r["out"] != "closeFailed" else intended_ok(r)
            ops.append([r["split"], r["md"], r["ex"], 1 if ok else 0])
        reqs.append({"m": "fill", "eps": eps, "ops": ops})
    return reqs


def expected_view(replies):
    """Concatenate the sessions' model views per split (each session appends to the loaded list)."""
    out = {0: [], 1: [], 2: []}
    for rep in replies:
        if "error" in rep:
            raise RuntimeError(rep)
        for s in range(3):
            v = rep["view"][s]
            if v is None:
                out[s] = None
            elif out[s] is not None:
                out[s] += [{"md": m, "n": n, "ids": ids} for m, n, ids in v]
    return out


def canon_listing(listing):
    return {s: [{"md": md_code(x["md"]), "n": x["n"], "ids": x["ids"]} for x in listing.get(s, [])] for s in range(3)}


# ------------------------------------------------------------------------------------------------
def must_reject(fmt: str, kind: str) -> bool | None:
    """What C18 demands: True = must be rejected, False = must be accepted, None = either."""
    if kind == "ok":
        return False
    if kind in ("shape", "rank", "scalar", "container", "missing", "bytearray"):
        return True
    if kind in ("dtype_unsafe", "foreign", "float_integral", "uint64_small"):
        return True if fmt == "fb" else None
    return None


def explore(ctx, focus: str):
    """Generate cases for `focus` in {C10, C11, C18}; return list of case dicts with impl + model results."""
    rng = ctx.rng("fill-" + focus)
    n_cases = ctx.pick({"C10": 45, "C11": 45, "C18": 60}[focus], {"C10": 150, "C11": 150, "C18": 200}[focus])
    cases = []
    for i in range(n_cases):
        fmt = FORMATS[i % 3]
        eps = rng.choice([1, 2, 3, 7] if focus == "C10" else [1, 2, 3])
        if focus == "C10":
            md_mode = rng.choice(["none", "const", "const", "vary"]); bad = rng.choice([0, 0, 0.15]); mutate = False
        elif focus == "C11":
            md_mode = "vary"; bad = rng.choice([0, 0.1]); mutate = rng.random() < 0.7
        else:
            md_mode = rng.choice(["none", "const", "vary"]); bad = rng.choice([0.25, 0.4]); mutate = False
        nsess = rng.choice([1, 1, 2, 3])
        splits = rng.choice([1, 2, 3])
        sessions = []
        for _ in range(nsess):
            base = rng.choice([0, 1, eps - 1, eps, eps + 1, 2 * eps, 2 * eps + 1, 3 * eps - 1]) * splits
            n_ops = max(0, base + rng.randrange(0, 3))
            sessions.append(gen_session(rng, eps, n_ops=min(n_ops, 40), splits=splits, md_mode=md_mode,
                                        bad_rate=bad, mutate=mutate))
        if focus == "C18" and i % 4 == 0 and sessions[0]:
            # boundary placements: bad write first of a shard / right after a full shard, with metadata
            ops = sessions[0]
            for j, op in enumerate(ops):
                if op[0] == "w" and j % (eps + 1) == 0:
                    op[3] = rng.choice(BAD_KINDS)
        attrs = [("a", "int32", (2,))]
        if focus == "C18" and rng.random() < 0.6:
            attrs = [("a", "int32", (2,)), ("b", "float32", (3,)), ("c", "uint8", ())][: rng.choice([2, 3])]
        cases.append({"fmt": fmt, "eps": eps, "sessions": sessions, "attrs": attrs, "reopen": rng.random() < 0.5,
                      "md_mode": md_mode, "mutate": mutate, "md_shift": rng.choice([0, 0, 2, 5])})
    if focus in ("C10", "C18"):
        # directed: a rejected write exactly where a *fresh* shard has just been opened for it — the first write of a split, the write
        # right after a shard filled up, the write right after a metadata change — and nothing accepted into that split afterwards;
        # with and without checksum algorithms (with none configured, closing a shard does not read the shard file back)
        k = 0
        for hs in ([], ["sha256"], ["xxh64", "md5"]):
            for fmt in FORMATS:
                bad = ["shape", "missing", "rank"][k % 3]; k += 1
                eps = 2
                directed = [
                    [[["w", 0, None, "ok", None], ["w", 0, None, "ok", None], ["w", 0, None, bad, None], ["w", 1, None, bad, None]]],
                    [[["w", 0, None, bad, None]], [["w", 0, None, "ok", None], ["w", 1, None, "ok", None], ["w", 1, 0, "ok", None], ["w", 1, 1, bad, None]]],
                ]
                for sessions in directed[: (2 if hs == [] or ctx.thorough else 1)]:
                    cases.append({"fmt": fmt, "eps": eps, "sessions": sessions, "attrs": [("a", "int32", (2,))], "reopen": False, "md_mode": "vary", "mutate": False,
                                  "md_shift": 0, "hashes": hs})
    # corpus first
    corpus = sorted((Path(__file__).resolve().parents[2] / "corpus" / focus).glob("*.json"))
    cases = [json.loads(p.read_text()) for p in corpus] + cases
    if ctx.replay:
        rp = json.loads(Path(ctx.replay).read_text())
        cases = [rp["case"]] if "case" in rp else cases
    for i, c in enumerate(cases):
        root = ctx.scratch / f"{focus}_{i}"
        c["attrs"] = [tuple(a[:2]) + (tuple(a[2]),) for a in c["attrs"]]
        c["impl"] = run_impl(root, c["fmt"], c["eps"], c["sessions"], c["attrs"], c["reopen"], c.get("md_shift", 0),
                             select=(focus == "C11" and i % 3 == 0), hashes=c.get("hashes"))
        shutil.rmtree(root, ignore_errors=True)
    reqs, idx = [], []
    for c in cases:
        r = model_requests(c["eps"], c["impl"]["records"], lambda rec: rec["kind"] == "ok")
        idx.append((len(reqs), len(reqs) + len(r))); reqs += r
    replies = lean.driver(reqs) if reqs else []
    for c, (a, b) in zip(cases, idx):
        c["model"] = expected_view(replies[a:b])
        c["model_outs"] = [rep["outs"] for rep in replies[a:b]]
        impl = c["impl"]
        c["impl_view"] = canon_listing(impl["listing"]) if not impl["read_err"] else None
        c["corr_ok"] = (c["impl_view"] == c["model"] and not impl["session_errors"] and
                        [[r["out"] for r in recs] for recs in impl["records"]] == c["model_outs"])
    return cases


def slim(c):
    """A case without bulky results, for replay files / samples."""
    return {k: c.get(k) for k in ("fmt", "eps", "sessions", "attrs", "reopen", "md_mode", "mutate", "md_shift", "hashes") if k != "hashes" or c.get("hashes") is not None}


def shape_of(c):
    recs = [r for s in c["impl"]["records"] for r in s]
    return (c["fmt"], c["eps"], len(c["sessions"]), min(len(recs), 12) // 3,
            sum(r["out"] != "ok" for r in recs) > 0, len({r["md"] for r in recs}), c["mutate"], len(c["attrs"]))


def finish(ctx, focus, cases, corr_theorem):
    bad_corr = [c for c in cases if not c["corr_ok"]]
    if bad_corr and not ctx.violations and not ctx.known_hits:
        c = bad_corr[0]
        ctx.report({"kind": "correspondence"}, "M-FILL no longer predicts what the real filler lists",
                   {"correspondence": "M-FILL view/outcomes vs real DatasetFiller", "theorem": corr_theorem,
                    "case": slim(c), "impl_view": c["impl_view"], "model_view": c["model"],
                    "impl_outs": [[r["out"] for r in recs] for recs in c["impl"]["records"]], "model_outs": c["model_outs"],
                    "errors": c["impl"]["session_errors"], "read_err": c["impl"]["read_err"]}, name="corr", nofail=True)
    shapes = {shape_of(c) for c in cases}
    recs = [r for c in cases for s in c["impl"]["records"] for r in s]
    ctx.cov.update({
        "evaluations": len(cases), "distinct_nontrivial": len({s for s in shapes if s[3] > 0}),
        "traces_validated_against_impl": sum(c["corr_ok"] for c in cases),
        "correspondence_mismatches": len(bad_corr),
        "rule": "write sequences (1-3 sessions, 1-3 splits interleaved, eps in {1,2,3,7}, counts around k*eps+-1, metadata absent/"
                "constant/alternating/mutated in place, rejected writes of 6 kinds) on fb/npz/tfrec; distinct = (format, eps, "
                "#sessions, size class, has-rejects, #metadata values, mutation, #attributes) with at least 3 writes",
        "samples": [dict(slim(c), impl_view=c["impl_view"]) for c in cases[:2]],
        "input_distribution": {
            "writes": len(recs), "by_outcome": {k: sum(r["out"] == k for r in recs) for k in ("ok", "rejected", "closeFailed")},
            "by_kind": {k: sum(r["kind"] == k for r in recs) for k in ["ok"] + BAD_KINDS},
            "by_format": {f: sum(c["fmt"] == f for c in cases) for f in FORMATS},
            "md_values": sorted({r["md"] for r in recs}),
        },
    })
