"""C08 — continued writing is append-only.  Lean: SedpackProps/C08.lean over M-TREE
(merge keeps every list's shard files and every reachable directory; sessions only append).
Oracle: after every session of a generated history the examples returned per split are exactly the
previous ones plus the newly written ones; Dataset.create on an existing dataset is refused and
leaves every file unchanged."""
from __future__ import annotations
import collections, shutil
from pathlib import Path
from harness.core import child
from harness.checks import c04

ASSUMPTIONS = c04.ASSUMPTIONS
TRUSTED = c04.TRUSTED


def nested_sessions(args):
    """(child) a filler that is still open (one example written, no shard closed yet) while another complete session —
    a sub-directory filler, then a multi-writer call — is committed on the same handle; then it is closed."""
    from pathlib import Path
    import shutil
    from harness.core import sp
    from harness.checks import tree_common as T
    sp.sedpack()
    from sedpack.io import Dataset
    from sedpack.io.dataset_filler import DatasetFiller
    out = []
    for a in args:
        root = Path(a["root"]); shutil.rmtree(root, ignore_errors=True)
        ds = sp.mk(root, fmt=a["fmt"], eps=a["eps"])
        want = []
        try:
            with ds.filler() as f0:
                for v in range(3):
                    f0.write_example(values=sp.val(v), split="train"); want.append(v)
            if a.get("existing_sub"):
                # the sub-directory the inner session will write into already exists (committed by an earlier session)
                with DatasetFiller(ds, relative_path_from_split=Path("a")) as g0:
                    for v in range(50, 50 + a["eps"] + 1):
                        g0.write_example(values=sp.val(v), split="train"); want.append(v)
            outer = ds.filler()
            octx = outer.__enter__()
            try:
                # the outer session has one example in an open shard — or (closed_first) has already closed its first shard of the
                # split, i.e. has loaded the split's list as it was then
                for v in range(100, 100 + (a["eps"] + 1 if a.get("closed_first") else 1)):
                    octx.write_example(values=sp.val(v), split="train"); want.append(v)
                with DatasetFiller(ds, relative_path_from_split=Path("a")) as g:
                    for v in range(200, 200 + a["eps"] + 1):
                        g.write_example(values=sp.val(v), split="train"); want.append(v)
                if a["multi"] and not a.get("closed_first"):
                    def feed(filler, lo):
                        with filler as f:
                            f.write_example(values=sp.val(lo), split="train")
                        return lo
                    ds.write_multiprocessing(feed_writer=feed, custom_arguments=[(300,), (301,)], single_process=True, consistency_check=False)
                    want += [300, 301]
                elif a["multi"]:
                    pass
                octx.write_example(values=sp.val(199), split="train"); want.append(199)
            finally:
                outer.__exit__(None, None, None)
            problems, per_split = T.recount(root)
            got = sp.read_ids(Dataset(root), "train")
            try:
                Dataset(root).check(show_progressbar=False)
            except Exception as e:  # noqa: BLE001
                problems = problems + [f"check() fails: {type(e).__name__}: {str(e)[:120]}"]
            out.append({"case": {k: a[k] for k in a if k != "root"}, "want": sorted(want), "got": sorted(got), "problems": problems[:4]})
        except Exception as e:  # noqa: BLE001
            out.append({"case": {k: a[k] for k in a if k != "root"}, "want": sorted(want), "error": f"{type(e).__name__}: {str(e)[:200]}"})
        shutil.rmtree(root, ignore_errors=True)
    return out


def alternating_processes(a):
    """(child) a long-lived writer process A and a second process B take turns: A writes a session, B (a fresh interpreter) writes a
    session into the same directories, A — the same process, a new Dataset handle — writes again.  After A's first closed shard of
    its last session (what a concurrent reader sees) and at the end, everything committed must be there."""
    import subprocess, sys
    from harness.core import sp
    from harness.core.ctx import PY, VERIF
    sp.sedpack()
    from sedpack.io import Dataset
    from sedpack.io.dataset_filler import DatasetFiller
    root = Path(a["root"]); shutil.rmtree(root, ignore_errors=True)
    sp.mk(root, fmt=a["fmt"], eps=2, hashes=tuple(a["hashes"]))
    want, out = [], {"case": {k: a[k] for k in a if k != "root"}, "problems": []}
    def session(lo, n, sub, probe=False):
        ds = Dataset(root)
        with DatasetFiller(ds, relative_path_from_split=Path(sub)) as f:
            for v in range(lo, lo + n):
                f.write_example(values=sp.val(v), split="train"); want.append(v)
                if probe and v == lo + 2:      # a shard of this session has been closed: what does a reader see now?
                    got = sorted(sp.read_ids(Dataset(root), "train"))
                    missing = sorted(set(want[:-3]) - set(got))
                    if missing:
                        out["problems"].append(f"while the third session is writing, a reader misses committed examples {missing[:8]}")
    try:
        session(0, 5, a["sub"])
        code = ("import sys; sys.path.insert(0, %r)\nfrom harness.core import sp\nsp.sedpack()\nfrom pathlib import Path\n"
                "from sedpack.io import Dataset\nfrom sedpack.io.dataset_filler import DatasetFiller\n"
                "ds = Dataset(%r)\nwith DatasetFiller(ds, relative_path_from_split=Path(%r)) as f:\n"
                "    for v in range(100, 106): f.write_example(values=sp.val(v), split='train')\n") % (str(VERIF), str(root), a["sub"])
        p = subprocess.run([PY, "-c", code], capture_output=True, text=True, timeout=300)
        if p.returncode != 0:
            raise RuntimeError("second process failed: " + p.stderr[-300:])
        want.extend(range(100, 106))
        session(200, 5, a["sub"], probe=True)
        got = sorted(sp.read_ids(Dataset(root), "train"))
        if got != sorted(want):
            out["problems"].append(f"after the three sessions: lost {sorted(set(want) - set(got))[:8]} extra {sorted(set(got) - set(want))[:8]}")
        try:
            Dataset(root).check(show_progressbar=False)
        except Exception as e:  # noqa: BLE001
            out["problems"].append(f"check(): {type(e).__name__}: {str(e)[:120]}")
    except Exception as e:  # noqa: BLE001
        out["problems"].append(f"{type(e).__name__}: {str(e)[:200]}")
    shutil.rmtree(root, ignore_errors=True)
    return out


def aborted_then_completed(a):
    """(child) a session whose `with` block is left by an exception (after a shard has already been rotated), then a completed
    session into the same directory.  Nothing is asserted about what the aborted session published; the completed session must
    add exactly what it wrote to what a reader saw before it started."""
    from harness.core import sp
    sp.sedpack()
    from sedpack.io import Dataset
    from sedpack.io.dataset_filler import DatasetFiller
    root = Path(a["root"]); shutil.rmtree(root, ignore_errors=True)
    ds = sp.mk(root, fmt=a["fmt"], eps=2, hashes=tuple(a["hashes"]))
    out = {"case": {k: a[k] for k in a if k != "root"}, "problems": []}
    v = [0]
    def fill(n, boom=False):
        with DatasetFiller(ds if not a["reopen"] else Dataset(root), relative_path_from_split=Path(a["sub"])) as f:
            for _ in range(n):
                f.write_example(values=sp.val(v[0]), split="train"); v[0] += 1
            if boom:
                raise RuntimeError("the caller's own code failed inside the with block")
    try:
        fill(3)
        try:
            fill(5, boom=True)
        except RuntimeError:
            pass
        before = sorted(sp.read_ids(Dataset(root), "train"))
        lo = v[0]
        fill(3)
        after = sorted(sp.read_ids(Dataset(root), "train"))
        want = sorted(before + list(range(lo, lo + 3)))
        if after != want:
            out["problems"].append(f"a completed session that wrote {list(range(lo, lo + 3))} turned the readable examples {before} into {after}")
        if not set(range(3)) <= set(after):
            out["problems"].append(f"examples of the first completed session are gone: {after}")
    except Exception as e:  # noqa: BLE001
        out["problems"].append(f"{type(e).__name__}: {str(e)[:200]}")
    shutil.rmtree(root, ignore_errors=True)
    return out


def create_during_commit(ctx, fmt, j):
    """`Dataset.create` at every instant of another handle's commit: a continued session runs in the C06 writer child, which copies the
    directory before every file-system effect and after every rename; on each copy — what a second process sees at that instant —
    `create` must be refused and change nothing."""
    import json, subprocess, sys
    from harness.core.ctx import PY, VERIF
    from harness.core import sp
    sp.sedpack()
    from sedpack.io import Dataset, Metadata
    from sedpack.io.dataset_base import DatasetBase  # noqa: F401
    root = ctx.scratch / f"c08_cdc{j}"; snaps = ctx.scratch / f"c08_cdc{j}_snaps"
    for d in (root, snaps): shutil.rmtree(d, ignore_errors=True)
    snaps.mkdir()
    ds = sp.mk(root, fmt=fmt, eps=2, hashes=("sha256",))
    with ds.filler() as f:
        for v in range(5): f.write_example(values=sp.val(v), split="train")
    arg = ctx.scratch / "c08_cdc.arg.json"; out = ctx.scratch / "c08_cdc.out.json"
    if out.exists(): out.unlink()
    arg.write_text(json.dumps({"kind": "filler", "sub": ["." , "a"][j % 2], "writes": [[0, 3], [1, 1]], "root": str(root), "snap": str(snaps), "base": 100, "uuid_base": 0}))
    subprocess.run([PY, str(VERIF / "harness" / "checks" / "c06_writer.py"), str(arg), str(out)], capture_output=True, text=True, timeout=900)
    if not out.exists():
        raise RuntimeError("c06_writer produced no result")
    log = json.loads(out.read_text())["log"]
    problems, n = [], 0
    for e in log:
        sd = snaps / f"{e['k']:05d}"
        if not sd.is_dir() or e["tag"] == "after-write":
            continue
        n += 1
        before = {str(p.relative_to(sd)): p.read_bytes() for p in sd.rglob("*") if p.is_file()}
        try:
            Dataset.create(sd, Metadata(description="intruder"), ds.dataset_structure)
            verdict = "created"
        except Exception as ex:  # noqa: BLE001
            verdict = type(ex).__name__
        after = {str(p.relative_to(sd)): p.read_bytes() for p in sd.rglob("*") if p.is_file()}
        if verdict == "created" or before != after:
            problems.append(f"at effect {e['k']} ({e['tag']} {e.get('path', e.get('dst', ''))}): create -> {verdict}, files changed: {sorted(k for k in set(before) | set(after) if before.get(k) != after.get(k))[:3]}")
    shutil.rmtree(root, ignore_errors=True); shutil.rmtree(snaps, ignore_errors=True)
    return n, problems


def manual_commit(a):
    """(child) the manual two-phase flow: several fillers with `auto_update_dataset=False` — one writing into the split directory itself,
    one into a sub-directory of the same split, one into another split — and ONE `write_config` with all their infos (in either order).
    A completed session: afterwards the dataset holds the old examples plus everything the fillers wrote, exactly once."""
    from pathlib import Path
    import shutil
    from harness.core import sp
    from harness.checks import tree_common as T
    sp.sedpack()
    from sedpack.io import Dataset
    from sedpack.io.dataset_filler import DatasetFiller
    root = Path(a["root"]); shutil.rmtree(root, ignore_errors=True)
    ds = sp.mk(root, fmt=a["fmt"], eps=2, hashes=tuple(a["hashes"]))
    want = {"train": [], "test": []}
    def fill(filler, plan):
        with filler as f:
            for split, lo, n in plan:
                for v in range(lo, lo + n):
                    f.write_example(values=sp.val(v), split=split); want[split].append(v)
        return filler
    res = {"case": {k: a[k] for k in a if k != "root"}}
    try:
        fill(ds.filler(), [("train", 0, 3)])
        d = Dataset(root) if a["reopen"] else ds
        sub = fill(DatasetFiller(d, relative_path_from_split=Path("part_a"), auto_update_dataset=False), [("train", 10, 4)])
        top = fill(DatasetFiller(d, auto_update_dataset=False), [("train", 20, 3), ("test", 30, 2)])
        deep = fill(DatasetFiller(d, relative_path_from_split=Path("part_a/inner"), auto_update_dataset=False), [("test", 40, 1)])
        groups = [sub.get_updated_infos(), top.get_updated_infos(), deep.get_updated_infos()]
        order = a["order"]
        d.write_config(updated_infos=[i for k in order for i in groups[k]])
        problems, _ = T.recount(root)
        res["problems"] = problems[:4]
        fresh = Dataset(root)
        res["got"] = {s: sorted(sp.read_ids(fresh, s)) for s in want}
        res["want"] = {s: sorted(v) for s, v in want.items()}
        res["same_handle"] = {s: sorted(sp.read_ids(d, s)) for s in want}
        res["recorded"] = {s: fresh._dataset_info.splits[s].number_of_examples if s in fresh._dataset_info.splits else None for s in want}
    except Exception as e:  # noqa: BLE001
        res["error"] = f"{type(e).__name__}: {str(e)[:200]}"
    shutil.rmtree(root, ignore_errors=True)
    return res


def locale_phase(a):
    """(child; phase `continue` runs with LC_ALL=C and UTF-8 mode off, i.e. with an ASCII default text encoding) a dataset whose lists
    hold non-ASCII shard metadata is continued by a process with another locale, into the same directories."""
    from pathlib import Path
    import shutil
    from harness.core import sp
    sp.sedpack()
    from sedpack.io import Dataset
    from sedpack.io.dataset_filler import DatasetFiller
    root = Path(a["root"])
    md = {"site": "Zürich", "note": "ünï©ødé ☃"}
    if a["phase"] == "create":
        shutil.rmtree(root, ignore_errors=True)
        ds = sp.mk(root, fmt=a["fmt"], eps=2, hashes=tuple(a["hashes"]))
        for sub, lo in ((".", 0), ("site_a", 100)):
            with DatasetFiller(ds, relative_path_from_split=Path(sub)) as f:
                for v in range(lo, lo + 5):
                    f.write_example(values=sp.val(v), split="train", custom_metadata=md)
        return {"ids": sorted(sp.read_ids(Dataset(root), "train"))}
    if a["phase"] == "continue":
        import locale
        out = {"encoding": locale.getpreferredencoding(False), "sessions": []}
        for sub, lo in ((".", 1000), ("site_a", 1100)):
            try:
                with DatasetFiller(Dataset(root), relative_path_from_split=Path(sub)) as f:
                    for v in range(lo, lo + 3):
                        f.write_example(values=sp.val(v), split="train", custom_metadata=md)
                out["sessions"].append({"sub": sub, "outcome": "completed", "new": list(range(lo, lo + 3))})
            except Exception as e:  # noqa: BLE001
                out["sessions"].append({"sub": sub, "outcome": f"refused: {type(e).__name__}: {str(e)[:100]}", "new": []})
        return out
    res = {}
    try:
        d = Dataset(root)
        res["ids"] = sorted(sp.read_ids(d, "train"))
    except Exception as e:  # noqa: BLE001  (the real code's behaviour on what the sessions left behind: reported, not a harness failure)
        res["ids"] = f"reading failed: {type(e).__name__}: {str(e)[:120]}"
    try:
        Dataset(root).check(show_progressbar=False); res["check"] = "pass"
    except Exception as e:  # noqa: BLE001
        res["check"] = f"{type(e).__name__}: {str(e)[:120]}"
    shutil.rmtree(root, ignore_errors=True)
    return res


def run(ctx):
    # ---- a further session by a process whose default text encoding differs (ASCII) into directories whose lists hold non-ASCII text:
    # completed or refused — either way nothing committed before is lost
    for j in range(ctx.pick(1, 2)):
        la = {"root": str(ctx.scratch / f"c08_locale{j}"), "fmt": ["npz", "fb", "tfrec"][(j + ctx.seed) % 3], "hashes": [["sha256"], []][j % 2]}
        before = child.call("harness.checks.c08", "locale_phase", dict(la, phase="create"), timeout=600)["ids"]
        mid = child.call("harness.checks.c08", "locale_phase", dict(la, phase="continue"), timeout=600, env={"LC_ALL": "C", "LANG": "C", "PYTHONUTF8": "0", "PYTHONCOERCECLOCALE": "0"})
        after = child.call("harness.checks.c08", "locale_phase", dict(la, phase="verify"), timeout=600)
        want = sorted(before + [v for s_ in mid["sessions"] if s_["outcome"] == "completed" for v in s_["new"]])
        if after["ids"] != want:
            ctx.report({"kind": "append-only", "other_locale": True},
                       f"sessions by a process with default text encoding {mid['encoding']} ({[s_['outcome'] for s_ in mid['sessions']]}) into directories whose lists hold non-ASCII metadata: "
                       f"the dataset now returns {after['ids']}, expected {want} (lost {sorted(set(want) - set(after['ids'] if isinstance(after['ids'], list) else []))[:8]})", {"case": la, "sessions": mid["sessions"], "before": before, "after": after})
    # ---- `create` while another handle commits: refused at every instant
    ncdc = 0
    for j in range(ctx.pick(1, 3)):
        n_, probs = create_during_commit(ctx, ["fb", "npz", "tfrec"][(j + ctx.seed) % 3], j)
        ncdc += n_
        if probs:
            ctx.report({"kind": "create", "during_commit": True}, f"Dataset.create on a directory in which another handle is committing a session: {probs[0]}", {"instants": n_, "problems": probs[:5]})
    ctx.cov["create_during_commit_instants"] = ncdc
    # ---- several held-back fillers (split directory, sub-directory, nested sub-directory, two splits) committed by ONE write_config
    for j, order in enumerate([[0, 1, 2], [1, 0, 2], [2, 1, 0]][: ctx.pick(2, 3)]):
        ma = {"root": str(ctx.scratch / f"c08_manual{j}"), "fmt": ["fb", "npz", "tfrec"][(j + ctx.seed) % 3], "hashes": [["sha256"], [], ["md5"]][j % 3], "order": order, "reopen": bool(j % 2)}
        r = child.call("harness.checks.c08", "manual_commit", ma, timeout=600)
        bad = r.get("error") or r.get("problems") or r["got"] != r["want"] or r["same_handle"] != r["want"] or any(r["recorded"][s_] != len(r["want"][s_]) for s_ in r["want"])
        if bad:
            ctx.report({"kind": "append-only", "manual_commit": True},
                       f"three fillers with auto_update_dataset=False committed by one write_config (info order {order}): {r.get('error') or r.get('problems') or ''} "
                       f"read back {r.get('got')} (recorded {r.get('recorded')}), written {r.get('want')}", {"case": r["case"], "result": {k: v for k, v in r.items() if k != 'case'}})
    nest = child.call("harness.checks.c08", "nested_sessions",
                      [{"root": str(ctx.scratch / f"c08n_{i}"), "fmt": ["fb", "npz", "tfrec"][i % 3], "eps": 1 + i % 3, "multi": bool(i % 2),
                        # (closed_first: the open outer filler has already loaded the split's list; then only sessions into sub-directories that
                        # list already names are nested inside it — a *new* child committed meanwhile is outside "one live handle at a time":
                        # the outer filler's copy of the list, written back on exit, cannot know it; see DESIGN §0.6, twelfth batch)
                        "closed_first": i % 3 != 0, "existing_sub": i % 3 != 0 or i % 2 == 0} for i in range(ctx.pick(4, 9))], timeout=900)
    for r in nest:
        if r.get("error") or r["got"] != r["want"] or r["problems"]:
            ctx.report({"kind": "append-only", "nested_in_time": True},
                       f"a filler left open around another completed session: {r.get('error') or ''} read back {r.get('got')} instead of {r['want']} {r.get('problems') or ''}",
                       {"case": r["case"], "result": r})
    for j, sub in enumerate([".", "a"][: ctx.pick(2, 2)]):
        r = child.call("harness.checks.c08", "alternating_processes", {"root": str(ctx.scratch / f"c08_alt{j}"), "fmt": ["fb", "npz", "tfrec"][(j + ctx.seed) % 3],
                                                                       "hashes": [["sha256"], []][j % 2], "sub": sub}, timeout=900)
        if r["problems"]:
            ctx.report({"kind": "append-only", "two_processes": True}, f"two writer processes taking turns (sub-directory {sub!r}): {r['problems'][0]}", {"case": r["case"], "problems": r["problems"]})
    for j, sub in enumerate([".", "part_a", "."][: ctx.pick(2, 3)]):
        r = child.call("harness.checks.c08", "aborted_then_completed", {"root": str(ctx.scratch / f"c08_abort{j}"), "fmt": ["npz", "fb", "tfrec"][(j + ctx.seed) % 3],
                                                                          "hashes": [["sha256"], []][j % 2], "sub": sub, "reopen": bool(j % 2)}, timeout=600)
        if r["problems"]:
            ctx.report({"kind": "append-only", "after_aborted_session": True}, f"a completed session after one whose with-block was left by an exception ({sub!r}): {r['problems'][0]}",
                       {"case": r["case"], "problems": r["problems"]})
    cases = c04.gen(ctx, "c08")
    results = []
    for i in range(0, len(cases), 10):
        results += child.call("harness.checks.c04", "run_cases", cases[i:i + 10], timeout=1500)
    corr_bad, nsess, distinct = c04.analyse(ctx, results, "C08")
    for r in results:
        have = {0: collections.Counter(), 1: collections.Counter(), 2: collections.Counter()}
        prev_seq = {0: [], 1: [], 2: []}
        for si, rec in enumerate(r["recs"]):
            kinds = [(s["kind"], s.get("sub")) for s in r["case"]["hist"][:si + 1]]
            sig = {"kind": "append-only", "nested": any("/" in (k[1] or "") for k in kinds),
                   "reused_subdir": kinds[:si].count(kinds[si]) > 0 and kinds[si][1] not in (None, ".")}
            if rec["error"]:
                ctx.report(dict(sig, kind="session-error"), f"session {si} raised {rec['error']}", {"case": r["case"], "session_index": si})
                break
            for s in range(3):
                have[s] += collections.Counter(rec["written"][str(s)] if isinstance(next(iter(rec["written"])), str) else rec["written"][s])
                got = rec["per_split"].get(str(s), rec["per_split"].get(s, []))
                if collections.Counter(got) != have[s]:
                    lost = sorted((have[s] - collections.Counter(got)).elements())
                    extra = sorted((collections.Counter(got) - have[s]).elements())
                    ctx.report(sig, f"after session {si} split {s}: lost {lost[:6]} extra/duplicated {extra[:6]}",
                               {"case": r["case"], "session_index": si, "split": s, "got": got})
                    break
                # previously committed examples keep their relative order (lists only grow)
                old = [x for x in got if x in set(prev_seq[s])]
                if sorted(old) == sorted(prev_seq[s]) and [x for x in prev_seq[s]] != [x for x in prev_seq[s] if x in set(old)]:
                    pass
                prev_seq[s] = got
        if r["create"]["create"] != "refused" or not r["create"]["unchanged"]:
            ctx.report({"kind": "create"}, f"Dataset.create over an existing dataset: {r['create']}", {"case": r["case"]})
    if corr_bad and not ctx.violations and not ctx.known_hits:
        ctx.report({"kind": "correspondence"}, "M-TREE no longer predicts the list documents the real code writes: " + corr_bad[0]["diffs"][0][:200],
                   {"correspondence": "M-TREE store vs shards_list.json documents", "theorem": "Sedpack.Tree.C08_session_append_only", "cases": corr_bad[:3]},
                   name="corr", nofail=True)
    ctx.cov.update({
        "evaluations": nsess, "distinct_nontrivial": len(distinct), "traces_validated_against_impl": nsess - len(corr_bad),
        "rule": "the C04 history generator (own seed stream); per split the examples reachable after each session are compared as multisets with "
                "previous + newly written; Dataset.create on the final dataset — addressed by its absolute path, a relative path, a path through `..`, with a trailing separator, through `~` and through a symbolic link — must raise DatasetExistsError with all files byte-identical",
        "samples": [{"case": results[0]["case"]}] if results else [],
        "input_distribution": {"sessions": nsess, "create_checks": len(results), "create_spellings": {k: sum(1 for r in results if r["create"].get("spellings", {}).get(k) == "refused") for k in ("absolute", "relative", "dotdot", "trailing-slash", "tilde", "symlink")},
                               "kinds": collections.Counter(s["kind"] + ":" + str(s.get("sub", "")) for r in results for s in r["case"]["hist"])},
    })
