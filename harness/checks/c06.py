"""C06 — a writer crash never corrupts or loses committed data.
Lean: SedpackProps/C06.lean over M-CRASH (invariants in every reachable state = every crash point).
Correspondence: the file-system effect trace of real sessions (audit hook) must be accepted by
M-CRASH: shard closed and hashed before it is listed, children before parents, description last,
documents only grow.  Oracle: the directory snapshot at every effect boundary (plus torn variants of
files no document names) is opened in recovery mode: all metadata parse, every reachable shard is
complete and matches its checksums, committed examples are still returned, only whole written
examples appear."""
from __future__ import annotations
import collections, hashlib, json, shutil, subprocess
from pathlib import Path
from harness.core import lean, sp
from harness.core.ctx import PY, VERIF
from harness.checks import tree_common as T

ASSUMPTIONS = ["rename is atomic; a process crash loses no completed write (the operating system stays up)",
               "every other session runs with each directory on a file system of its own: a rename across directories fails with EXDEV (a split directory may be a mount point); renames between siblings are unaffected",
               "shard file names (uuid4) are fresh", "TensorFlow's internal write pattern for TFRecord files is observed through its results, not modelled"]
TRUSTED = ["modelled-not-verified: POSIX rename/fsync behaviour, CPython audit events as the observation of file-system effects"]


def recover(snapdir: Path, committed, allowed):
    """Open a crash snapshot like a fresh reader would. Returns a list of problems."""
    from sedpack.io import Dataset
    probs = []
    for p in list(snapdir.rglob("shards_list.json")) + [snapdir / "dataset_info.json"]:
        try:
            json.loads(p.read_text())
        except Exception as e:  # noqa: BLE001
            size = p.stat().st_size if p.exists() else "missing"
            probs.append(f"metadata file {p.relative_to(snapdir)} is not a complete document ({type(e).__name__}, {size} bytes)")
    if probs:
        return probs
    try:
        ds = Dataset(snapdir)
        for name in list(ds._dataset_info.splits):
            s = T.SPLITS.index(name)
            for si in ds.shard_info_iterator(name):
                fi = si.file_infos[0]
                fp = ds.path / fi.file_path
                if not fp.is_file():
                    probs.append(f"reachable shard {fi.file_path} does not exist"); continue
                h = hashlib.sha256(fp.read_bytes()).hexdigest()
                if tuple(fi.hash_checksums) != (h,):
                    probs.append(f"reachable shard {fi.file_path} does not match its recorded checksum")
            if probs:
                break
            got = sp.read_ids(ds, name)
            if len(got) != len(set(got)):
                probs.append(f"split {name}: duplicated examples {got}")
            lost = set(committed.get(s, [])) - set(got)
            if lost:
                probs.append(f"split {name}: committed examples {sorted(lost)[:6]} are gone")
            alien = set(got) - set(committed.get(s, [])) - set(allowed.get(s, []))
            if alien:
                probs.append(f"split {name}: examples {sorted(alien)[:6]} were never (completely) written")
        for s, ids in committed.items():
            if ids and T.SPLITS[s] not in ds._dataset_info.splits:
                probs.append(f"split {T.SPLITS[s]} with committed examples is gone")
    except Exception as e:  # noqa: BLE001
        probs.append(f"recovery failed: {type(e).__name__}: {str(e)[:160]}")
    return probs


def abstract(root: Path, snaps: Path, log, before_state):
    """Audit log -> M-CRASH labels.  Shard files / temp files by name; documents read from the snapshot
    taken just before the rename."""
    fid, labels, idx = dict(before_state["fid"]), [], []
    begun, closed = set(), set(before_state["closed"])
    closes = []                         # (directory code, shard file name) in closing order: the model session of M-TREE
    def f_of(rel):
        return fid.setdefault(Path(rel).name, len(fid))
    for e in log:
        tag = e["tag"]
        if tag == "open":
            rel, mode = e["path"], e["mode"]
            name = Path(rel).name
            is_shard = Path(rel).suffix in (".fb", ".npz", ".tfrec")
            if is_shard and ("w" in mode or "x" in mode or "a" in mode):
                if name not in begun:
                    begun.add(name); labels.append(["shardBegin", f_of(rel)]); idx.append(e["k"])
                else:
                    labels.append(["shardAppend", f_of(rel)]); idx.append(e["k"])
            elif is_shard and "r" in mode and name not in closed:
                # the first read-open of a shard file by the writing session is the digest computation of Shard.close()
                if name not in begun:           # written by native code (TFRecordWriter): not visible to the audit hook
                    begun.add(name); labels.append(["shardBegin", f_of(rel)]); idx.append(e["k"])
                closed.add(name); labels.append(["shardClose", f_of(rel)]); idx.append(e["k"])
                closes.append((T.dir_code(Path(rel).parent), name))
            elif name.startswith("update_") and "w" in mode:
                labels.append(["tmpWrite", T.dir_code(Path(rel).parent)]); idx.append(e["k"])
        elif tag == "rename":
            src = snaps / f"{e['k']:05d}" / e["src"]
            dst = e["dst"]
            try:
                doc = json.loads(src.read_text())
            except Exception:  # noqa: BLE001
                doc = None
            if Path(dst).name == "shards_list.json":
                files = [f_of(s["file_infos"][0]["file_path"]) for s in (doc or {}).get("shard_files", [])]
                kids = [T.dir_code(Path(c["shard_list_info_file"]["file_path"]).parent) for c in (doc or {}).get("children_shard_lists", [])]
                labels.append(["install", T.dir_code(Path(dst).parent), files, kids]); idx.append(e["k"])
            elif dst == "dataset_info.json":
                roots = [T.dir_code(Path(r["shard_list_info_file"]["file_path"]).parent) for r in (doc or {}).get("splits", {}).values()]
                labels.append(["installInfo", roots]); idx.append(e["k"])
    return labels, idx, fid, closed, closes


def reader_view(snapdir: Path):
    """What a reader that opens the snapshot enumerates: {split index: [shard file names in order]} (None if it cannot open)."""
    from sedpack.io import Dataset
    try:
        ds = Dataset(snapdir)
        return {T.SPLITS.index(name): [Path(si.file_infos[0].file_path).name for si in ds.shard_info_iterator(name)]
                for name in ds._dataset_info.splits}
    except Exception:  # noqa: BLE001  (the crash oracle reports unreadable snapshots)
        return None


def disk_state(root: Path, fid):
    """closed shards / installed docs / roots of a committed dataset, in M-CRASH terms"""
    docs, closed = [], []
    for p in sorted(root.rglob("shards_list.json")):
        d = json.loads(p.read_text())
        files = []
        for s in d.get("shard_files", []):
            nm = Path(s["file_infos"][0]["file_path"]).name
            fid.setdefault(nm, len(fid)); files.append(fid[nm])
        kids = [T.dir_code(Path(c["shard_list_info_file"]["file_path"]).parent) for c in d.get("children_shard_lists", [])]
        docs.append([T.dir_code(p.parent.relative_to(root)), files, kids])
    for p in root.rglob("*"):
        if p.is_file() and p.suffix in (".fb", ".npz", ".tfrec"):
            fid.setdefault(p.name, len(fid)); closed.append(fid[p.name])
    info = json.loads((root / "dataset_info.json").read_text())
    roots = [T.dir_code(Path(r["shard_list_info_file"]["file_path"]).parent) for r in info.get("splits", {}).values()]
    return {"closed": sorted(closed), "docs": docs, "roots": roots, "fid": dict(fid)}


def wide_level(a):
    """(child) a list with well over a hundred child lists (one multi-writer call with `writers` writers), then a continued session;
    the directory is copied right after every rename of a metadata file — each copy is what a crash at that instant leaves and what a
    reader looking at that instant sees: every example committed by the first session is still returned, nothing unknown is."""
    import pathlib
    sp.sedpack()
    from sedpack.io import Dataset
    root = Path(a["root"]); shutil.rmtree(root, ignore_errors=True)
    for old in root.parent.glob(root.name + "_snap*"): shutil.rmtree(old, ignore_errors=True)
    ds = sp.mk(root, fmt=a["fmt"], eps=2, hashes=("sha256",))
    def feed(filler, lo, n):
        with filler as f:
            for v in range(lo, lo + n):
                f.write_example(values=sp.val(v), split="train")
        return 0
    W = a["writers"]
    ds.write_multiprocessing(feed_writer=feed, custom_arguments=[(i, 1) for i in range(W)], single_process=True, consistency_check=False)
    committed = list(range(W))
    snaps = []
    orig = pathlib.Path.replace
    def rep(self, target):
        r = orig(self, target)
        t = pathlib.Path(target)
        if t.name in ("shards_list.json", "dataset_info.json") and str(t).startswith(str(root) + "/") and len(t.relative_to(root).parts) <= 2:
            d = Path(str(root) + f"_snap{len(snaps)}"); shutil.copytree(root, d); snaps.append((d, str(t.relative_to(root))))
        return r
    new = list(range(10 ** 4, 10 ** 4 + 6))
    pathlib.Path.replace = rep
    err = None
    try:
        try:
            d2 = Dataset(root)
            if a["second"] == "multi":
                d2.write_multiprocessing(feed_writer=feed, custom_arguments=[(10 ** 4, 2), (10 ** 4 + 2, 2), (10 ** 4 + 4, 2)], single_process=True, consistency_check=False)
            else:
                from sedpack.io.dataset_filler import DatasetFiller
                with DatasetFiller(d2, relative_path_from_split=Path("zz/late")) as f:
                    for v in new: f.write_example(values=sp.val(v), split="train")
        except Exception as e:  # noqa: BLE001
            err = f"{type(e).__name__}: {str(e)[:200]}"
    finally:
        pathlib.Path.replace = orig
    problems = []
    for k, (d, what) in enumerate(snaps + [(root, "end of the session")]):
        try:
            got = sorted(sp.read_ids(Dataset(d), "train"))
            lost = sorted(set(committed) - set(got)); alien = sorted(set(got) - set(committed) - set(new))
            if lost or alien or len(got) != len(set(got)):
                problems.append(f"right after rename #{k} ({what}): {len(lost)} committed examples are not returned (e.g. {lost[:5]}), unknown {alien[:5]}")
        except Exception as e:  # noqa: BLE001
            problems.append(f"right after rename #{k} ({what}): {type(e).__name__}: {str(e)[:150]}")
        if d != root: shutil.rmtree(d, ignore_errors=True)
    shutil.rmtree(root, ignore_errors=True)
    return {"case": {k: a[k] for k in a if k != "root"}, "snapshots": len(snaps), "problems": problems, "error": err}


def run(ctx):
    sp.sedpack()
    from sedpack.io import Dataset
    rng = ctx.rng("c06")
    nsnaps, ntorn, sessions_run, reqs, meta, distinct = 0, 0, 0, [], [], set()
    ireqs, imeta = [], []
    nheal, heal_bad = 0, []
    nshardfail = 0
    plans = []
    for i in range(ctx.pick(3, 9)):
        fmt = ["fb", "npz", "tfrec"][i % 3]
        eps = rng.choice([1, 2, 3])
        sess = [{"kind": "filler", "sub": ".", "writes": [[0, eps + 1], [1, 1]]}]
        for _ in range(ctx.pick(2, 4)):
            k = rng.choice(["filler", "filler", "multi"])
            if k == "filler":
                sess.append({"kind": "filler", "sub": rng.choice([".", "a", "a", "a/y", "b/y/q"]), "writes": [[rng.randrange(3), rng.choice([1, eps, eps + 1])] for _ in range(rng.choice([1, 2]))]})
            else:
                sess.append({"kind": "multi", "writers": [[[rng.randrange(3), rng.choice([1, eps + 1])]] for _ in range(rng.choice([1, 2]))]})
        plans.append((fmt, eps, sess))
    # directed: a list that has children (from a multi-writer call and a sub-directory session) *and* receives shards of its own
    plans.insert(0, (["fb", "npz", "tfrec"][ctx.seed % 3], 2, [
        {"kind": "multi", "writers": [[[0, 3]], [[0, 1]]]},
        {"kind": "filler", "sub": ".", "writes": [[0, 3]]},
        {"kind": "filler", "sub": "a/y", "writes": [[0, 2]]},
        {"kind": "filler", "sub": ".", "writes": [[0, 1], [1, 2]]}]))
    # directed: splits that are *first* written through sub-directory writers (their split-level list does not exist yet when the
    # session commits): a multi-writer call and a sub-directory filler, after an ordinary first session
    plans.insert(1, (["npz", "tfrec", "fb"][ctx.seed % 3], 2, [
        {"kind": "filler", "sub": ".", "writes": [[0, 3]]},
        {"kind": "multi", "writers": [[[1, 3]], [[0, 1], [1, 1]]]},
        {"kind": "filler", "sub": "a/y", "writes": [[2, 3]]}]))
    for ci, (fmt, eps, sess) in enumerate(plans):
        root = ctx.scratch / f"c06_{ci}"
        sp.mk(root, fmt=fmt, eps=eps, hashes=("sha256",))        # (the recovery oracle re-computes sha256 digests)
        committed = {0: [], 1: [], 2: []}
        base = 0
        gid, model_hist = {}, []            # shard file name -> id, stable over the dataset's whole history; M-TREE sessions so far
        for si, se in enumerate(sess):
            snaps = ctx.scratch / f"c06_{ci}_{si}_snaps"; snaps.mkdir()
            fid = {}
            before = disk_state(root, fid)
            pre_copy = ctx.scratch / f"c06_{ci}_{si}_pre"
            if si > 0 and (ctx.thorough or ci <= 1):
                shutil.copytree(root, pre_copy)          # for the disk-full runs below (quick: the two directed plans)
            arg = ctx.scratch / "c06.arg.json"; out = ctx.scratch / "c06.out.json"
            if out.exists(): out.unlink()
            xdev = (ci + si) % 2 == 1          # every other session: each directory is a file system of its own (renames across directories fail)
            arg.write_text(json.dumps(dict(se, root=str(root), snap=str(snaps), base=base, uuid_base=10 * si, xdev=xdev)))
            p = subprocess.run([PY, str(VERIF / "harness" / "checks" / "c06_writer.py"), str(arg), str(out)], capture_output=True, text=True, timeout=900)
            if not out.exists():
                raise RuntimeError(f"writer child failed: {p.stderr[-800:]}")
            res = json.loads(out.read_text())
            sessions_run += 1
            written = {int(k): v for k, v in res["written"].items()}
            sig = {"format": fmt, "session": se["kind"] + ":" + str(se.get("sub", "")), "continued": si > 0}
            xdev_used = xdev
            if res["error"]:
                ctx.report(dict(sig, kind="session-error"), f"session failed: {res['error']}", {"plan": sess, "session_index": si}); break
            # ---- abstraction first (the oracle below truncates files inside the snapshots)
            labels, idx, fid2, _, closes = abstract(root, snaps, res["log"], before)
            # ---- oracle on every snapshot (and torn variants of files no document names)
            allowed_so_far = {0: [], 1: [], 2: []}
            real_enum = [reader_view(snaps / f"{res['log'][0]['k']:05d}")] if res["log"] else []
            for e in res["log"]:
                if e["tag"] == "after-rename" and Path(e["dst"]).name == "shards_list.json":
                    real_enum.append(reader_view(snaps / f"{e['k']:05d}"))
                if e["tag"] == "after-write":
                    allowed_so_far[e["split"]].append(e["ex"])
                sd = snaps / f"{e['k']:05d}"
                if e["tag"] == "open" and Path(e["path"]).name in ("shards_list.json", "dataset_info.json") and any(m in e["mode"] for m in "wxa+"):
                    # a committed metadata file opened for writing in place: the instant after the open (file truncated) is a crash point
                    torn = sd / e["path"]
                    if torn.exists() and "a" not in e["mode"] and "+" not in e["mode"]:
                        torn.write_bytes(b"")
                    probs = recover(sd, committed, {s: list(written[s]) for s in written})
                    nsnaps += 1
                    if probs:
                        ctx.report(dict(sig, kind="torn-metadata", at="open-for-writing"),
                                   f"{fmt} crash point {e['k']}: {e['path']} is opened for writing in place (mode {e['mode']}); a crash right after the open leaves: {probs[0]}",
                                   {"plan": sess, "session_index": si, "event": e, "xdev": xdev, "problems": probs[:5]})
                        break
                    continue
                # examples whose write_example has returned, or is in progress, may or may not be visible; nothing else may
                allowed = {s: list(written[s]) for s in written}
                probs = recover(sd, committed, allowed)
                nsnaps += 1
                if probs:
                    ctx.report(dict(sig, kind="crash-state", at=e["tag"]),
                               f"{fmt} crash point {e['k']} ({e['tag']} {e.get('path', e.get('dst', ''))}): {probs[0]}",
                               {"plan": sess, "session_index": si, "event": e, "problems": probs[:5]})
                    break
                if e["tag"] in ("rename", "after-rename") and rng.random() < ctx.pick(0.12, 0.3):
                    # correspondence with `C06_next_session_heals`: from this crash state, a completed session into every split the
                    # crashed session touched makes the whole dataset pass the integrity check again (nothing to repair by hand)
                    hc = ctx.scratch / "c06_heal"
                    if hc.exists(): shutil.rmtree(hc)
                    shutil.copytree(sd, hc)
                    try:
                        hd = Dataset(hc)
                        touched = sorted({int(s_) for s_ in written if written[s_]} | {w[0] for w in se.get("writes", [])} | {x[0] for w in se.get("writers", []) for x in w})
                        with hd.filler() as hf:
                            for s_ in touched:
                                hf.write_example(values=sp.val(900000 + s_), split=T.SPLITS[s_])
                        Dataset(hc).check(show_progressbar=False)
                        nheal += 1
                    except Exception as ex:  # noqa: BLE001
                        heal_bad.append({"signature": sig, "plan": sess, "session_index": si, "event": e, "error": f"{type(ex).__name__}: {str(ex)[:200]}"})
                    shutil.rmtree(hc, ignore_errors=True)
                if e["tag"] in ("open", "rename") and rng.random() < ctx.pick(0.25, 0.6):
                    # torn variant: truncate every file that no reachable document names
                    info_named = set()
                    try:
                        d2 = Dataset(sd)
                        for name in d2._dataset_info.splits:
                            for sh in d2.shard_info_iterator(name):
                                info_named.add(str(sh.file_infos[0].file_path))
                    except Exception:  # noqa: BLE001
                        pass
                    torn = False
                    for q in sd.rglob("*"):
                        rel = str(q.relative_to(sd))
                        if q.is_file() and rel not in info_named and (q.suffix in (".fb", ".npz", ".tfrec") or q.name.startswith("update_")):
                            q.write_bytes(q.read_bytes()[: rng.randrange(0, max(1, q.stat().st_size))]); torn = True
                    if torn:
                        ntorn += 1
                        probs = recover(sd, committed, allowed)
                        if probs:
                            ctx.report(dict(sig, kind="torn-state"), f"{fmt} torn variant of crash point {e['k']}: {probs[0]}",
                                       {"plan": sess, "session_index": si, "event": e, "problems": probs[:5]})
                            break
            # ---- the writer dies of an exception instead of a kill: the k-th metadata temp file cannot be written (disk full).  The
            # same session is replayed on a copy of the dataset as it was before, for k at the start, middle and end of its temp writes
            if pre_copy.exists():
                ntmp = sum(1 for l in labels if l[0] == "tmpWrite")
                for k in sorted({max(1, ntmp // 2), max(1, ntmp - 2), max(1, ntmp - 1)} | ({1, ntmp} if ctx.thorough else set())):
                    work = ctx.scratch / f"c06_{ci}_{si}_full"
                    if work.exists(): shutil.rmtree(work)
                    shutil.copytree(pre_copy, work)
                    out2 = ctx.scratch / "c06.out2.json"
                    if out2.exists(): out2.unlink()
                    arg.write_text(json.dumps(dict(se, root=str(work), snap=str(snaps), base=base, uuid_base=10 * si, nosnap=True, fail_write=k)))
                    subprocess.run([PY, str(VERIF / "harness" / "checks" / "c06_writer.py"), str(arg), str(out2)], capture_output=True, text=True, timeout=900)
                    res2 = json.loads(out2.read_text()) if out2.exists() else {"written": {}, "error": "no result"}
                    w2 = {int(s_): v for s_, v in res2.get("written", {}).items()}
                    probs = recover(work, committed, {s_: list(w2.get(s_, [])) for s_ in (0, 1, 2)})
                    nsnaps += 1
                    if probs:
                        ctx.report(dict(sig, kind="crash-state", at="disk-full"),
                                   f"{fmt} session dying of ENOSPC on its metadata temp file number {k} of {ntmp} ({res2.get('error')}): {probs[0]}",
                                   {"plan": sess, "session_index": si, "fail_write": k, "problems": probs[:5]})
                        break
                    shutil.rmtree(work, ignore_errors=True)
                # ---- … or the k-th shard *file* cannot be written (fb / npz), and the caller skips every example whose write fails
                # and keeps using the filler to the end of the session (no crash at all)
                for k in (sorted({1, max(1, len(closes) - 1), len(closes)}) if fmt in ("fb", "npz") and closes else []):
                    work = ctx.scratch / f"c06_{ci}_{si}_full"
                    if work.exists(): shutil.rmtree(work)
                    shutil.copytree(pre_copy, work)
                    out2 = ctx.scratch / "c06.out2.json"
                    if out2.exists(): out2.unlink()
                    arg.write_text(json.dumps(dict(se, root=str(work), snap=str(snaps), base=base, uuid_base=10 * si, nosnap=True, fail_shard=k, swallow=True)))
                    subprocess.run([PY, str(VERIF / "harness" / "checks" / "c06_writer.py"), str(arg), str(out2)], capture_output=True, text=True, timeout=900)
                    res2 = json.loads(out2.read_text()) if out2.exists() else {"written": {}, "error": "no result"}
                    w2 = {int(s_): v for s_, v in res2.get("written", {}).items()}
                    probs = recover(work, committed, {s_: list(w2.get(s_, [])) for s_ in (0, 1, 2)})
                    nsnaps += 1; nshardfail += 1
                    if probs:
                        ctx.report(dict(sig, kind="error-path-state", at="shard-file-write-fails"),
                                   f"{fmt} session whose shard file number {k} of {len(closes)} cannot be written (ENOSPC), the caller skipping the failing writes "
                                   f"({res2.get('swallowed', [])[:1]}, end: {res2.get('error')}): {probs[0]}",
                                   {"plan": sess, "session_index": si, "fail_shard": k, "problems": probs[:5]})
                        break
                    shutil.rmtree(work, ignore_errors=True)
                shutil.rmtree(pre_copy, ignore_errors=True)
            # ---- correspondence: the observed effect order is accepted by M-CRASH
            reqs.append({"m": "crash", "closed": before["closed"], "docs": before["docs"], "roots": before["roots"], "trace": labels})
            meta.append((sig, sess, si, labels, idx))
            # ---- correspondence 2: M-TREE's effect-emitting session (`sessionE`) installs the same documents in the same order,
            # and every prefix of its installs is the crash state a reader sees on the real directory
            # one model session entry per closed shard (with write_updates the list is rewritten after every close); the fillers of a
            # multi-writer call run one after the other (single_process) and are told apart by their uuid directory component
            fillers = []
            for d, name in closes:
                gid.setdefault(name, len(gid))
                who = tuple(c for c in d[1:2] if c >= 100) if se["kind"] == "multi" else ()
                if not fillers or fillers[-1][0] != who:
                    fillers.append((who, []))
                fillers[-1][1].append([list(d), [[gid[name], 1]]])
            fillers = [f for _, f in fillers]
            inv = {v: k for k, v in fid2.items()}
            observed = [[l[1], [inv.get(f, f"?{f}") for f in l[2]], l[3]] for l in labels if l[0] == "install"]
            ireqs.append({"m": "installs", "fuel": 8, "sessions": [list(x) for x in model_hist], "fillers": fillers})
            model_hist.append([w for f in fillers for w in f])
            imeta.append((sig, sess, si, observed, real_enum, dict(gid)))
            distinct.add((fmt, se["kind"], se.get("sub"), si > 0))
            for s in written: committed[s] += written[s]
            base = res["next"]
            shutil.rmtree(snaps, ignore_errors=True)
        shutil.rmtree(root, ignore_errors=True)
    # ---- a reader that looks while a long-lived writer process continues after another process wrote: nothing committed is lost
    from harness.core import child
    for j, sub in enumerate([".", "a/y"][: ctx.pick(1, 2)]):
        r = child.call("harness.checks.c08", "alternating_processes", {"root": str(ctx.scratch / f"c06_alt{j}"), "fmt": ["npz", "fb", "tfrec"][(j + ctx.seed) % 3],
                                                                       "hashes": ["sha256"], "sub": sub}, timeout=900)
        if r["problems"]:
            ctx.report({"kind": "committed-lost", "two_processes": True}, f"a writer process continuing after another process's completed session (sub-directory {sub!r}): {r['problems'][0]}",
                       {"case": r["case"], "problems": r["problems"]})
    # ---- a wide level: a list with 140 (thorough: 300) child lists, then a continued session, observed right after every metadata rename
    nwide = 0
    for j, second in enumerate(["multi", "filler"][: ctx.pick(1, 2)]):
        wa = {"root": str(ctx.scratch / f"c06_wide{j}"), "fmt": ["fb", "npz"][(j + ctx.seed) % 2], "writers": ctx.pick(140, 300), "second": second}
        wr = child.call("harness.checks.c06", "wide_level", wa, timeout=1500)
        nwide += wr["snapshots"]; nsnaps += wr["snapshots"]
        if wr["error"] or wr["problems"]:
            ctx.report({"kind": "crash-state", "at": "after-rename", "wide_level": True},
                       f"{wa['fmt']} continued session ({second}) on a list with {wa['writers']} child lists: {wr['error'] or wr['problems'][0]}", {"wide_case": wr["case"], "problems": wr["problems"][:5], "error": wr["error"]})
    reps = lean.driver(reqs) if reqs else []
    corr_bad = []
    for (sig, sess, si, labels, idx), rep in zip(meta, reps):
        if "error" in rep:
            raise RuntimeError(rep)
        if not rep.get("ok"):
            corr_bad.append({"signature": sig, "plan": sess, "session_index": si, "refused_label": labels[rep["at"]], "at": rep["at"], "context": labels[max(0, rep["at"] - 4): rep["at"] + 1]})
    if corr_bad and not ctx.violations and not ctx.known_hits:
        ctx.report({"kind": "correspondence"}, f"M-CRASH refuses the observed effect order at {corr_bad[0]['refused_label']}",
                   {"correspondence": "M-CRASH accepts(observed file-system effect trace)", "theorem": "Sedpack.Crash.C06_reachable_complete / C06_children_first",
                    "cases": corr_bad[:2]}, name="corr", nofail=True)
    ireps = lean.driver(ireqs) if ireqs else []
    inst_bad, ninst, ncrash = [], 0, 0
    for (sig, sess, si, observed, real_enum, gid), rep in zip(imeta, ireps):
        if "error" in rep:
            raise RuntimeError(rep)
        name_of = {v: k for k, v in gid.items()}
        model = [[d, [name_of.get(f, f"?{f}") for f in files], kids] for d, files, kids in rep["installs"]]
        ninst += len(model)
        why = None
        if not rep["refines"]:
            why = "the installs of sessionE do not reproduce session's store (driver self-check)"
        elif model != observed:
            k = next((i for i, (a, b) in enumerate(zip(model, observed)) if a != b), min(len(model), len(observed)))
            why = f"install #{k}: model {model[k] if k < len(model) else None} vs observed {observed[k] if k < len(observed) else None}"
        else:
            for k, view in enumerate(real_enum):
                if view is None or k >= len(rep["crash_enum"]):
                    continue
                ncrash += 1
                for s, names in view.items():
                    m = [name_of.get(f, f"?{f}") for f in rep["crash_enum"][k][s]]
                    if m != names:
                        why = f"after {k} installs a reader enumerates {names} for split {T.SPLITS[s]}, the model's crash state {m}"; break
                if why: break
        if why:
            inst_bad.append({"signature": sig, "plan": sess, "session_index": si, "difference": why})
    if inst_bad and not ctx.violations:
        ctx.report({"kind": "correspondence-installs"}, f"M-TREE's effect order differs from the real session: {inst_bad[0]['difference']}",
                   {"correspondence": "sessionE installs = observed renames of shards_list.json (documents and order); prefixes = reader's view at each crash point",
                    "theorem": "Sedpack.Tree.C06_session_crash_points / C06_session_installs_valid", "cases": inst_bad[:2]}, name="corr-installs", nofail=True)
    if heal_bad and not ctx.violations:
        ctx.report({"kind": "correspondence-heal"}, f"a completed session after a crash state does not make the dataset pass check(): {heal_bad[0]['error']}",
                   {"correspondence": "M-TREE: every split merged by a completed session is exact again, from any well-formed store", "theorem": "Sedpack.Tree.C06_next_session_heals",
                    "cases": heal_bad[:2]}, name="corr-heal", nofail=True)
    ctx.cov.update({
        "crash_states_healed_by_next_session": nheal, "shard_file_write_failures_with_continuing_caller": nshardfail, "wide_level_after_rename_snapshots": nwide,
        "installs_compared": ninst, "crash_states_compared_with_model": ncrash,
        "evaluations": nsnaps + ntorn, "distinct_nontrivial": len(distinct), "traces_validated_against_impl": sessions_run - len(corr_bad),
        "crash_snapshots": nsnaps, "torn_variants": ntorn, "sessions": sessions_run,
        "labels_replayed": sum(len(m[3]) for m in meta),
        "rule": "sessions (first and continued; root / sub-directory / nested fillers; single-process multi-writer calls) on fb/npz/tfrec; a snapshot of the "
                "dataset directory before every open/rename/mkdir/remove under the root, after every rename and after every write_example, each opened by the "
                "recovery oracle; torn variants truncate every file no reachable document names; a metadata file opened for writing in place is truncated (crash right after the open); "
                "every other session with renames across directories failing (EXDEV); the documents and order of the observed renames are compared with M-TREE's effect-emitting "
                "session (multiSessionE) and the reader's enumeration of every after-rename snapshot with the model's crash state; splits first written through sub-directory writers; sessions replayed with the k-th metadata temp file, and (fb/npz) the k-th shard file, failing with ENOSPC — "
                "the latter with a caller that skips the failing writes and carries on; a list with 140 / 300 child lists continued by a further session, copied right after every metadata rename; "
                "distinct = (format, session kind, sub-directory, continued?)",
        "samples": [{"labels": m[3][:14]} for m in meta[:2]],
        "input_distribution": {"sessions": sessions_run, "snapshots": nsnaps, "torn": ntorn,
                               "label_kinds": collections.Counter(l[0] for m in meta for l in m[3])},
    })
