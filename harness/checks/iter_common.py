"""Shared machinery for C02 / C03 / C14 / C19: stage-level tracing of the real generators
(shuffle buffer, round robin; sync and async) and end-to-end datasets read through every interface."""
from __future__ import annotations
import asyncio, itertools, json, os, shutil
from pathlib import Path
from harness.core import sp

SPLITS = ["train", "test", "holdout"]
IFACES = ["sync", "concurrent", "async", "rust", "tf"]


# ------------------------------------------------------------------------------------------------
# stage level: observe the real generators at their boundary
# ------------------------------------------------------------------------------------------------
class LogSource:
    """Iterator over `xs` that logs every `next()` as a pull label."""
    def __init__(self, xs, log, infinite=False, pull_limit=None):
        self.it = iter(itertools.count(xs) if infinite else xs); self.log = log; self.limit = pull_limit
    def __iter__(self): return self
    def __next__(self):
        if self.limit is not None and sum(1 for l in self.log if l[0] == "pull") >= self.limit:
            raise RuntimeError("pull-limit")          # a run-away reader: stop it
        try:
            x = next(self.it)
        except StopIteration:
            self.log.append(["pull", None]); raise
        self.log.append(["pull", x]); return x


def trace_sb(xs, b, take=None, infinite=False, pull_limit=None):
    """Run the real shuffle_buffer; returns (labels, output, error)."""
    sp.sedpack()
    from sedpack.io.itertools import shuffle_buffer
    log, out, err = [], [], None
    try:
        for i, y in enumerate(shuffle_buffer(LogSource(xs, log, infinite, pull_limit), buffer_size=b)):
            log.append(["yield", y]); out.append(y)
            if take is not None and i + 1 >= take:
                break
        else:
            log.append(["finish"])
    except Exception as e:  # noqa: BLE001
        err = f"{type(e).__name__}: {e}"
    return log, out, err


def trace_sb_async(xs, b):
    sp.sedpack()
    from sedpack.io.itertools.itertools import shuffle_buffer_async
    log, out = [], []
    async def src():
        for x in xs:
            log.append(["pull", x]); yield x
        log.append(["pull", None])
    async def main():
        async for y in shuffle_buffer_async(src(), buffer_size=b):
            log.append(["yield", y]); out.append(y)
        log.append(["finish"])
    err = None
    try:
        asyncio.run(main())
    except Exception as e:  # noqa: BLE001
        err = f"{type(e).__name__}: {e}"
    # an async generator source reports exhaustion once; a second anext on a finished generator is silent
    return log, out, err


def trace_rr(inners, b, take=None):
    """Run the real round_robin over the inner lists; ids are positions in `inners`."""
    sp.sedpack()
    from sedpack.io.itertools import round_robin
    log, out, owner = [], [], {}
    for i, es in enumerate(inners):
        for x in es: owner[x] = i
    class Inner:
        def __init__(self, i, es): self.i, self.it = i, iter(es)
        def __iter__(self): return self
        def __next__(self):
            try: return next(self.it)
            except StopIteration:
                log.append(["innerEnd", self.i]); raise
    class Outer:
        def __init__(self): self.k = 0
        def __iter__(self): return self
        def __next__(self):
            if self.k >= len(inners):
                log.append(["outerEnd"]); raise StopIteration
            i = self.k; self.k += 1
            log.append(["open", i, list(inners[i])]); return Inner(i, inners[i])
    err = None
    try:
        for n, y in enumerate(round_robin(Outer(), buffer_size=b)):
            log.append(["yield", owner[y], y]); out.append(y)
            if take is not None and n + 1 >= take:
                break
        else:
            log.append(["finish"])
    except Exception as e:  # noqa: BLE001
        err = f"{type(e).__name__}: {e}"
    return log, out, err


def trace_rr_async(inners, b):
    sp.sedpack()
    from sedpack.io.itertools import round_robin_async
    log, out, owner = [], [], {}
    for i, es in enumerate(inners):
        for x in es: owner[x] = i
    async def inner(i, es):
        for x in es: yield x
        log.append(["innerEnd", i])
    async def outer():
        for i, es in enumerate(inners):
            log.append(["open", i, list(es)]); yield inner(i, es)
        log.append(["outerEnd"])
    async def main():
        async for y in round_robin_async(outer(), buffer_size=b):
            log.append(["yield", owner[y], y]); out.append(y)
        log.append(["finish"])
    err = None
    try:
        asyncio.run(main())
    except Exception as e:  # noqa: BLE001
        err = f"{type(e).__name__}: {e}"
    return log, out, err


def normalize_rr(log):
    """Async generators report `outerEnd` once (a finished async generator stays silent when asked
    again), sync iterators every time; the monitor accepts repeated `outerEnd` only during a refill,
    so drop nothing — but an `outerEnd` is expected after *every* innerEnd once the outer is done.
    For the async source insert the implied ones."""
    out, done = [], False
    for i, l in enumerate(log):
        out.append(l)
        if l[0] == "outerEnd":
            done = True
        elif l[0] == "innerEnd" and done:
            nxt = log[i + 1] if i + 1 < len(log) else None
            if nxt is None or nxt[0] != "outerEnd":
                out.append(["outerEnd"])
    return out


# ------------------------------------------------------------------------------------------------
# end to end
# ------------------------------------------------------------------------------------------------
def build_dataset(root: Path, fmt: str, comp: str, eps: int, plan, hashes=None):
    """plan: list of sessions; a session is {"sub": "."|"a"|"a/b", "writes": [(split_idx, n), ...]} executed in order.
    Returns (dataset, written ids per split)."""
    from sedpack.io.dataset_filler import DatasetFiller
    ds = sp.mk(root, fmt=fmt, comp=comp, eps=eps, hashes=hashes)
    written = {s: [] for s in SPLITS}
    nxt = 0
    for sess in plan:
        with DatasetFiller(ds, relative_path_from_split=Path(sess["sub"])) as f:
            for s, n in sess["writes"]:
                for _ in range(n):
                    f.write_example(values=sp.val(nxt), split=SPLITS[s])
                    written[SPLITS[s]].append(nxt); nxt += 1
    return ds, written


def enumeration(ds):
    """Examples per split in shard enumeration order (shards decoded one by one), plus per-shard id lists."""
    from harness.checks.fill_common import decode_shard
    res = {}
    for name in ds._dataset_info.splits:
        shards = []
        for info in ds.shard_info_iterator(name):
            shards.append(decode_shard(ds, ds.path / info.file_infos[0].file_path))
        res[name] = shards
    return res


def safe_enumeration(ds):
    """`enumeration`, but a failure of the real shard-list walk is returned (it is the implementation's
    behaviour on a valid dataset, to be reported — not a harness failure)."""
    try:
        return enumeration(ds), None
    except BaseException as e:  # noqa: BLE001
        return {}, f"{type(e).__name__}: {str(e)[:200]}"


def supports(iface: str, fmt: str, comp: str) -> bool:
    if iface == "async": return fmt in ("npz", "fb")
    if iface == "rust": return fmt == "fb" and comp in ("", "LZ4", "GZIP", "ZLIB")
    return True


def run_iface(ds, iface: str, split: str, *, shuffle: int, T: int, repeat: bool = False, take: int | None = None,
              process: bool = False, batch: int = 0, **sel):
    """Iterate and return (ids, process_record call count or None)."""
    calls = {"n": 0}
    def proc(e):
        calls["n"] += 1
        return {"a": e["a"] + 100000}
    pr = proc if process else None
    off = 100000 if process else 0
    kw = dict(split=split, repeat=repeat, shuffle=shuffle, **sel)
    # the flag as the caller spells it: a Python bool, left out (the default is on), a NumPy boolean (`epochs > 1` on a NumPy integer), the integer 1
    if isinstance(repeat, str):
        if repeat == "default": del kw["repeat"]
        elif repeat == "np": kw["repeat"] = sp.np.True_
        elif repeat == "one": kw["repeat"] = 1
        else: raise ValueError(repeat)
    def cut(it):
        out = []
        for e in it:
            out.append(sp.ident(e) - off)
            if take is not None and len(out) >= take:
                break
        return out
    if iface == "sync":
        return cut(ds.as_numpy_iterator(process_record=pr, **kw)), calls["n"] if process else None
    if iface == "concurrent":
        return cut(ds.as_numpy_iterator_concurrent(process_record=pr, file_parallelism=T, **kw)), calls["n"] if process else None
    if iface == "rust":
        return cut(ds.as_numpy_iterator_rust(process_record=pr, file_parallelism=T, **kw)), calls["n"] if process else None
    if iface == "async":
        async def main():
            out = []
            async for e in ds.as_numpy_iterator_async(process_record=pr, file_parallelism=T, **kw):
                out.append(sp.ident(e) - off)
                if take is not None and len(out) >= take:
                    break
            return out
        return asyncio.run(main()), calls["n"] if process else None
    if iface == "tf":
        tfpr = (lambda e: {"a": e["a"] + 100000}) if process else None
        tfds = ds.as_tfdataset(process_record=tfpr, batch_size=batch, file_parallelism=T, parallelism=2, prefetch=1, **kw)
        if batch > 0:
            # batched: flatten the batches back into the stream of examples
            out = []
            for e in tfds.as_numpy_iterator():
                for row in sp.np.asarray(e["a"]):
                    out.append(int(float(sp.np.asarray(row).reshape(-1)[0])) - off)
                    if take is not None and len(out) >= take:
                        return out, None
            return out, None
        return cut(tfds.as_numpy_iterator()), None
    raise ValueError(iface)
