"""C07 — unreadable shards surface as errors: never a hang, never silent truncation.
Lean: SedpackProps/C07.lean (no normal end while a selected shard failed to load: corollaries of the
exactly-once theorems; the lazy pool neither deadlocks nor ends silently on a failing input and
terminates; Rust: a dead worker is reported, not mapped to end-of-iteration).
Correspondence: the lazy pool with a failing loader under the deterministic scheduler (C13's
machinery).  Oracle: planted faults (deleted / emptied / garbage / truncated; first / middle / last
shard) x every interface x shuffle on/off x file_parallelism under a watchdog: the consumer must get
an exception; a normal end (with or without the other shards' examples) or a time-out is a violation."""
from __future__ import annotations
import collections, json, os, shutil, subprocess, sys, time
from pathlib import Path
from harness.core import lean, sp, child
from harness.core.ctx import PY, VERIF
from harness.checks import iter_common as I

ASSUMPTIONS = ["'rejected by the decoder': a damage counts only if decoding that file alone fails; an *empty* uncompressed TFRecord file is a valid file of zero records "
               "and an empty file is accepted by some codecs, so those are probed first; when the format library accepts the file, only the weaker demand is made that a pass ending normally "
               "still holds every example of the undamaged shards (silent truncation of the *rest* of the pass is a violation whatever the file was)",
               "bounded time = a watchdog of 60 s per pass (normal passes take < 2 s)"]
TRUSTED = ["modelled-not-verified: executor / asyncio / tf.data error propagation, Rust panic behaviour"]
WATCHDOG = 60


def one_pass(args):
    """(child, one per pass so that a hang costs one time-out) iterate once, report the outcome."""
    sp.sedpack(rust=True)
    from sedpack.io import Dataset
    ds = Dataset(args["root"])
    try:
        got, _ = I.run_iface(ds, args["iface"], "train", shuffle=args["shuffle"], T=args["T"])
        return {"outcome": "ended", "n": len(got), "got": got[:50]}
    except BaseException as e:  # noqa: BLE001
        return {"outcome": "raised", "exc": f"{type(e).__name__}: {str(e)[:120]}"}


def many_passes(args):
    """(child) several passes in one process; each guarded by SIGALRM (works for Python-level blocking;
    a native hang makes the whole group time out and the parent re-runs its members one by one)."""
    import signal
    sp.sedpack(rust=True)
    from sedpack.io import Dataset
    class Alarm(BaseException): pass
    def on_alarm(sig, frm): raise Alarm()
    signal.signal(signal.SIGALRM, on_alarm)
    out = []
    for a in args["passes"]:
        t0 = time.time()
        signal.alarm(args["watchdog"])
        try:
            ds = Dataset(args["root"])
            got, _ = I.run_iface(ds, a["iface"], "train", shuffle=a["shuffle"], T=a["T"])
            r = {"outcome": "ended", "n": len(got), "got": got[:50]}
        except Alarm:
            r = {"outcome": "hang"}
        except BaseException as e:  # noqa: BLE001
            r = {"outcome": "raised", "exc": f"{type(e).__name__}: {str(e)[:120]}"}
        finally:
            signal.alarm(0)
        r["secs"] = round(time.time() - t0, 1)
        out.append(r)
        if r["outcome"] == "hang":
            break                      # blocked threads may linger: let the parent run the rest separately
    return out


def reference_decoder_rejects(fmt: str, comp: str, path: Path) -> bool:
    """Does the *format library* (flatbuffers / numpy / TFRecord reader) reject this file?  Independent of
    sedpack's own iteration code, so that a change to that code cannot redefine what a damaged file is."""
    try:
        if fmt == "fb":
            import bz2, gzip, lzma
            data = path.read_bytes()
            if comp in ("GZIP", "ZLIB"): data = gzip.decompress(data)
            elif comp == "BZ2": data = bz2.decompress(data)
            elif comp == "LZMA": data = lzma.decompress(data)
            elif comp == "LZ4":
                import lz4.frame; data = lz4.frame.decompress(data)
            elif comp == "ZSTD":
                import zstandard; data = zstandard.decompress(data)
            import sedpack.io.flatbuffer.shardfile.Shard as fbapi_Shard
            shard = fbapi_Shard.Shard.GetRootAs(data, 0)
            n = shard.ExamplesLength()
            for i in range(n):
                ex = shard.Examples(i)
                for j in range(ex.AttributesLength()):
                    ex.Attributes(j).AttributeBytesAsNumpy()
            return False
        if fmt == "npz":
            z = sp.np.load(path)
            for k in z.files: z[k]
            return False
        import tensorflow as tf
        sum(1 for _ in tf.data.TFRecordDataset(str(path), compression_type=comp))
        return False            # (an empty TFRecord file is a valid file of zero records)
    except BaseException:  # noqa: BLE001
        return True


def format_group(args):
    """(child) everything for one dataset: for each damage plan copy, damage, probe the decoder, run the passes."""
    import random, signal
    sp.sedpack(rust=True)
    from sedpack.io import Dataset
    from harness.checks.fill_common import decode_shard
    rng = random.Random(args["seed"])
    root = Path(args["root"])
    ds, written = I.build_dataset(root, args["fmt"], args["comp"], 2, [{"sub": ".", "writes": [(0, 2 * args["nshards"])]}])
    files = [str(ds.path / si.file_infos[0].file_path) for si in ds.shard_info_iterator("train")]
    class Alarm(BaseException): pass
    def on_alarm(sig, frm): raise Alarm()
    signal.signal(signal.SIGALRM, on_alarm)
    out = {"written": written["train"], "groups": []}
    for g in args["groups"]:
        work = Path(str(root) + "_work")
        if work.exists(): shutil.rmtree(work)
        shutil.copytree(root, work)
        f = Path(files[g["pos"]].replace(str(root), str(work)))
        data = f.read_bytes()
        dmg = g["damage"]
        if dmg == "deleted": f.unlink()
        elif dmg == "emptied": f.write_bytes(b"")
        elif dmg == "zeroed": f.write_bytes(bytes(len(data)))               # same length, all zero bytes: blocks that were never flushed before a crash
        elif dmg == "ones": f.write_bytes(b"\xff" * len(data))
        elif dmg == "garbage": f.write_bytes(bytes(rng.randrange(256) for _ in range(max(64, len(data)))))
        elif dmg == "tail-cut": f.write_bytes(data[: max(1, len(data) - 4)])                      # e.g. the CRC / length trailer of a gzip stream
        elif dmg == "tail-flip": f.write_bytes(data[:-3] + bytes([data[-3] ^ 0x10]) + data[-2:])
        else: f.write_bytes(data[: max(1, len(data) // 2)])
        res = {"damage": dmg, "pos": g["pos"], "passes": [], "skipped": False}
        if dmg != "deleted" and not reference_decoder_rejects(args["fmt"], args["comp"], f):
            res["skipped"] = True
        if True:
            # (when the format library reads the damaged file without complaint the passes still run, under the weaker demand below)
            for a in g["passes"]:
                t0 = time.time()
                signal.alarm(args["watchdog"])
                try:
                    got, _ = I.run_iface(Dataset(work), a["iface"], "train", shuffle=a["shuffle"], T=a["T"])
                    r = {"outcome": "ended", "n": len(got), "got": got[:50]}
                except Alarm:
                    r = {"outcome": "hang"}
                except BaseException as e:  # noqa: BLE001
                    r = {"outcome": "raised", "exc": f"{type(e).__name__}: {str(e)[:120]}"}
                finally:
                    signal.alarm(0)
                r["secs"] = round(time.time() - t0, 1)
                res["passes"].append(dict(a, **r))
        out["groups"].append(res)
    shutil.rmtree(root, ignore_errors=True); shutil.rmtree(str(root) + "_work", ignore_errors=True)
    return out


def rust_repeated_failures(a):
    """(child) a long-running job that keeps retrying: many Rust passes over a split with a missing shard, in one process;
    every attempt must raise (returns the outcomes; a frozen interpreter is noticed by the parent)."""
    sp.sedpack(rust=True)
    from sedpack.io import Dataset
    root = Path(a["root"]); shutil.rmtree(root, ignore_errors=True)
    ds, written = I.build_dataset(root, "fb", a["comp"], 2, [{"sub": ".", "writes": [(0, 8)]}])
    files = [ds.path / si.file_infos[0].file_path for si in ds.shard_info_iterator("train")]
    files[1].unlink()
    out = []
    for k in range(a["attempts"]):
        try:
            got, _ = I.run_iface(Dataset(root), "rust", "train", shuffle=0, T=2)
            out.append(f"ended:{len(got)}")
        except BaseException as e:  # noqa: BLE001
            out.append("raised")
        Path(a["progress"]).write_text(str(k + 1))
    shutil.rmtree(root, ignore_errors=True)
    return out


def decoder_rejects(args):
    """(child) does decoding the damaged file alone fail?"""
    sp.sedpack()
    from sedpack.io import Dataset
    from harness.checks.fill_common import decode_shard
    ds = Dataset(args["root"])
    try:
        decode_shard(ds, Path(args["file"]))
        return {"rejects": False}
    except BaseException as e:  # noqa: BLE001
        return {"rejects": True, "exc": type(e).__name__}


def build(args):
    sp.sedpack()
    ds, written = I.build_dataset(args["root"], args["fmt"], args["comp"], 2, [{"sub": ".", "writes": [(0, 2 * args["nshards"])]}])
    files = [str(ds.path / si.file_infos[0].file_path) for si in ds.shard_info_iterator("train")]
    return {"files": files, "written": written["train"]}


def run(ctx):
    rng = ctx.rng("c07")
    combos = []
    fmts = ([("fb", ""), ("fb", "GZIP"), ("fb", "LZ4"), ("fb", "BZ2"), ("fb", "LZMA"), ("fb", "ZSTD"), ("fb", "ZLIB"), ("npz", ""), ("npz", "ZIP"), ("tfrec", ""), ("tfrec", "GZIP"), ("tfrec", "ZLIB")]
            if ctx.thorough else [("fb", ["", "LZ4", "ZSTD", "BZ2", "GZIP", "LZMA", "ZLIB"][ctx.seed % 7]), ("fb", "LZ4" if ctx.seed % 7 != 1 else "GZIP"), ("npz", ""), ("tfrec", "GZIP")])
    results, skipped, distinct, tolerated = [], 0, set(), 0
    for fi, (fmt, comp) in enumerate(fmts):
        nshards = 5
        root = ctx.scratch / f"c07_{fi}"
        damages = ["deleted", "emptied", "garbage", "truncated", "tail-cut", "tail-flip", "zeroed", "ones"]
        positions = [0, nshards // 2, nshards - 1]
        ifaces = [i for i in I.IFACES if I.supports(i, fmt, comp)]
        plan = []
        for dmg in damages:
            for pos in positions:
                for iface in ifaces:
                    for shuffle in (0, 4):
                        for T in ([1, 3] if iface in ("concurrent", "rust", "async", "tf") else [1]):
                            plan.append((dmg, pos, iface, shuffle, T))
        if not ctx.thorough:
            # a sample, plus directed passes that are always there: every interface x {deleted, garbage} at the middle shard x
            # shuffle off/on at the larger parallelism (a sampling stride once dropped tf/shuffled/deleted from the quick tier)
            plan = [p for k, p in enumerate(plan) if (k * 7 + fi) % 5 == 0
                    or (p[0] in ("deleted", "garbage") and p[1] == nshards // 2 and p[4] == (3 if p[2] in ("concurrent", "rust", "async", "tf") else 1))
                    or (p[0] in ("zeroed", "ones") and p[1] in (0, nshards // 2) and p[2] == "rust" and p[3] == 0)]
        by_damage = collections.defaultdict(list)
        for p in plan: by_damage[(p[0], p[1])].append(p)
        groups = [{"damage": d, "pos": pos, "passes": [{"iface": i, "shuffle": sh, "T": T} for (_, _, i, sh, T) in ps]} for (d, pos), ps in by_damage.items()]
        arg = {"root": str(root), "fmt": fmt, "comp": comp, "nshards": nshards, "groups": groups, "watchdog": WATCHDOG, "seed": rng.randrange(1 << 30)}
        try:
            res = child.call("harness.checks.c07", "format_group", arg, timeout=WATCHDOG * 4 + 300)
        except (child.ChildTimeout, child.ChildError) as e:
            # a native hang / crash: report it against the whole group (the replay re-runs it)
            ctx.report({"kind": "hang-or-crash", "iface": "group"}, f"{fmt}/{comp or '-'}: the pass group did not finish ({type(e).__name__})", {"case": arg})
            continue
        for g in res["groups"]:
            if g["skipped"]:
                # the format library reads the damaged file without complaint (e.g. a zero-filled FlatBuffers file is a table without
                # fields): an interface may read it too — but a pass that ends normally still has every example of the *other* shards
                skipped += len(g["passes"])
                undamaged = [x for k_, x in enumerate(res["written"]) if k_ // 2 != g["pos"]]
                for r in g["passes"]:
                    r.update({"fmt": fmt, "comp": comp, "damage": g["damage"], "pos": g["pos"]})
                    lost = sorted(set(undamaged) - set(r.get("got", []))) if r["outcome"] == "ended" else []
                    if r["outcome"] == "hang" or lost or (r["outcome"] == "ended" and len(set(r["got"])) != len(r["got"])):
                        ctx.report({"kind": r["outcome"], "iface": r["iface"], "decoder_tolerates": True},
                                   f"{fmt}/{comp or '-'} shard {g['pos']} {g['damage']}: {r['iface']} shuffle={r['shuffle']} T={r['T']} -> {r['outcome']}"
                                   + (f" without the examples {lost[:6]} of undamaged shards (yielded {r.get('n')} of {len(res['written'])})" if lost else ""),
                                   {"case": {k: r[k] for k in ("fmt", "comp", "damage", "pos", "iface", "shuffle", "T")}, "result": r})
                continue
            for r in g["passes"]:
                r.update({"fmt": fmt, "comp": comp, "damage": g["damage"], "pos": g["pos"]})
                results.append(r)
                distinct.add((fmt, g["damage"], r["iface"], r["shuffle"] > 0))
                complete = r["outcome"] == "ended" and sorted(r.get("got", [])) == sorted(res["written"]) and r.get("n") == len(res["written"])
                if complete:
                    tolerated += 1          # this interface's decoder read the damaged file completely: nothing was skipped
                elif r["outcome"] != "raised":
                    ctx.report({"kind": r["outcome"], "iface": r["iface"]},
                               f"{fmt}/{comp or '-'} shard {g['pos']} {g['damage']}: {r['iface']} shuffle={r['shuffle']} T={r['T']} -> {r['outcome']}"
                               + (f" after yielding {r.get('n')} of {len(res['written'])} examples" if r["outcome"] == "ended" else ""),
                               {"case": {k: r[k] for k in ("fmt", "comp", "damage", "pos", "iface", "shuffle", "T")}, "result": r})
    # ---- correspondence: the lazy pool with a failing loader under the deterministic scheduler
    from harness.checks import c13
    pargs = [{"T": T, "n": n, "fail": [i], "seed": rng.randrange(1 << 30), "reuse": False} for T in (1, 2, 3) for n in (1, 4, 9) for i in sorted({0, n // 2, n - 1})]
    # many schedules of the smallest configurations (a failing last input with 1-2 workers): the windows between "the consumer gave up
    # waiting", "the worker reported" and "the worker is gone" are a few steps wide
    pargs += [{"T": T, "n": n, "fail": [n - 1], "seed": rng.randrange(1 << 30), "reuse": False} for T in (1, 2) for n in (1, 2, 3) for _ in range(ctx.pick(40, 200))]
    pres = child.call("harness.checks.c13", "run_cases", pargs, timeout=900)
    reqs = [{"m": "pool", "T": r["case"]["T"], "P": r["P"] or 2 * r["case"]["T"] + 2, "n": r["case"]["n"], "fails": r["case"]["fail"], "forward": True,
             "trace": c13.fix_labels(r)} for r in pres]
    reps = lean.driver(reqs)
    corr_bad = []
    for r, rep in zip(pres, reps):
        if r["status"] != "raised" or r["stuck"]:
            ctx.report({"kind": "pool-" + r["status"], "iface": "lazy_pool"}, f"LazyPool with a failing input: status {r['status']}, stuck workers {r['stuck']}", {"case": r["case"]})
        elif not rep.get("ok") or not rep.get("terminal") or not rep.get("ph", "").startswith("fin:1"):
            corr_bad.append({"case": r["case"], "model": rep})
    if corr_bad and not ctx.violations and not ctx.known_hits:
        ctx.report({"kind": "correspondence"}, f"M-POOL does not accept / does not end in the re-raised state: {corr_bad[0]}",
                   {"correspondence": "M-POOL accepts(trace with failing input)", "theorem": "Sedpack.Pool.C07_pool_fault_raises", "cases": corr_bad[:3]}, name="corr", nofail=True)
    # ---- Rust: failures do not accumulate: hundreds of passes (more than any small fixed pool of slots / handles a reader might keep) over a split with a missing shard in one process all raise, none hangs
    ra = {"root": str(ctx.scratch / "c07_retry"), "comp": ["LZ4", ""][ctx.seed % 2], "attempts": ctx.pick(330, 1200), "progress": str(ctx.scratch / "c07_retry.progress")}
    try:
        outs = child.call("harness.checks.c07", "rust_repeated_failures", ra, timeout=240, env={"RUST_BACKTRACE": "0"})
        bad = [(k, o) for k, o in enumerate(outs) if o != "raised"]
        if bad:
            ctx.report({"kind": "ended", "iface": "rust", "repeated": True}, f"Rust pass number {bad[0][0] + 1} over a split with a missing shard (same process, earlier passes failed too): {bad[0][1]}", {"case": ra, "outcomes": outs[:100]})
    except child.ChildTimeout:
        done = Path(ra["progress"]).read_text() if Path(ra["progress"]).exists() else "0"
        ctx.report({"kind": "hang", "iface": "rust", "repeated": True},
                   f"repeated Rust passes over a split with a missing shard in one process: attempt {int(done) + 1} of {ra['attempts']} did not return within 240 s (the earlier ones raised within milliseconds)", {"case": ra, "completed": done})
    ctx.cov["rust_repeated_failures"] = ra["attempts"]
    # ---- Rust: parallel_map with a mapped function that panics on one item (cargo harness of C15, SEDPACK_VERIF hook): the pass
    # raises, never ends short; the recorded channel operations — plus the consumer's failing `next`, which logs nothing — are
    # accepted by M-PMAP's fault-aware step (`fstep`, repaired `next`) and leave the model failed with the same output
    from harness.checks import c15
    c15.cargo_harness(ctx, long_stall_ms=1)
    faults = list(c15.FAULTS)
    freqs, fmeta = [], []
    for t in faults:
        exp = [x * 10 for x in range(t["j"])]
        if not t["raised"]:
            ctx.report({"kind": "ended", "iface": "parallel_map"},
                       f"parallel_map(n={t['n']}, threads={t['threads']}) whose function panics on item {t['j']} ended normally after {len(t['out'])} of {t['n']} results", {"case": {k: t[k] for k in ("n", "threads", "j", "out")}})
        elif t["out"] != exp:
            ctx.report({"kind": "order-or-truncation", "iface": "parallel_map"},
                       f"parallel_map(n={t['n']}, threads={t['threads']}) with a panic on item {t['j']} had returned {t['out']} (expected {exp}) when it raised", {"case": {k: t[k] for k in ("n", "threads", "j", "out")}})
        labs, dropped = [], False
        for tok in t["trace"].split():
            k, w = tok[0], int(tok[1:])
            if k == "d":
                if t["raised"]:
                    labs.append(["n"])          # the call of `next` that panicked (it logs nothing), just before the unwinding drops the iterator
                labs.append(["d"]); dropped = True
            elif k == "n":
                labs.append(["n"])
            elif not dropped:
                labs.append([k, w])
        freqs.append({"m": "pmapfault", "threads": t["threads"], "n": t["n"], "fails": [t["j"]], "trace": labs}); fmeta.append((t, labs))
    freps = lean.driver(freqs) if freqs else []
    fbad = []
    for (t, labs), rep in zip(fmeta, freps):
        upto = labs.index(["d"]) if ["d"] in labs else len(labs)
        if (not rep["ok"] and rep["at"] < upto) or rep["failed"] != t["raised"] or [x * 10 for x in rep["out"]] != t["out"]:
            fbad.append({"case": {k: t[k] for k in ("n", "threads", "j", "raised", "out")}, "model": rep, "label": labs[rep["at"]] if rep["at"] < len(labs) else None})
    if (fbad or not faults) and not ctx.violations:
        ctx.report({"kind": "correspondence-rust-fault"}, f"M-PMAP (fault-aware) does not reproduce the recorded run with a panicking function: {json.dumps(fbad[0] if fbad else 'no fault case recorded')[:300]}",
                   {"correspondence": "M-PMAP fstep accepts(recorded channel operations with a panicking item) and fails where the real next() panics",
                    "theorem": "Sedpack.PMap.C07_rust_dead_worker_is_reported", "cases": fbad[:3]}, name="corr-rust", nofail=True)
    ctx.cov["rust_fault_runs"] = len(faults)
    ctx.cov["rust_fault_traces_accepted"] = len(faults) - len(fbad)
    ctx.cov.update({
        "evaluations": len(results) + len(pres), "distinct_nontrivial": len(distinct), "traces_validated_against_impl": len(pres) - len(corr_bad),
        "passes_under_the_weaker_demand_because_the_format_library_accepts_the_file": skipped, "passes_that_delivered_everything_despite_damage": tolerated,
        "rule": "datasets of 5 shards (fb, npz, tfrec; compressions); damage in {deleted, emptied, garbage, truncated to half, last 4 bytes cut, bit flipped in the last 3 bytes, zero-filled, 0xFF-filled} at the first / middle / last shard; every interface, "
                "shuffle 0 and 4, file_parallelism 1 and 3; each pass in its own process under a 60 s watchdog; outcome must be 'raised' (or, when that interface's decoder tolerates the damage, the *complete* set of examples); plus the lazy pool with a failing "
                "loader under the deterministic scheduler (trace accepted by M-POOL, ending in the re-raised terminal state)",
        "samples": results[:3],
        "input_distribution": {"outcomes": collections.Counter(r["outcome"] for r in results), "by_iface": collections.Counter(r["iface"] for r in results),
                               "by_damage": collections.Counter(r["damage"] for r in results), "max_secs": max([r["secs"] for r in results] or [0])},
    })
