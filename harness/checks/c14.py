"""C14 — bounded read-ahead.  Lean: SedpackProps/C14.lean (bounds in every reachable state of the
shuffle-buffer / round-robin monitors, the lazy-pool LTS and the batching function).
Correspondence: the real generators on counting sources (finite and infinite, with early `take`);
the measured read-ahead at every step equals what the monitor computes from the same trace.
Oracle (model independent): read-ahead never exceeds the configured bound and does not depend on the
length of the input; taking k elements from an infinite stream terminates; end to end, the number of
shard files opened for k examples from a repeating stream is bounded independently of the dataset size."""
from __future__ import annotations
import collections, itertools, json, math, shutil
from harness.core import lean, sp, child
from harness.checks import iter_common as I

ASSUMPTIONS = ["the bound concerns source elements read/decoded (shard files opened), not the list of shard path strings",
               "memory held inside TensorFlow is out of scope; for the Rust reader the bound is on items pulled from the shard list by parallel_map (one outstanding task per worker), measured in a cargo harness"]
TRUSTED = ["modelled-not-verified: tf.data prefetching, Rust worker threads"]


def ahead_sb(log):
    p = y = m = 0
    for l in log:
        if l[0] == "pull" and l[1] is not None: p += 1
        elif l[0] == "yield": y += 1
        m = max(m, p - y)
    return m, p, y


def ahead_rr(log):
    o = c = m = 0
    for l in log:
        if l[0] == "open": o += 1
        elif l[0] == "innerEnd": c += 1
        m = max(m, o - c)
    return m, o, c


def run_pool(args):
    """(child) the real LazyPool on a counting source: max(pulled - yielded) for several lengths."""
    sp.sedpack()
    from sedpack.io.itertools import LazyPool
    out = []
    for a in args:
        T, n, take = a["T"], a["n"], a["take"]
        pulled = {"n": 0}
        def src():
            for i in (itertools.count() if n is None else range(n)):
                pulled["n"] += 1; yield i
        mapped = {"n": 0}
        def f(x, _m=mapped):          # (bound now: worker threads of the previous case may still be draining their queue)
            _m["n"] += 1; return x
        # the input as a generator (pulls are counted at the source) or as a sized container (list / tuple / range: what is read ahead
        # is what the mapped function has been applied to)
        kind = a.get("input", "generator")
        inp = src() if kind == "generator" else {"list": list, "tuple": tuple, "range": lambda r: r}[kind](range(n))
        mx, got = 0, 0
        with LazyPool(T) as pool:
            for y in pool.imap_unordered(f, inp):
                got += 1
                if kind != "generator":
                    import time as _t
                    _t.sleep(0.002)          # let the workers run as far ahead as they are allowed to
                mx = max(mx, (pulled["n"] if kind == "generator" else mapped["n"]) - got)
                if take is not None and got >= take: break
        out.append(dict(a, max_ahead=mx, pulled=pulled["n"] if kind == "generator" else mapped["n"], got=got))
    return out


def run_e2e(args):
    """(child) count shard opens for k examples of a repeating stream."""
    sp.sedpack()
    from sedpack.io import Dataset
    from sedpack.io.flatbuffer import IterateShardFlatBuffer
    from sedpack.io.npz import IterateShardNP
    opens = {"n": 0}
    def wrap(cls, name, is_async=False):
        orig = getattr(cls, name)
        if is_async:
            async def w(self, p, _o=orig):
                opens["n"] += 1
                async for e in _o(self, p): yield e
        elif name == "iterate_shard":
            def w(self, file_path, _o=orig):
                opens["n"] += 1
                yield from _o(self, file_path)
        else:
            def w(self, shard_file, _o=orig):
                opens["n"] += 1
                return _o(self, shard_file)
        setattr(cls, name, w); return orig
    out = []
    for a in args:
        res = []
        for nshards in a["sizes"]:
            root = a["root"] + f"_{nshards}"
            ds, _ = I.build_dataset(root, a["fmt"], "", a["eps"], [{"sub": ".", "writes": [(0, nshards * a["eps"])]}])
            for cls in (IterateShardFlatBuffer, IterateShardNP):
                saved = [(n, wrap(cls, n, n == "iterate_shard_async")) for n in ("iterate_shard", "iterate_shard_async", "process_and_list")]
                cls._saved = saved
            try:
                for iface, shuffle, T in a["configs"]:
                    import threading
                    for t in threading.enumerate():          # let the previous run's pool workers drain first
                        if t is not threading.current_thread() and not t.daemon:
                            t.join(timeout=10)
                    opens["n"] = 0
                    try:
                        real_iface, rep_ = ("tf", False) if iface == "tf_norepeat" else (("concurrent", True) if iface == "concurrent_none" else (("concurrent", False) if iface == "concurrent_norepeat" else (iface, True)))
                        got, _ = I.run_iface(ds, real_iface, "train", shuffle=shuffle, T=T, repeat=rep_, take=a["k"])
                        # process_and_list calls iterate_shard: count each shard once
                        n_open = opens["n"] // (2 if real_iface in ("concurrent", "tf") else 1)
                        res.append({"iface": iface, "shuffle": shuffle, "T": T, "nshards": nshards, "opens": n_open, "got": len(got)})
                    except Exception as e:  # noqa: BLE001
                        res.append({"iface": iface, "shuffle": shuffle, "T": T, "nshards": nshards, "error": f"{type(e).__name__}: {str(e)[:150]}"})
            finally:
                for cls in (IterateShardFlatBuffer, IterateShardNP):
                    for n, o in cls._saved: setattr(cls, n, o)
            shutil.rmtree(root, ignore_errors=True)
        out.append({"case": {k: a[k] for k in a if k != "root"}, "res": res})
    return out


def slow_head(a):
    """(child) the unshuffled concurrent interface with ONE slow shard at the head of the line (its `process_record` sleeps) and fast
    shards behind it: how many shards have been started by the time the first example arrives — with a finite and with a repeating
    stream.  The workers that are free meanwhile may not run ahead without limit."""
    import time, threading
    sp.sedpack()
    from sedpack.io import Dataset
    root = a["root"]
    ds, _ = I.build_dataset(root, a["fmt"], "", 2, [{"sub": ".", "writes": [(0, 2 * a["nshards"])]}])
    ds = Dataset(root)
    out = []
    for repeat in (False, True):
        started = set(); lock = threading.Lock()
        def pr(e, _s=started):
            i = sp.ident(e)
            with lock: _s.add(i // 2)
            if i // 2 == a["slow_shard"]:
                time.sleep(a["sleep"] / 2)          # (two examples per shard)
            return e
        t0 = time.time()
        it = iter(ds.as_numpy_iterator_concurrent(split="train", repeat=repeat, shuffle=0, file_parallelism=a["T"], process_record=pr))
        first = sp.ident(next(it))
        with lock: n0 = len(started)
        got = [first] + [sp.ident(next(it)) for _ in range(5)]
        with lock: n1 = len(started)
        it.close()
        out.append({"repeat": repeat, "first": first, "shards_started_at_first_example": n0, "after_six": n1, "got": got, "secs": round(time.time() - t0, 2)})
        time.sleep(0.3)
    shutil.rmtree(root, ignore_errors=True)
    return out


def bound_opens(iface, shuffle, T, k, eps):
    need = math.ceil(k / eps)
    if iface == "sync":
        return math.ceil((k + shuffle + 1) / eps) + 1
    if iface in ("concurrent", "concurrent_none", "concurrent_norepeat"):
        import os
        T = T or (os.cpu_count() or 1)
        return need + (3 * T + 3 if shuffle else T) + 1
    if iface == "async":
        return need + (T if shuffle else 0) + 1
    if iface in ("tf", "tf_norepeat"):
        # tf.data drives the concurrent generator and may prefetch a few examples (prefetch=1, tf's own shuffle buffer of `shuffle` examples)
        import os
        T = T or (os.cpu_count() or 1)          # file_parallelism=None: the pool takes one worker per core
        return math.ceil((k + 2 + shuffle) / eps) + (3 * T + 3 if shuffle else T) + 4
    return None


def rust_readahead(ctx):
    """parallel_map driven directly (the cargo harness of C15): items pulled from the input iterator for k results, and by the
    time the iterator is dropped, never exceed k + threads."""
    from harness.checks import c15
    lines, traces, rc, tail = c15.cargo_harness(ctx, long_stall_ms=1)
    n = 0
    for l in lines:
        if l["kind"] != "drop":
            continue
        n += 1
        allowed = l["k"] + min(l["threads"], l["n"])
        if max(l.get("pulled", 0), l.get("pulled_before_drop", 0)) > allowed:
            ctx.report({"kind": "rust-read-ahead", "iface": "rust"},
                       f"parallel_map(n={l['n']}, threads={l['threads']}): {l.get('pulled_before_drop')} items pulled for {l['k']} results, {l.get('pulled')} by the time the iterator "
                       f"was dropped (bound {allowed})", {"case": l})
    if not n:
        raise RuntimeError(f"cargo harness produced no drop case (rc={rc}): {tail[-300:]}")
    # the recorded channel operations: nothing pulls more work once the iterator is dropped (a `next` after `drop`)
    late = [t for t in traces if "d0" in t["trace"].split() and "n" in [x[0] for x in t["trace"].split()[t["trace"].split().index("d0"):]]]
    if late and not ctx.violations:
        ctx.report({"kind": "rust-read-ahead", "iface": "rust", "what": "next-after-drop"},
                   f"parallel_map keeps calling next() while it is being dropped (n={late[0]['n']}, threads={late[0]['threads']}, k={late[0]['k']})", {"case": {k: late[0][k] for k in ("n", "threads", "k")}})
    return n


def value_kinds(ctx):
    """The bounds do not depend on *what* flows through the stages: streams of None / falsy / unhashable / array elements
    (a `process_record` used for its side effect returns None; 0, "", [] and empty arrays are ordinary examples)."""
    sp.sedpack()
    import numpy as np
    from sedpack.io.itertools import shuffle_buffer, round_robin, LazyPool
    kinds = {"None": [None], "falsy": [0, False, "", (), 0.0], "lists": [[], [1], {}], "arrays": [np.zeros(0), np.zeros(3), np.array(None, dtype=object)],
             "nan": [float("nan")], "mixed": [None, 1, None, "x", [], None]}
    n = 0
    for name, vals in kinds.items():
        for b in (1, 4, 16):
            for take in (1, 7):
                # ---- shuffle_buffer on an endless stream
                pulled = {"n": 0}
                def src():
                    for i in itertools.count():
                        pulled["n"] += 1
                        if pulled["n"] > 400: raise RuntimeError("pull-limit")
                        yield vals[i % len(vals)]
                got, err = 0, None
                try:
                    for y in shuffle_buffer(src(), buffer_size=b):
                        got += 1
                        if got >= take: break
                except Exception as e:  # noqa: BLE001
                    err = f"{type(e).__name__}: {e}"
                n += 1
                if err or pulled["n"] > take + b + 1:
                    ctx.report({"kind": "readahead", "stage": "shuffle_buffer", "values": name},
                               f"shuffle_buffer(b={b}) over a stream of {name} elements pulled {pulled['n']} elements for {got} yielded ({err or 'bound ' + str(take + b + 1)})",
                               {"values": name, "b": b, "take": take, "pulled": pulled["n"], "yielded": got})
                # ---- a finite stream comes out whole
                m = 2 * b + 3
                out = list(shuffle_buffer((vals[i % len(vals)] for i in range(m)), buffer_size=b))
                n += 1
                if len(out) != m:
                    ctx.report({"kind": "stage-loses-elements", "stage": "shuffle_buffer", "values": name},
                               f"shuffle_buffer(b={b}) over {m} {name} elements yielded {len(out)}", {"values": name, "b": b, "n": m, "yielded": len(out)})
                # ---- round_robin over endless inner streams of such values
                opened = {"n": 0}
                def inner(j):
                    for i in itertools.count(): yield vals[(i + j) % len(vals)]
                def outer():
                    for j in itertools.count():
                        opened["n"] += 1
                        if opened["n"] > 400: raise RuntimeError("pull-limit")
                        yield inner(j)
                got, err = 0, None
                try:
                    for y in round_robin(outer(), buffer_size=b):
                        got += 1
                        if got >= take: break
                except Exception as e:  # noqa: BLE001
                    err = f"{type(e).__name__}: {e}"
                n += 1
                if err or opened["n"] > b + 1:
                    ctx.report({"kind": "readahead", "stage": "round_robin", "values": name},
                               f"round_robin(b={b}) over inner streams of {name} elements opened {opened['n']} inner iterators for {got} yielded ({err or 'bound ' + str(b + 1)})",
                               {"values": name, "b": b, "take": take, "opened": opened["n"], "yielded": got})
        # ---- LazyPool whose mapped function returns such values
        for T in (1, 3):
            pulled = {"n": 0}
            def src2():
                for i in itertools.count():
                    pulled["n"] += 1
                    if pulled["n"] > 400: raise RuntimeError("pull-limit")
                    yield i
            got, err = 0, None
            try:
                with LazyPool(T) as pool:
                    for y in pool.imap_unordered(lambda i: vals[i % len(vals)], src2()):
                        got += 1
                        if got >= 5: break
            except Exception as e:  # noqa: BLE001
                err = f"{type(e).__name__}: {e}"
            n += 1
            if err or pulled["n"] > 5 + 3 * T + 3:
                ctx.report({"kind": "readahead", "stage": "lazy_pool", "values": name},
                           f"LazyPool({T}) mapping to {name} results pulled {pulled['n']} inputs for {got} results ({err or 'bound'})", {"values": name, "T": T, "pulled": pulled["n"]})
    return n


def value_kinds_child(_args):
    class Rec:
        def __init__(self): self.violations = []
        def report(self, sig, what, replay): self.violations.append((sig, what, json.loads(json.dumps(replay, default=str))))
    r = Rec()
    return {"n": value_kinds(r), "violations": r.violations}


def run(ctx):
    rng = ctx.rng("c14")
    # ---- stage level
    reqs, obs = [], []
    for b in [1, 2, 3, 7]:
        for n in [0, 1, b - 1, b, b + 1, 3 * b + 2, 50]:
            if n < 0: continue
            log, out, err = I.trace_sb(list(range(n)), b)
            obs.append(("sb", b, n, None, log, err)); reqs.append({"m": "sb", "b": b, "trace": log})
        for take in [1, b, 2 * b + 1]:
            log, out, err = I.trace_sb(0, b, take=take, infinite=True)          # infinite source
            obs.append(("sb", b, None, take, log, err)); reqs.append({"m": "sb", "b": b, "trace": log})
            inners = [list(range(i * 3, i * 3 + 3)) for i in range(40)]
            log, out, err = I.trace_rr(inners, b, take=take)
            obs.append(("rr", b, 40, take, log, err)); reqs.append({"m": "rr", "b": b, "trace": log})
        for k in [0, 1, b, b + 3]:
            inners = [list(range(i * 2, i * 2 + rng.choice([0, 1, 2]))) for i in range(k)]
            log, out, err = I.trace_rr(inners, b)
            obs.append(("rr", b, k, None, log, err)); reqs.append({"m": "rr", "b": b, "trace": log})
    # a non-positive buffer size (shuffle=-1 reaches the buffer) is refused by the code; whatever it does, it must not drain its source
    for b in (0, -1):
        log, out, err = I.trace_sb(0, b, take=1, infinite=True, pull_limit=50)
        pulled = sum(1 for l in log if l[0] == "pull" and l[1] is not None)
        if pulled >= 50:
            ctx.report({"kind": "readahead", "stage": "shuffle_buffer", "nonpositive_buffer": True},
                       f"shuffle_buffer(buffer_size={b}) pulled {pulled}+ elements of an endless source before yielding anything", {"b": b, "trace": log[:20]})
    # a buffer size of None (what `os.cpu_count()` may return, what a caller passes for "default"): refused or given some finite
    # meaning — never "no limit": with 200 inner iterables waiting, the first element must not cost opening all of them
    inners200 = [list(range(i * 2, i * 2 + 2)) for i in range(200)]
    log, out, err = I.trace_rr(inners200, None, take=1)
    opened = sum(1 for l in log if l[0] == "open")
    if not err and opened >= 200:
        ctx.report({"kind": "readahead", "stage": "round_robin", "buffer_none": True},
                   f"round_robin(buffer_size=None) opened all {opened} inner iterables before handing out its first element", {"b": None, "opened": opened, "trace": log[:10]})
    log, out, err = I.trace_sb(0, None, take=1, infinite=True, pull_limit=400)
    pulled = sum(1 for l in log if l[0] == "pull" and l[1] is not None)
    if pulled >= 400:
        ctx.report({"kind": "readahead", "stage": "shuffle_buffer", "buffer_none": True},
                   f"shuffle_buffer(buffer_size=None) pulled {pulled}+ elements of an endless source before yielding anything", {"b": None, "trace": log[:10]})
    reps = lean.driver(reqs)
    corr_bad = []
    for (kind, b, n, take, log, err), rep in zip(obs, reps):
        if err:
            ctx.report({"kind": "stage-error", "stage": kind}, f"{kind}(b={b}) raised {err}", {"stage": kind, "b": b, "n": n, "take": take}); continue
        if kind == "sb":
            m, p, y = ahead_sb(log)
            if m > b + 1 or (take is not None and p > take + b + 1):
                ctx.report({"kind": "readahead", "stage": "shuffle_buffer"}, f"shuffle_buffer(b={b}) pulled {p} for {y} yielded (max ahead {m} > b+1)",
                           {"b": b, "n": n, "take": take, "trace": log[:80]}); continue
            if not rep.get("ok") or rep.get("max_ahead") != m:
                corr_bad.append({"stage": kind, "b": b, "n": n, "take": take, "measured": m, "model": rep})
        else:
            m, o, c = ahead_rr(log)
            if m > b:
                ctx.report({"kind": "readahead", "stage": "round_robin"}, f"round_robin(b={b}) had {m} inner iterators open",
                           {"b": b, "n": n, "take": take, "trace": log[:80]}); continue
            if not rep.get("ok") or rep.get("max_open") != m:
                corr_bad.append({"stage": kind, "b": b, "n": n, "take": take, "measured": m, "model": rep})
    # ---- lazy pool: independent of the input length, bounded by a function of T
    pargs = [{"T": T, "n": n, "take": take} for T in [1, 2, 4] for (n, take) in [(60, None), (600, None), (None, 25), (None, 3)]]
    pargs += [{"T": T, "n": 500, "take": 3, "input": kind} for T in [1, 3] for kind in ("list", "tuple", "range")]
    pres = child.call("harness.checks.c14", "run_pool", pargs, timeout=300)
    byT = collections.defaultdict(list)
    for r in pres:
        byT[r["T"]].append(r)
        if r["max_ahead"] > 3 * r["T"] + 3:
            ctx.report({"kind": "readahead", "stage": "lazy_pool"}, f"LazyPool({r['T']}) ran {r['max_ahead']} inputs ahead of its consumer (n={r['n']})", {"run": r})
    for T, rs in byT.items():
        full = [r["max_ahead"] for r in rs if r["take"] is None and r.get("input", "generator") == "generator"]
        if len(set(full)) > 1:
            ctx.report({"kind": "readahead-depends-on-length", "stage": "lazy_pool"}, f"LazyPool({T}) read-ahead depends on the input length: {full}", {"runs": rs})
    # ---- lazy pool under adversarial schedules (the scheduler always prefers the workers / the consumer)
    sargs = [{"T": T, "n": n, "stop_after": take, "policy": pol, "pull_limit": 400, "seed": 1}
             for T in [1, 2, 3] for (n, take) in [(None, 3), (150, 3), (40, None)] for pol in ["workers_first", "consumer_first"]]
    sres = child.call("harness.checks.c13", "run_cases", sargs, timeout=600)
    for r in sres:
        a = r["case"]; T = a["T"]
        ahead = r["pulled"] - len(r["got"])
        if r.get("exc") == "pull-limit" or r["status"] != "done" or ahead > 3 * T + 3:
            ctx.report({"kind": "readahead", "stage": "lazy_pool", "schedule": a["policy"]},
                       f"LazyPool({T}) under the {a['policy']} schedule pulled {r['pulled']} inputs for {len(r['got'])} results (n={a['n']}, status {r['status']} {r.get('exc', '')})",
                       {"case": a, "pulled": r["pulled"], "got": len(r["got"]), "labels": r["labels"][:60]})
    # ---- end to end: shard opens for k examples of a repeating stream
    eargs = []
    for i, fmt in enumerate(["fb", "npz"]):
        eps = 2
        cfgs = [("sync", 0, 1), ("sync", 5, 1), ("concurrent", 0, 2), ("concurrent", 3, 2), ("async", 0, 2), ("async", 3, 2),
                # tf.data over the concurrent generator; file_parallelism=None is an accepted value of as_tfdataset (kept to a
                # finite pass so that a reader which takes "everything" as one batch terminates)
                ("tf", 0, 2), ("tf", 3, 2), ("tf_norepeat", 0, None),
                # file_parallelism=None given to the shuffled concurrent interface: refused, or some finite default (the unshuffled branch
                # is left out: `islice(paths, None)` is documented Python for "everything", and None is outside the declared `int`)
                # a *finite* shuffled pass (repeat=False) through the concurrent interface, stopped after k examples
                ("concurrent_norepeat", 3, 2)]
        eargs.append({"root": str(ctx.scratch / f"c14_{i}"), "fmt": fmt, "eps": eps, "k": 7, "sizes": [12, 40] if not ctx.thorough else [12, 40, 160], "configs": cfgs})
    # file_parallelism=None given to the *shuffled* concurrent interface: refused (it is not an int), or given some finite meaning — in a
    # child of its own with a short watchdog: never producing the k examples of a repeating stream is unbounded read-ahead
    na = [{"root": str(ctx.scratch / "c14_none"), "fmt": "npz", "eps": 2, "k": 7, "sizes": [40], "configs": [("concurrent_none", 3, None)]}]
    try:
        eres_none = child.call("harness.checks.c14", "run_e2e", na, timeout=150)
    except child.ChildTimeout:
        eres_none = []
        ctx.report({"kind": "opens", "iface": "concurrent_none", "shuffled": True, "hang": True},
                   "as_numpy_iterator_concurrent(shuffle=3, file_parallelism=None, repeat=True) over 40 shards did not deliver 7 examples within 150 s (normally: refused at once, or a fraction of a second)", {"case": {k: v for k, v in na[0].items() if k != "root"}})
    # a pass that goes beyond the first batch of a reader with file_parallelism=None (one worker per core): more examples than two such
    # batches hold, from datasets of three and six batches — the second and later batches are as bounded as the first
    import os as _os
    ncpu = _os.cpu_count() or 1
    eargs.append({"root": str(ctx.scratch / "c14_long"), "fmt": ["npz", "fb"][ctx.seed % 2], "eps": 2, "k": 2 * ncpu * 2 + 3, "sizes": [3 * ncpu, 6 * ncpu],
                  "configs": [("tf_norepeat", 0, None), ("concurrent", 0, ncpu)]})
    eres = child.call("harness.checks.c14", "run_e2e", eargs, timeout=900) + eres_none
    nrun = 0
    for r in eres:
        grp = collections.defaultdict(list)
        for x in r["res"]:
            nrun += 1
            if "error" in x and x["iface"] == "concurrent_none":
                continue            # refusing None is fine (it is not an int); running away with it is not
            if "error" in x:
                ctx.report({"kind": "e2e-error", "iface": x["iface"]}, f"{x['iface']} repeat=True take: {x['error']}", {"case": r["case"], "run": x}); continue
            bd = bound_opens(x["iface"], x["shuffle"], x["T"], r["case"]["k"], r["case"]["eps"])
            if x["got"] != r["case"]["k"] or (bd is not None and x["opens"] > bd):
                ctx.report({"kind": "opens", "iface": x["iface"], "shuffled": x["shuffle"] > 0},
                           f"{x['iface']} shuffle={x['shuffle']} T={x['T']}: {x['opens']} shard files opened for {x['got']} examples (bound {bd}, {x['nshards']} shards)",
                           {"case": r["case"], "run": x})
            grp[(x["iface"], x["shuffle"], x["T"])].append(x["opens"])
        for key, v in grp.items():
            import os
            # how far the count may differ between two runs for reasons of timing alone: tf.data prefetches in its own threads (None = one
            # worker per core); the concurrent interface starts the shards of one batch on T threads, and the count is taken when the
            # consumer stops — up to T-1 shards of the current batch may not have been started yet
            Tk = key[2] or (os.cpu_count() or 1)
            tol = Tk + 2 if key[0].startswith("tf") else (max(1, Tk - 1) if key[0].startswith("concurrent") else 1)
            if max(v) - min(v) > tol and key[1] == 0:
                ctx.report({"kind": "opens-depend-on-size", "iface": key[0]}, f"{key}: shard opens vary with the dataset size: {v}", {"case": r["case"]})
    # ---- one slow shard at the head of the line, fast shards behind it (unshuffled concurrent interface)
    sh = {"root": str(ctx.scratch / "c14_slowhead"), "fmt": ["npz", "fb"][ctx.seed % 2], "nshards": 60, "T": 4, "slow_shard": 0, "sleep": 1.2}
    for r in child.call("harness.checks.c14", "slow_head", sh, timeout=600):
        nrun += 1
        if r["shards_started_at_first_example"] > 2 * sh["T"] + 1 or r["got"] != list(range(6)):
            ctx.report({"kind": "opens", "iface": "concurrent", "slow_head_of_line": True, "repeat": r["repeat"]},
                       f"concurrent shuffle=0 T={sh['T']} repeat={r['repeat']} with a slow first shard: {r['shards_started_at_first_example']} of {sh['nshards']} shards had been started when the first example arrived "
                       f"(one batch of {sh['T']} is what the interface promises), examples {r['got']}", {"slow_head_case": {k: v for k, v in sh.items() if k != 'root'}, "run": r})
    nrust = rust_readahead(ctx)
    nvk = child.call("harness.checks.c14", "value_kinds_child", [], timeout=300)
    for v in nvk["violations"]:
        ctx.report(v[0], v[1], v[2])
    ctx.cov["value_kind_runs"] = nvk["n"]
    ctx.cov["rust_drop_cases"] = nrust
    if corr_bad and not ctx.violations and not ctx.known_hits:
        ctx.report({"kind": "correspondence"}, "read-ahead measured on the real generator differs from the monitor's",
                   {"correspondence": "M-ITER max_ahead/max_open vs measured", "theorem": "Sedpack.Pipe.C14_shuffle_buffer_readahead / C14_round_robin_readahead", "cases": corr_bad[:3]},
                   name="corr", nofail=True)
    ctx.cov.update({
        "evaluations": len(obs) + len(pres) + nrun + len(sres), "scheduled_pool_runs": len(sres), "distinct_nontrivial": len({(k, b, n, t) for k, b, n, t, *_ in obs}) + len(pres),
        "traces_validated_against_impl": len(obs) - len(corr_bad),
        "rule": "shuffle_buffer / round_robin on counting sources: b in {1,2,3,7}, lengths around b, infinite sources with take in {1,b,2b+1}; "
                "LazyPool(T) for T in {1,2,4} on inputs of length 60, 600 and infinite; end to end: shard files opened for 7 examples of a "
                "streams of None / falsy / unhashable / array elements through the three stages (bounds and completeness do not depend on the kind of value); repeating stream over datasets of 12/40(/160) shards through sync/concurrent/async, shuffled and not; Rust: items parallel_map pulls from its input "
                "for k results and by the time it is dropped (cargo harness, 1..9 threads, n up to 13), and no next() after drop in the recorded channel operations",
        "samples": [{"stage": k, "b": b, "n": n, "take": t, "trace": lg[:16]} for k, b, n, t, lg, _ in obs[8:10]] + pres[:2],
        "input_distribution": {"stage_traces": len(obs), "pool_runs": len(pres), "e2e_runs": nrun,
                               "pool_max_ahead": {str(T): sorted({r['max_ahead'] for r in rs}) for T, rs in byT.items()}},
    })
