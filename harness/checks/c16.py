"""C16 — recorded checksums are the standard digests of the exact file bytes.

Lean: SedpackProps/C16.lean (chunks_concat, digest_is_standard, order_preserved, chunk_sizes) over
SedpackModel/Hash.lean.  Correspondence: the real `hash_checksums` is run with the OS `readinto`
replaced by one that delivers a chosen short-read pattern and with recording hash objects; the
slice lengths fed to *each* hash object must equal the model's `chunks` under the same pattern and
the measured buffer size.  Oracle (model-independent): every digest sedpack returns or records
equals an independent one-shot computation (hashlib/xxhash on the whole content, sha256sum CLI)."""
from __future__ import annotations
import hashlib, json, shutil, subprocess
from pathlib import Path
from harness.core import lean, sp

ASSUMPTIONS = ["hashlib/xxhash implement the named algorithms and obey the streaming law update(a);update(b)=update(a+b)",
               "a regular file's readinto returns 0 only at end of file"]
TRUSTED = ["modelled-not-verified: the digest algorithms themselves, CPython file objects"]
ALGOS = ["md5", "sha1", "sha224", "sha256", "sha384", "sha512", "sha3_224", "sha3_256", "sha3_384", "sha3_512",
         "xxh32", "xxh64", "xxh128"]


def independent(name: str, data: bytes) -> str:
    import xxhash
    if name.startswith("xxh"):
        return {"xxh32": xxhash.xxh32, "xxh64": xxhash.xxh64, "xxh128": xxhash.xxh128}[name](data).hexdigest()
    return hashlib.new(name, data).hexdigest()


def content(n: int) -> bytes:
    return bytes(i % 251 for i in range(n))


class Rec:
    def __init__(self, inner, log):
        self.inner, self.log = inner, log
    def update(self, b):
        self.log.append(len(b)); self.inner.update(b)
    def digest(self): return self.inner.digest()
    def hexdigest(self): return self.inner.hexdigest()


def pre_build(ctx):
    from harness import extract_tables as E
    E.gen_c16()


def run_impl(path: Path, names, wants):
    """Run the real hash_checksums under a short-read pattern. Returns (result, per-hash slice lengths, B)."""
    sp.sedpack()
    import sedpack.io.utils as U
    logs, meas = [], {"B": None, "k": 0}
    orig_get = U._get_hash_function
    def get(name):
        l = []; logs.append(l)
        return Rec(orig_get(name), l)
    import builtins
    class F:
        def __init__(self, *a, **k): self.f = builtins.open(*a, **k)
        def __enter__(self): return self
        def __exit__(self, *a): self.f.close()
        def readinto(self, mv):
            meas["B"] = len(mv)
            w = wants[meas["k"]] if meas["k"] < len(wants) else len(mv)
            meas["k"] += 1
            return self.f.readinto(mv[:max(1, min(w, len(mv)))])
        def read(self, *a): return self.f.read(*a)
    U._get_hash_function = get
    U.open = F
    try:
        res = U.hash_checksums(file_path=path, hashes=tuple(names))
    finally:
        U._get_hash_function = orig_get
        del U.open
    return res, logs, meas["B"]


def run(ctx):
    sp.sedpack()
    import sedpack.io.utils as U
    rng = ctx.rng("c16")
    d = ctx.scratch
    B0 = 128 * 1024
    sizes = [0, 1, 2, 250, B0 - 1, B0, B0 + 1, 2 * B0 - 1, 2 * B0, 2 * B0 + 1, 3 * B0 + 17]
    sizes += [rng.randrange(0, 4 * B0) for _ in range(ctx.pick(6, 60))]
    if ctx.thorough:
        sizes += [k * B0 + dlt for k in range(3, 9) for dlt in (-1, 0, 1)] + [20 * B0 + 5]
    cases, reqs = [], []
    for n in sizes:
        p = d / f"f{len(cases)}.bin"
        p.write_bytes(content(n))
        k = rng.choice([1, 1, 2, 3, 5, 13])
        names = [rng.choice(ALGOS) for _ in range(k)]
        if rng.random() < 0.3 and k > 1:
            names[-1] = names[0]            # repetition
        pat = rng.choice(["full", "short", "tiny", "mixed"])
        if pat == "full": wants = []
        elif pat == "short": wants = [rng.randrange(1, B0 + 1) for _ in range(12)]
        elif pat == "tiny": wants = [rng.choice([1, 2, 3, 7]) for _ in range(5)]
        else: wants = [rng.choice([1, B0 - 1, B0, B0 + 5, 0]) for _ in range(8)]
        cases.append((p, n, names, wants))
    # directed: every algorithm named twice (adjacent, apart, three times) — each occurrence is the standard digest of the file
    for j, a in enumerate(ALGOS):
        other = ALGOS[(j + 5) % len(ALGOS)]
        for names in ([a, a], [a, other, a], [other, a, a, a]):
            n = [1, 250, B0 + 1, 2 * B0 + 1][(j + len(names)) % 4]
            p = d / f"f{len(cases)}.bin"
            p.write_bytes(content(n))
            cases.append((p, n, names, [] if j % 2 else [rng.randrange(1, B0 + 1) for _ in range(4)]))
    # ---- implementation runs
    results = []
    for p, n, names, wants in cases:
        res, logs, B = run_impl(p, names, wants)
        plain = U.hash_checksums(file_path=p, hashes=tuple(names))      # un-instrumented run
        results.append((res, logs, B, plain))
        reqs.append({"m": "hash", "B": B or B0, "len": n, "wants": wants})
    replies = lean.driver(reqs)
    # ---- compare
    shapes = set()
    for (p, n, names, wants), (res, logs, B, plain), rep in zip(cases, results, replies):
        data = p.read_bytes()
        exp = tuple(independent(a, data) for a in names)
        case = {"size": n, "names": names, "wants": wants, "B": B}
        if res != exp or plain != exp or not all(isinstance(x, str) and x == x.lower() for x in res):
            ctx.report({"kind": "digest", "site": "hash_checksums"},
                       f"hash_checksums differs from the standard digest for size {n} names {names}",
                       {"case": case, "got": list(res), "plain": list(plain), "expected": list(exp)})
            continue
        if "error" in rep or not rep.get("concat_ok"):
            raise RuntimeError(f"driver: {rep}")
        model = rep["chunks"]
        if any(l != model for l in logs) or len(logs) != len(names):
            # correspondence broken; the oracle above passed on this case -> search wider below
            ctx.cov.setdefault("correspondence_mismatch", []).append({"case": case, "impl": logs[:1], "model": model})
        shapes.add((min(n, 3), len(model), len(names), bool(wants)))
    # ---- end-to-end: digests recorded in the metadata and returned by write_config
    e2e = 0
    for i in range(ctx.pick(3, 12)):
        fmt = rng.choice(["fb", "npz", "tfrec"])
        k = rng.choice([1, 2, 3, 13])
        names = rng.sample(ALGOS, k) if k <= 13 else ALGOS
        if i % 3 == 1:                      # a configured tuple may name an algorithm more than once
            names = names + [names[0]] + (["xxh64", "sha1", "xxh64"] if i % 2 else ["xxh128", "xxh32", "xxh128"])
        root = d / f"ds{i}"
        ds = sp.mk(root, fmt=fmt, eps=2, hashes=names)
        with ds.filler() as f:
            for v in range(rng.randrange(1, 6)):
                f.write_example(values=sp.val(v), split=rng.choice(["train", "test"]))
        info_ck = ds.write_config(updated_infos=[])
        checks = [("dataset_info.json", info_ck.hash_checksums)]
        for split, sl in ds._dataset_info.splits.items():
            checks.append((str(sl.shard_list_info_file.file_path), sl.shard_list_info_file.hash_checksums))
            for si in ds.shard_info_iterator(split):
                for fi in si.file_infos:
                    checks.append((str(fi.file_path), fi.hash_checksums))
        for rel, got in checks:
            data = (root / rel).read_bytes()
            exp = tuple(independent(a, data) for a in names)
            e2e += 1
            if tuple(got) != exp:
                ctx.report({"kind": "digest", "site": "recorded"},
                           f"recorded checksums of {rel} are not the standard digests ({fmt}, {names})",
                           {"format": fmt, "names": names, "file": rel, "got": list(got), "expected": list(exp)})
        if shutil.which("sha256sum") and "sha256" in names:
            rel = checks[-1][0]
            cli = subprocess.run(["sha256sum", str(root / rel)], capture_output=True, text=True).stdout.split()[0]
            if cli != checks[-1][1][names.index("sha256")]:
                ctx.report({"kind": "digest", "site": "cli"}, f"sha256sum disagrees for {rel}", {"file": rel})
        shutil.rmtree(root)
    # ---- … and after multi-session histories (sub-directories written again, nested lists, multi-writer calls): every
    # checksum recorded anywhere in the tree, found by walking the JSON documents themselves
    from harness.checks import tree_common as T
    hist_files = 0
    for i in range(ctx.pick(4, 16)):
        fmt = ["fb", "npz", "tfrec"][i % 3]
        names = rng.sample(ALGOS, rng.choice([1, 2, 3]))
        root = d / f"hist{i}"
        hist = T.gen_history(rng, rng.choice([2, 3, 4]), 2)
        if i % 2 == 0:      # make sure some sub-directory is written twice
            hist.append({"kind": "filler", "sub": "a", "writes": [[0, 3, False]], "reopen": True})
            hist.append({"kind": "filler", "sub": "a", "writes": [[0, 1, False]], "reopen": bool(i % 4)})
        orig_mk = sp.mk
        def mk(path, **kw):
            kw["hashes"] = names; return orig_mk(path, **kw)
        sp.mk = mk
        try:
            recs, _ = T.run_history(root, fmt, 2, hist)
        finally:
            sp.mk = orig_mk
        def verify(rel, got):
            nonlocal hist_files
            hist_files += 1
            f = root / rel
            exp = tuple(independent(a, f.read_bytes()) for a in names) if f.is_file() else None
            if exp is None or tuple(got) != exp:
                ctx.report({"kind": "digest", "site": "recorded-after-history"},
                           f"after {len(hist)} sessions the checksums recorded for {rel} are not the standard digests of its bytes ({fmt}, {names})",
                           {"format": fmt, "names": names, "file": str(rel), "got": list(got), "expected": list(exp) if exp else None, "history": hist})
                return False
            return True
        def walk(list_rel):
            doc = json.loads((root / list_rel).read_text())
            for sh in doc.get("shard_files", []):
                for fi in sh["file_infos"]:
                    verify(fi["file_path"], fi["hash_checksums"])
            for ch in doc.get("children_shard_lists", []):
                fi = ch["shard_list_info_file"]
                if verify(fi["file_path"], fi["hash_checksums"]):
                    walk(fi["file_path"])
        info = json.loads((root / "dataset_info.json").read_text())
        for split, rec in info.get("splits", {}).items():
            fi = rec["shard_list_info_file"]
            if verify(fi["file_path"], fi["hash_checksums"]):
                walk(fi["file_path"])
        shutil.rmtree(root, ignore_errors=True)
    ctx.cov["files_verified_after_histories"] = hist_files
    # ---- several infos for the same list reach one commit, the first of them stale: a filler's infos are held back
    # (auto_update_dataset=False), another session appends to the same directory and is committed, then the held-back infos are
    # committed; and two such fillers handed to one write_config.  Every recorded digest = digest of the bytes now on disk.
    from sedpack.io import Dataset
    from sedpack.io.dataset_filler import DatasetFiller
    def recorded_vs_real(root, names):
        bad = []
        def cmp(fi):
            rel = fi["file_path"]; data = (root / rel).read_bytes()
            exp = [independent(n, data) for n in names]
            if list(fi["hash_checksums"]) != exp:
                bad.append(rel)
        def walk(rel):
            doc = json.loads((root / rel).read_text())
            for sh in doc.get("shard_files", []):
                for fi in sh["file_infos"]: cmp(fi)
            for ch in doc.get("children_shard_lists", []):
                cmp(ch["shard_list_info_file"]); walk(ch["shard_list_info_file"]["file_path"])
        info = json.loads((root / "dataset_info.json").read_text())
        for rec in info.get("splits", {}).values():
            cmp(rec["shard_list_info_file"]); walk(rec["shard_list_info_file"]["file_path"])
        return bad
    for variant in ("held-back-then-appended", "two-held-back", "held-back-while-a-sibling-commits", "three-writers-last-one-publishes"):
        names = [ALGOS[(ctx.seed + 3) % len(ALGOS)], "sha256"]
        root = ctx.scratch / f"c16_{variant}"
        ds = sp.mk(root, fmt="fb", eps=2, hashes=tuple(names))
        v = [0]
        def fill(sub, n, auto=True):
            fl = DatasetFiller(ds, relative_path_from_split=Path(sub), auto_update_dataset=auto)
            with fl as f:
                for _ in range(n):
                    f.write_example(values=sp.val(v[0]), split="train"); v[0] += 1
            return fl
        fill("part", 3)
        if variant == "held-back-then-appended":
            held = fill("part", 2, auto=False); fill("part", 3)
            ds.write_config(updated_infos=held.get_updated_infos())
        elif variant == "held-back-while-a-sibling-commits":
            # `part` is rewritten on disk (its infos held back) and only the sibling `other` is published: whatever the parent list
            # records about part's list is the digest of the file as it is now
            held = fill("part", 2, auto=False); fill("other", 2)
            bad0 = recorded_vs_real(root, names)
            if bad0:
                ctx.report({"kind": "digest", "site": "recorded-after-held-back-infos", "variant": variant},
                           f"{variant}: after the sibling's commit the checksums recorded for {bad0[:3]} are not the digests of the files on disk", {"variant": variant, "names": names, "files": bad0})
            ds.write_config(updated_infos=held.get_updated_infos())
        elif variant == "three-writers-last-one-publishes":
            for rnd in range(3):
                fill("w0", 2, auto=(rnd == 0)); fill("w1", 1, auto=(rnd == 0)); fill("w2", 2)
                bad0 = recorded_vs_real(root, names)
                if bad0:
                    ctx.report({"kind": "digest", "site": "recorded-after-held-back-infos", "variant": variant},
                               f"{variant}: round {rnd}: the checksums recorded for {bad0[:3]} are not the digests of the files on disk", {"variant": variant, "names": names, "files": bad0, "round": rnd})
                    break
            # (the writers' held-back shards of rounds 1-2 are on disk in their own lists but were never published: what is reachable is checked)
            shutil.rmtree(root, ignore_errors=True)
            continue
        else:
            h1 = fill("part", 2, auto=False); h2 = fill("part", 3, auto=False)
            ds.write_config(updated_infos=h1.get_updated_infos() + h2.get_updated_infos())
        bad = recorded_vs_real(root, names)
        if bad or sorted(sp.read_ids(Dataset(root), "train")) != list(range(v[0])):
            ctx.report({"kind": "digest", "site": "recorded-after-held-back-infos", "variant": variant},
                       f"{variant}: the checksums recorded for {bad[:3]} are not the digests of the files on disk (or examples are missing)", {"variant": variant, "names": names, "files": bad})
        shutil.rmtree(root, ignore_errors=True)
    # ---- several threads of one process, each filling through its own filler (own sub-directory, infos held back) with shards of a
    # few hundred KiB closing at overlapping times; one commit at the end: every recorded digest is the digest of the file it names
    import threading as _th
    from sedpack.io import Attribute as _Attr
    names = ["sha256", ALGOS[(ctx.seed + 10) % len(ALGOS)]]
    root = ctx.scratch / "c16_threaded_fillers"
    tds = sp.mk(root, fmt="npz", eps=2, hashes=tuple(names), attrs=[_Attr(name="a", dtype="int32", shape=(2,)), _Attr(name="m", dtype="uint8", shape=(300000,))])
    fillers, terrs = [], []
    gate = _th.Barrier(4)
    def tfill(k):
        try:
            fl = DatasetFiller(tds, relative_path_from_split=Path(f"t{k}"), auto_update_dataset=False)
            fillers.append(fl)
            gate.wait(timeout=30)
            with fl as f:
                for v in range(ctx.pick(12, 40)):
                    f.write_example(values={"a": sp.np.array([1000 * k + v] * 2, dtype=sp.np.int32), "m": sp.np.full((300000,), (7 * k + v) % 251, dtype=sp.np.uint8)}, split="train")
        except Exception as e:  # noqa: BLE001
            terrs.append(f"{type(e).__name__}: {str(e)[:120]}")
    tth = [_th.Thread(target=tfill, args=(k,)) for k in range(4)]
    for t_ in tth: t_.start()
    for t_ in tth: t_.join(300)
    if terrs:
        ctx.report({"kind": "digest", "site": "threaded-fillers", "what": "error"}, f"four threads with a filler each: {terrs[0]}", {"errors": terrs[:3]})
    else:
        tds.write_config(updated_infos=[i for fl in fillers for i in fl.get_updated_infos()])
        bad = recorded_vs_real(root, names)
        try:
            Dataset(root).check(show_progressbar=False); chk = "pass"
        except Exception as e:  # noqa: BLE001
            chk = f"{type(e).__name__}: {str(e)[:120]}"
        if bad or chk != "pass":
            ctx.report({"kind": "digest", "site": "threaded-fillers"},
                       f"four threads of one process, each writing through its own filler: {len(bad)} recorded checksums are not the digests of the files they name (e.g. {bad[:2]}); check(): {chk}", {"names": names, "files": bad[:10], "check": chk})
    ctx.cov["threaded_filler_shards"] = 4 * ctx.pick(12, 40) // 2
    shutil.rmtree(root, ignore_errors=True)
    # ---- overlapping calls: several threads digest different multi-chunk files at the same time (threads that each fill a
    # dataset, a check running while another thread writes); the digest of a file may not depend on who else is hashing
    import threading
    sp.sedpack()
    from sedpack.io.utils import hash_checksums
    tdir = ctx.scratch / "c16_threads"; tdir.mkdir(exist_ok=True)
    B0 = 128 * 1024
    tfiles = []
    for k in range(6):
        q = tdir / f"t{k}.bin"
        data = bytes((i * (k + 3) + k) % 256 for i in range(B0 * (5 + k) + 17 * k + 1))
        q.write_bytes(data); tfiles.append((q, data))
    tnames = tuple(ALGOS[(3 * j + ctx.seed) % len(ALGOS)] for j in range(3)) + ("xxh64", "sha1", "xxh128")      # (always one of each library)
    tres, terr = {}, []
    # (earlier calls of this process failed — a missing file, a directory — and the caller caught the error)
    for bad in (tdir / "missing.bin", tdir, tdir / "missing2.bin"):
        try:
            hash_checksums(file_path=bad, hashes=tnames)
        except OSError:
            pass
    start = threading.Barrier(len(tfiles))
    def worker(k):
        try:
            start.wait(timeout=30)
            for rep in range(ctx.pick(6, 20)):
                tres[(k, rep)] = hash_checksums(file_path=tfiles[k][0], hashes=tnames)
        except Exception as e:  # noqa: BLE001
            terr.append(f"{type(e).__name__}: {e}")
    ths = [threading.Thread(target=worker, args=(k,)) for k in range(len(tfiles))]
    for t in ths: t.start()
    for t in ths: t.join(120)
    texp = {k: tuple(independent(n, tfiles[k][1]) for n in tnames) for k in range(len(tfiles))}
    tbad = [(k, rep) for (k, rep), got in tres.items() if tuple(got) != texp[k]]
    if terr or tbad or any(t.is_alive() for t in ths):
        ctx.report({"kind": "digest", "site": "overlapping-calls"},
                   f"hash_checksums called from {len(tfiles)} threads at once: {len(tbad)} of {len(tres)} results are not the digests of the file's bytes {terr[:1]}",
                   {"threads": len(tfiles), "names": list(tnames), "wrong": tbad[:6], "sizes": [len(d) for _, d in tfiles], "errors": terr[:3]})
    ctx.cov["overlapping_calls_verified"] = len(tres)
    # ---- … and the same with every read and every update of the overlapping calls recorded in one global order: the observed
    # interleaving is a run of M-HASH-CONC (private buffer and hash state per call), and every call fed its hash object, slice by slice,
    # the chunks of its own file
    import hashlib as _hl
    import sedpack.io.utils as _U
    tlog, tlock, tloc = [], threading.Lock(), threading.local()
    _orig_get = _U._get_hash_function
    class _RecH:
        def __init__(self, inner, first): self.inner, self.first = inner, first
        def update(self, b):
            if self.first:
                d = _hl.md5(bytes(b)).hexdigest()
                with tlock: tlog.append((tloc.call, "f", d))
            self.inner.update(b)
        def digest(self): return self.inner.digest()
        def hexdigest(self): return self.inner.hexdigest()
    def _get(name):
        first = not getattr(tloc, "made", True); tloc.made = True
        return _RecH(_orig_get(name), first)
    import builtins as _bi
    class _F:
        def __init__(self, *a, **k): self.f = _bi.open(*a, **k)
        def __enter__(self): return self
        def __exit__(self, *a): self.f.close()
        def readinto(self, mv):
            n = self.f.readinto(mv)
            if n:
                d = _hl.md5(bytes(mv[:n])).hexdigest()
                with tlock: tlog.append((tloc.call, "r", d))
            tloc.B = len(mv)
            return n
        def read(self, *a): return self.f.read(*a)
    Bseen = {}
    def traced(k):
        try:
            for rep in range(2):
                tloc.call = (k, rep); tloc.made = False
                tres2[(k, rep)] = hash_checksums(file_path=tfiles2[k][0], hashes=("sha1", "xxh64"))
                Bseen[k] = tloc.B
        except Exception as e:  # noqa: BLE001
            terr2.append(f"{type(e).__name__}: {e}")
    tdir2 = ctx.scratch / "c16_traced"; tdir2.mkdir(exist_ok=True)
    tfiles2 = []
    for k in range(3):
        q = tdir2 / f"u{k}.bin"; data = bytes((i * (k + 5) + 3 * k) % 256 for i in range(B0 * (3 + k) + 11 * k + 1)); q.write_bytes(data); tfiles2.append((q, data))
    tres2, terr2 = {}, []
    _U._get_hash_function = _get; _U.open = _F
    try:
        ths2 = [threading.Thread(target=traced, args=(k,)) for k in range(3)]
        for t in ths2: t.start()
        for t in ths2: t.join(120)
    finally:
        _U._get_hash_function = _orig_get
        del _U.open
    calls = sorted({c for c, _, _ in tlog})
    cidx = {c: i for i, c in enumerate(calls)}
    files_model, own_chunks = [], {}
    for c in calls:
        data = tfiles2[c[0]][1]; B = Bseen.get(c[0], B0)
        chunks = [data[o:o + B] for o in range(0, len(data), B)]
        own_chunks[c] = [_hl.md5(x).hexdigest() for x in chunks]
        files_model.append([[1000 * cidx[c] + j] for j in range(len(chunks))])
    rep = lean.driver([{"m": "hashconc", "files": files_model, "sched": [[op, cidx[c]] for c, op, _ in tlog]}])[0] if tlog else {"ok": False, "at": -1}
    fed = {c: [d for c2, op, d in tlog if c2 == c and op == "f"] for c in calls}
    wrong = [c for c in calls if fed[c] != own_chunks[c]]
    if wrong or terr2:
        ctx.report({"kind": "digest", "site": "overlapping-calls", "what": "fed-slices"},
                   f"three threads hashing at once, every read and update recorded: call {wrong[:1] or terr2[:1]} fed its hash object slices that are not the chunks of its own file, in order", {"calls": [list(c) for c in calls], "wrong": [list(c) for c in wrong], "errors": terr2[:2]})
    elif not rep.get("ok") or rep.get("acc") != [[1000 * i + j for j in range(len(files_model[i]))] for i in range(len(calls))] or not all(rep.get("finished", [])):
        ctx.cov.setdefault("correspondence_mismatch", []).append({"case": "overlapping calls", "impl": [[op, cidx[c]] for c, op, _ in tlog][:30], "model": rep})
    interleaved = sum(1 for (a, _, _), (b, _, _) in zip(tlog, tlog[1:]) if a != b)
    ctx.cov["overlapping_calls_replayed_on_M_HASH_CONC"] = len(calls); ctx.cov["recorded_read_and_update_steps"] = len(tlog); ctx.cov["switches_between_calls_in_the_recorded_order"] = interleaved
    shutil.rmtree(tdir2, ignore_errors=True)
    shutil.rmtree(tdir, ignore_errors=True)
    mism = ctx.cov.get("correspondence_mismatch")
    if mism and not ctx.violations:
        ctx.report({"kind": "correspondence"}, "model M-HASH no longer matches the slices hash_checksums feeds",
                   {"correspondence": "M-HASH chunks vs hash_function.update lengths", "cases": mism[:3],
                    "theorem": "Sedpack.Hash.C16_chunks_concat"}, name="corr", nofail=True)
    ctx.cov.update({
        "evaluations": len(cases) + e2e, "distinct_nontrivial": len(shapes),
        "rule": "file sizes around multiples of the read buffer x random algorithm tuples (with repetition) x short-read "
                "patterns; distinct = (size class, #slices, #names, short-read?) tuples; plus recorded digests of every "
                "metadata/shard file of small datasets compared with one-shot hashlib/xxhash/sha256sum; and every checksum recorded anywhere "
                "in the tree (raw JSON walk) after multi-session histories incl. sub-directories written twice; and 6 threads digesting different multi-chunk files at the same time",
        "traces_validated_against_impl": len(cases),
        "samples": [{"size": n, "names": nm, "wants": w[:4], "model_chunks": r["chunks"][:6]} for (p, n, nm, w), r in list(zip(cases, replies))[:4]],
        "input_distribution": {"sizes": sorted(sizes)[:40], "e2e_files": e2e},
    })
