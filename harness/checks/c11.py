"""C11 — shard-level custom metadata describes exactly the examples it labels.
Lean: SedpackProps/C11.lean over M-FILL (value semantics) + the reference-semantics witness."""
from __future__ import annotations
from harness.checks import fill_common as F

ASSUMPTIONS = ["examples written with absent/empty metadata are unconstrained (the code labels them retroactively, as documented)",
               "metadata values are JSON-representable dicts"]
TRUSTED = ["modelled-not-verified: pydantic JSON round-trip of the metadata value (C20)"]


def oracle(ctx, c):
    impl = c["impl"]
    if impl["read_err"]:
        ctx.report({"kind": "unreadable", "format": c["fmt"]}, impl["read_err"], {"case": F.slim(c)})
        return
    where = {}
    for s in range(3):
        for x in impl["listing"].get(s, []):
            if isinstance(x["ids"], list):
                for e in x["ids"]:
                    where[e] = x
    for recs in impl["records"]:
        for r in recs:
            if r["out"] != "ok" or not r["md_value"]:
                continue
            x = where.get(r["ex"])
            if x is None or F.md_canon(x["md"]) != F.md_canon(r["md_value"]):
                mutated = any(op[0] == "mut" for sess in c["sessions"] for op in sess)
                ctx.report({"kind": "label", "mutated_in_place": mutated},
                           f"example {r['ex']} written under {r['md_value']} is stored in a shard labelled {x and x['md']}",
                           {"case": F.slim(c), "example": r, "shard": x})
                return


def selection_oracle(ctx, c):
    """'selecting shards by metadata returns all and only the examples written under that metadata' — in every interface"""
    impl = c["impl"]
    sels = (impl["listing"] or {}).get("selections")
    if not sels:
        return 0
    written = {}
    for recs in impl["records"]:
        for r in recs:
            if r["out"] == "ok":
                written.setdefault((r["split"], r["md"]), []).append(r["ex"])
    for x in sels:
        if x["md"] == 0:
            continue            # examples written without metadata are unconstrained
        want = sorted(written.get((x["split"], x["md"]), []))
        if "error" in x:
            ctx.report({"kind": "select-error", "iface": x["iface"]}, f"{c['fmt']} {x['iface']}: selecting the shards labelled {x['md']} raised {x['error']}", {"case": F.slim(c), "selection": x})
        elif not (set(want) <= set(x["got"]) and len(x["got"]) == len(set(x["got"]))
                  and set(x["got"]) - set(want) <= set(written.get((x["split"], 0), []))):
            # (examples written *without* metadata are unconstrained: an unlabelled shard adopts the first non-empty value)
            ctx.report({"kind": "select", "iface": x["iface"]},
                       f"{c['fmt']} {x['iface']}: selecting the shards labelled with metadata {x['md']} in split {x['split']} yields {x['got']} but {want} were written under it",
                       {"case": F.slim(c), "selection": x, "written": want})
    return len(sels)


def two_live_fillers(a):
    """(child) two fillers of one process alive at the same time (different sub-directories of the same split, their infos
    committed together), writing interleaved label sequences; returns per listed shard (recorded label, labels its examples were written under)."""
    import random
    from pathlib import Path
    import shutil
    from harness.core import sp
    sp.sedpack()
    from sedpack.io import Dataset
    from sedpack.io.dataset_filler import DatasetFiller
    rng = random.Random(a["seed"])
    root = Path(a["root"]); shutil.rmtree(root, ignore_errors=True)
    ds = sp.mk(root, fmt=a["fmt"], eps=a["eps"])
    label_of = {}
    fillers = [DatasetFiller(ds, relative_path_from_split=Path(f"w{k}"), auto_update_dataset=False) for k in range(2)]
    ctxs = [f.__enter__() for f in fillers]
    v = 0
    cur = [1, 2]
    try:
        for step in range(a["steps"]):
            k = rng.randrange(2)
            if rng.random() < 0.4:
                cur[k] = rng.choice([1, 2, 3])
            for _ in range(rng.choice([1, 1, 2, a["eps"]])):
                ctxs[k].write_example(values=sp.val(v), split="train", custom_metadata=F.md_value(cur[k])); label_of[v] = cur[k]; v += 1
    finally:
        for f in fillers:
            f.__exit__(None, None, None)
    ds.write_config(updated_infos=[i for f in fillers for i in f.get_updated_infos()])
    d2 = Dataset(root)
    out = []
    for si in d2.shard_info_iterator("train"):
        ids = F.decode_shard(d2, d2.path / si.file_infos[0].file_path)
        out.append({"recorded": F.md_code(si.custom_metadata), "written_under": [label_of.get(x) for x in ids], "ids": ids})
    shutil.rmtree(root, ignore_errors=True)
    return {"shards": out, "n": v}


def container_kinds(a):
    """(child) the caller keeps ONE metadata object and changes the distinguishing value *inside a container* of some kind between
    writes (a list inside a tuple, a list inside a list inside a dict, a set, a list, a dict).  Returns, per kind, the listed shards
    with their recorded label and the label each of their examples was written under."""
    import json, shutil
    from pathlib import Path
    from harness.core import sp
    sp.sedpack()
    from sedpack.io import Dataset
    root = Path(a["root"])
    def build(kind, tag):
        return {"tuple_of_list": {"run": ([tag], "x")}, "tuple_in_dict": {"cfg": {"win": ([tag, 1], 2)}}, "set": {"run": {tag}},
                "list": {"run": [tag]}, "dict": {"run": {"t": tag}}, "list_of_tuple_of_list": {"run": [([tag],)]}}[kind]
    def change(kind, obj, tag):
        if kind == "tuple_of_list": obj["run"][0][0] = tag
        elif kind == "tuple_in_dict": obj["cfg"]["win"][0][0] = tag
        elif kind == "set": obj["run"].clear(); obj["run"].add(tag)
        elif kind == "list": obj["run"][0] = tag
        elif kind == "dict": obj["run"]["t"] = tag
        else: obj["run"][0][0][0] = tag
    def canon(v):
        return json.dumps(json.loads(json.dumps(v, default=lambda o: sorted(o))), sort_keys=True)
    out = []
    for kind in a["kinds"]:
        shutil.rmtree(root, ignore_errors=True)
        r = {"kind": kind}
        try:
            ds = sp.mk(root, fmt=a["fmt"], eps=a["eps"])
            under = {}
            obj = build(kind, "A")
            v = 0
            with ds.filler() as f:
                for tag in a["tags"]:
                    change(kind, obj, tag)
                    for _ in range(a["per"]):
                        f.write_example(values=sp.val(v), split="train", custom_metadata=obj); under[v] = canon(obj); v += 1
            d2 = Dataset(root)
            r["shards"] = []
            for si in d2.shard_info_iterator("train"):
                ids = F.decode_shard(d2, d2.path / si.file_infos[0].file_path)
                r["shards"].append({"recorded": canon(si.custom_metadata), "ids": ids, "written_under": [under.get(x) for x in ids]})
            r["n"] = v
        except Exception as e:  # noqa: BLE001
            r["error"] = f"{type(e).__name__}: {str(e)[:200]}"
        out.append(r)
    shutil.rmtree(root, ignore_errors=True)
    return out


def run(ctx):
    # ---- one metadata object whose distinguishing value sits inside a container of each kind and is changed in place
    from harness.core import child
    nck = 0
    for j, fmt in enumerate(["fb", "npz", "tfrec"][: ctx.pick(2, 3)] if not ctx.thorough else ["fb", "npz", "tfrec"]):
        ca = {"root": str(ctx.scratch / f"c11_kinds{j}"), "fmt": ["fb", "npz", "tfrec"][(j + ctx.seed) % 3], "eps": 5, "per": 2, "tags": ["A", "B", "A", "C"][: 3 + j % 2],
              "kinds": ["tuple_of_list", "tuple_in_dict", "set", "list", "dict", "list_of_tuple_of_list"]}
        for r in child.call("harness.checks.c11", "container_kinds", ca, timeout=600):
            nck += 1
            if "error" in r:
                # a container JSON cannot hold (a set) may be refused — loudly, at the write or when the session is saved
                if r["kind"] == "set" and ("serializ" in r["error"].lower() or "TypeError" in r["error"] or "json" in r["error"].lower()):
                    continue
                ctx.report({"kind": "label-error", "container": r["kind"]}, f"metadata held in a {r['kind']}: {r['error']}", {"case": ca, "result": r}); continue
            bad = next((sh for sh in r["shards"] if any(w != sh["recorded"] for w in sh["written_under"])), None)
            seen = sorted(x for sh in r["shards"] for x in sh["ids"])
            if bad is not None:
                ctx.report({"kind": "label", "mutated_in_place": True, "container": r["kind"]},
                           f"one metadata object changed in place inside a {r['kind']}: a shard labelled {bad['recorded']} holds examples {bad['ids']} written under {bad['written_under']}",
                           {"case": ca, "kind": r["kind"], "shard": bad})
            elif seen != list(range(r["n"])):
                ctx.report({"kind": "listing", "container": r["kind"]}, f"listed examples {seen} of {r['n']} written", {"case": ca, "kind": r["kind"]})
    ctx.cov["container_kind_runs"] = nck
    # ---- two fillers alive at once: every listed shard is labelled with what its examples were written under
    for j in range(ctx.pick(2, 8)):
        ta = {"root": str(ctx.scratch / f"c11_two{j}"), "fmt": ["fb", "npz", "tfrec"][j % 3], "eps": 2 + j % 2, "steps": 14, "seed": ctx.seed * 100 + j}
        from harness.core import child
        r = child.call("harness.checks.c11", "two_live_fillers", ta, timeout=600)
        seen = sorted(x for sh in r["shards"] for x in sh["ids"])
        for sh in r["shards"]:
            if any(w != sh["recorded"] for w in sh["written_under"]):
                ctx.report({"kind": "label", "two_fillers": True},
                           f"two fillers alive at once: a shard labelled {sh['recorded']} holds examples {sh['ids']} written under {sh['written_under']}", {"case": ta, "shard": sh})
                break
        else:
            if seen != list(range(r["n"])):
                ctx.report({"kind": "listing", "two_fillers": True}, f"two fillers alive at once: listed examples {seen[:20]} of {r['n']} written", {"case": ta})
    cases = F.explore(ctx, "C11")
    ctx.cov["selections_by_metadata"] = sum(selection_oracle(ctx, c) for c in cases)
    for c in cases:
        oracle(ctx, c)
    F.finish(ctx, "C11", cases, "Sedpack.Fill.C11_md_labels")
