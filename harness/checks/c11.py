"""C11 — shard-level custom metadata describes exactly the examples it labels.
Lean: SedpackProps/C11.lean over M-FILL (value semantics) + the reference-semantics witness."""
from __future__ import annotations
from harness.checks import fill_common as F

ASSUMPTIONS = ["examples written with absent/empty metadata are unconstrained (the code labels them retroactively, as documented)",
               "metadata values are JSON-representable dicts"]
TRUSTED = ["modelled-not-verified: pydantic JSON round-trip of the metadata value (C20)"]


def oracle(ctx, c):
    impl = c["impl"]
    if impl["read_err"]:
        ctx.report({"kind": "unreadable", "format": c["fmt"]}, impl["read_err"], {"case": F.slim(c)})
        return
    where = {}
    for s in range(3):
        for x in impl["listing"].get(s, []):
            if isinstance(x["ids"], list):
                for e in x["ids"]:
                    where[e] = x
    for recs in impl["records"]:
        for r in recs:
            if r["out"] != "ok" or not r["md_value"]:
                continue
            x = where.get(r["ex"])
            if x is None or F.md_canon(x["md"]) != F.md_canon(r["md_value"]):
                mutated = any(op[0] == "mut" for sess in c["sessions"] for op in sess)
                ctx.report({"kind": "label", "mutated_in_place": mutated},
                           f"example {r['ex']} written under {r['md_value']} is stored in a shard labelled {x and x['md']}",
                           {"case": F.slim(c), "example": r, "shard": x})
                return


def selection_oracle(ctx, c):
    """'selecting shards by metadata returns all and only the examples written under that metadata' — in every interface"""
    impl = c["impl"]
    sels = (impl["listing"] or {}).get("selections")
    if not sels:
        return 0
    written = {}
    for recs in impl["records"]:
        for r in recs:
            if r["out"] == "ok":
                written.setdefault((r["split"], r["md"]), []).append(r["ex"])
    for x in sels:
        if x["md"] == 0:
            continue            # examples written without metadata are unconstrained
        want = sorted(written.get((x["split"], x["md"]), []))
        if "error" in x:
            ctx.report({"kind": "select-error", "iface": x["iface"]}, f"{c['fmt']} {x['iface']}: selecting the shards labelled {x['md']} raised {x['error']}", {"case": F.slim(c), "selection": x})
        elif not (set(want) <= set(x["got"]) and len(x["got"]) == len(set(x["got"]))
                  and set(x["got"]) - set(want) <= set(written.get((x["split"], 0), []))):
            # (examples written *without* metadata are unconstrained: an unlabelled shard adopts the first non-empty value)
            ctx.report({"kind": "select", "iface": x["iface"]},
                       f"{c['fmt']} {x['iface']}: selecting the shards labelled with metadata {x['md']} in split {x['split']} yields {x['got']} but {want} were written under it",
                       {"case": F.slim(c), "selection": x, "written": want})
    return len(sels)


def run(ctx):
    cases = F.explore(ctx, "C11")
    ctx.cov["selections_by_metadata"] = sum(selection_oracle(ctx, c) for c in cases)
    for c in cases:
        oracle(ctx, c)
    F.finish(ctx, "C11", cases, "Sedpack.Fill.C11_md_labels")
