"""Writer child for C06: runs one writing session on an existing dataset while an audit hook logs
every file-system effect under the dataset root and snapshots the directory *before* each effect,
*after* each rename, and after every write_example (what a crash / a concurrent reader would see)."""
import json, os, shutil, sys
sys.path.insert(0, os.path.dirname(os.path.dirname(os.path.dirname(os.path.abspath(__file__)))))

A = json.loads(open(sys.argv[1]).read())
ROOT, SNAP = A["root"], A["snap"]
state = {"n": 0, "active": False, "busy": False, "log": []}


def snap(tag, info=None):
    if not state["active"] or state["busy"]:
        return
    state["busy"] = True
    try:
        k = state["n"]; state["n"] += 1
        if not A.get("nosnap"):
            shutil.copytree(ROOT, os.path.join(SNAP, f"{k:05d}"))
        state["log"].append({"k": k, "tag": tag, **(info or {})})
    finally:
        state["busy"] = False


def hook(ev, args):
    if not state["active"] or state["busy"]:
        return
    try:
        if ev == "open":
            p, mode = str(args[0]), str(args[1])
            if p.startswith(ROOT + "/"):
                snap("open", {"path": p[len(ROOT) + 1:], "mode": mode})
        elif ev == "os.rename":
            s, d = str(args[0]), str(args[1])
            if d.startswith(ROOT + "/"):
                snap("rename", {"src": s[len(ROOT) + 1:], "dst": d[len(ROOT) + 1:]})
        elif ev in ("os.mkdir", "os.remove"):
            p = str(args[0])
            if p.startswith(ROOT + "/"):
                snap(ev, {"path": p[len(ROOT) + 1:]})
    except Exception:  # noqa: BLE001
        pass


sys.addaudithook(hook)
from harness.core import sp  # noqa: E402
sp.sedpack()
import pathlib  # noqa: E402
from sedpack.io import Dataset  # noqa: E402
from sedpack.io.dataset_filler import DatasetFiller  # noqa: E402
from harness.checks.tree_common import SPLITS  # noqa: E402

_orig_replace = pathlib.Path.replace
def _replace(self, target):
    r = _orig_replace(self, target)
    t = str(target)
    if t.startswith(ROOT + "/"):
        snap("after-rename", {"dst": t[len(ROOT) + 1:]})
    return r
pathlib.Path.replace = _replace

if A.get("xdev"):
    # every directory on a file system of its own (a split directory that is a mount point): the kernel refuses to rename
    # across directories with EXDEV.  A rename between siblings — what write-temp-then-rename does — is unaffected.
    import errno
    def _xdev(orig):
        def f(src, dst, *a, **k):
            if os.path.dirname(os.path.abspath(os.fspath(src))) != os.path.dirname(os.path.abspath(os.fspath(dst))) \
                    and os.path.abspath(os.fspath(dst)).startswith(ROOT + "/"):
                raise OSError(errno.EXDEV, "Invalid cross-device link", os.fspath(src))
            return orig(src, dst, *a, **k)
        return f
    os.rename = _xdev(os.rename)
    os.replace = _xdev(os.replace)

if A.get("fail_write") is not None:
    # the disk fills up: the k-th metadata temp file of this session cannot be written (ENOSPC); the session dies of the exception
    import builtins, errno as _errno
    _real_open = builtins.open
    _cnt_fw = {"k": 0}
    def _open(file, mode="r", *a, **k):
        try:
            name = os.path.basename(os.fspath(file))
        except TypeError:
            name = ""
        if name.startswith("update_") and any(c in mode for c in "wxa") and os.path.abspath(os.fspath(file)).startswith(ROOT + "/"):
            _cnt_fw["k"] += 1
            if _cnt_fw["k"] == A["fail_write"]:
                raise OSError(_errno.ENOSPC, "No space left on device", os.fspath(file))
        return _real_open(file, mode, *a, **k)
    builtins.open = _open

if A.get("fail_shard") is not None:
    # the disk fills up while the k-th shard *file* of this session is written (fb / npz: the file is opened by Python): a partial file
    # is left at the shard's name and the close raises.  With `swallow` the caller treats a failing write_example as "skip this example"
    # and keeps using the filler — an error path, no crash involved.
    import builtins, io, errno as _errno
    _cnt_fs = {"k": 0}
    def _mk_open(real):
        def _open(file, mode="r", *a, **k):
            try:
                pth = os.path.abspath(os.fspath(file))
            except TypeError:
                return real(file, mode, *a, **k)
            if pth.startswith(ROOT + "/") and pth.endswith((".fb", ".npz")) and any(c in str(mode) for c in "wxa"):
                _cnt_fs["k"] += 1
                if _cnt_fs["k"] == A["fail_shard"]:
                    with real(pth, "wb") as fh: fh.write(b"PK\x03\x04 partial")
                    raise OSError(_errno.ENOSPC, "No space left on device", pth)
            return real(file, mode, *a, **k)
        return _open
    _patched = _mk_open(builtins.open)
    builtins.open = _patched
    io.open = _patched

import sedpack.io.dataset_writing as DW  # noqa: E402
_cnt = {"k": A.get("uuid_base", 0)}
class _FakeUUID:
    def __init__(self, k): self.hex = f"w{k:08d}" + "0" * 23
class _UuidMod:
    @staticmethod
    def uuid4():
        _cnt["k"] += 1; return _FakeUUID(_cnt["k"])
DW.uuid = _UuidMod          # deterministic writer directory names (dataset_filler keeps real uuids for shard files)

ds = Dataset(ROOT)
state["active"] = True
written = {0: [], 1: [], 2: []}
v = A["base"]
err = None
swallowed = []
def _write(f, s):
    """one write_example; with `swallow` a failure is the caller's cue to skip the example (it stays *allowed*, not required)"""
    global v
    written[s].append(v)
    try:
        f.write_example(values=sp.val(v), split=SPLITS[s])
    except Exception as e:  # noqa: BLE001
        if not A.get("swallow"): raise
        swallowed.append(f"{type(e).__name__}: {str(e)[:80]}")
    snap("after-write", {"ex": v, "split": s}); v += 1
try:
    if A["kind"] == "multi":
        def feed(filler, plan):
            global v
            with filler as f:
                for s, n in plan:
                    for _ in range(n):
                        _write(f, s)
            return 0
        ds.write_multiprocessing(feed_writer=feed, custom_arguments=[(p,) for p in A["writers"]], single_process=True, consistency_check=False)
    else:
        with DatasetFiller(ds, relative_path_from_split=pathlib.Path(A["sub"])) as f:
            for s, n in A["writes"]:
                for _ in range(n):
                    _write(f, s)
except Exception as e:  # noqa: BLE001
    err = f"{type(e).__name__}: {e}"
snap("end")
state["active"] = False
open(sys.argv[2], "w").write(json.dumps({"log": state["log"], "written": written, "error": err, "next": v, "swallowed": swallowed}))
sys.stdout.flush()
os._exit(0)
