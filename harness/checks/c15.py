"""C15 — the Rust reader equals the Python reader for every thread count and timing.
Lean: SedpackProps/C15.lean over M-PMAP (output in input order; completeness at the end; one
outstanding task per worker; deadlock freedom; drop lets the workers exit).
Correspondence (output level — the Rust threads cannot be stepped from Python, hence *partial*):
the rebuilt extension's `as_numpy_iterator_rust` vs the pure-Python reader, and `parallel_map`
driven directly by a cargo integration test with item-dependent delays, a stalling consumer and early
drops; the model's output under pseudo-random schedules is compared with both."""
from __future__ import annotations
import collections, json, os, re, shutil, subprocess
from pathlib import Path
from harness.core import lean, sp, child, rustbuild
from harness.core.ctx import REPO, VERIF
from harness.checks import iter_common as I

ASSUMPTIONS = ["std::sync::mpsc channels are FIFO and report disconnection after the buffered messages (specified external)",
               "bounded time is judged by a watchdog far above the normal duration"]
TRUSTED = ["modelled-not-verified: Rust std threads/channels, pyo3, the FlatBuffers parser and decompressors of the extension"]


def run_e2e(args):
    sp.sedpack(rust=True)
    from sedpack.io import Dataset
    out = []
    for a in args:
        root = a["root"]
        ds, written = I.build_dataset(root, "fb", a["comp"], a["eps"], a["plan"])
        ds = Dataset(root)
        nsh = len(list(ds.shard_info_iterator("train")))
        py, _ = I.run_iface(ds, "sync", "train", shuffle=0, T=1)
        rec = {"case": {k: a[k] for k in a if k != "root"}, "nshards": nsh, "python": py, "runs": []}
        base_threads = len(os.listdir("/proc/self/task"))
        for T in a["threads"]:
            T = T if T > 0 else nsh + (-T)
            try:
                got, _ = I.run_iface(ds, "rust", "train", shuffle=0, T=T)
                rec["runs"].append({"T": T, "kind": "full", "got": got})
            except Exception as e:  # noqa: BLE001
                rec["runs"].append({"T": T, "kind": "full", "error": f"{type(e).__name__}: {str(e)[:150]}"})
            got, _ = I.run_iface(ds, "rust", "train", shuffle=5, T=T)
            rec["runs"].append({"T": T, "kind": "shuffled", "got": got})
            for k in a["drops"]:
                if k > len(py): continue
                it = ds.as_numpy_iterator_rust(split="train", repeat=False, shuffle=0, file_parallelism=T)
                part = [sp.ident(next(it)) for _ in range(k)]
                it.close(); del it
                import gc, time
                gc.collect(); time.sleep(0.05)
                rec["runs"].append({"T": T, "kind": "drop", "k": k, "got": part, "threads_alive": len(os.listdir("/proc/self/task")) - base_threads})
        # repeating streams whose epoch is tiny: the first k shards with k = 1, 2 (one shard of one example when eps = 1) — the Rust
        # reader and the Python reader yield the same endless stream (prefix of 7), also with a single example per epoch
        try:
            import itertools as _it
            for k in (1, 2):
                want = [sp.ident(e) for e in _it.islice(ds.as_numpy_iterator(split="train", repeat=True, shuffle=0, shards=k), 7)]
                for T in (1, 3):
                    it = ds.as_numpy_iterator_rust(split="train", repeat=True, shuffle=0, shards=k, file_parallelism=T)
                    got = [sp.ident(e) for e in _it.islice(it, 7)]
                    it.close()
                    rec["runs"].append({"T": T, "kind": "repeat-small", "k": k, "got": got, "want": want})
        except BaseException as e:  # noqa: BLE001
            rec["runs"].append({"T": 1, "kind": "repeat-small", "k": 0, "got": [], "want": ["?"], "error": f"{type(e).__name__}: {str(e)[:150]}"})
        # attribute layouts: several attributes, scalars, declared dtypes with an explicit byte order — every value bit for bit
        try:
            from sedpack.io import Attribute
            import numpy as np
            aroot = root + "_attrs"
            adecl = [("a", "int32", (2,)), ("b", ">f8", ()), ("c", ">u2", (3,)), ("d", "float16", (2, 2)), ("e", "<i8", ())]
            ads = sp.mk(aroot, fmt="fb", comp=a["comp"], eps=a["eps"], attrs=[Attribute(name=n, dtype=d, shape=s) for n, d, s in adecl])
            with ads.filler() as f:
                for i in range(2 * a["eps"] + 1):
                    f.write_example(values={"a": np.array([i, i], dtype=np.int32), "b": np.float64(i + 0.5), "c": np.array([i, 256 + i, 65535 - i], dtype=np.uint16),
                                            "d": np.array([[i, 0.5], [-i, 1024.0]], dtype=np.float16), "e": np.int64(-(1 << 40) - i)}, split="train")
            ads = Dataset(aroot)
            def canon(e):
                return {n: [np.dtype(d).newbyteorder("=").name == np.asarray(e[n]).dtype.newbyteorder("=").name, list(np.asarray(e[n]).shape),
                            np.ascontiguousarray(np.asarray(e[n]).astype(np.dtype(d).newbyteorder("="))).tobytes().hex()] for n, d, s in adecl}
            py_ex = [canon(e) for e in ads.as_numpy_iterator(split="train", repeat=False, shuffle=0)]
            ru_ex = [canon(e) for e in ads.as_numpy_iterator_rust(split="train", repeat=False, shuffle=0, file_parallelism=2)]
            rec["runs"].append({"T": 2, "kind": "layouts", "same": py_ex == ru_ex, "n": len(py_ex),
                                "first_diff": next(({"example": i, "python": p, "rust": r} for i, (p, r) in enumerate(zip(py_ex, ru_ex)) if p != r), None)})
            shutil.rmtree(aroot, ignore_errors=True)
        except BaseException as e:  # noqa: BLE001
            rec["runs"].append({"T": 2, "kind": "layouts", "error": f"{type(e).__name__}: {str(e)[:150]}"})
        # kinds of payload: shards of constant data (all zeros / one repeated byte: they compress by a factor of a thousand), of
        # incompressible data, and one shard whose serialized content exceeds 16 MiB — whatever the examples hold and however large
        # or compressible a shard is, both readers yield the same examples
        try:
            import hashlib
            from sedpack.io import Attribute
            import numpy as np
            proot = root + "_payload"
            M = 1 << 20
            pds = sp.mk(proot, fmt="fb", comp=a["comp"], eps=2, attrs=[Attribute(name="a", dtype="int32", shape=(2,)), Attribute(name="m", dtype="uint8", shape=(M,))])
            prng = np.random.default_rng(a.get("pseed", 0))
            with pds.filler() as f:
                for i, kindp in enumerate(["zeros", "zeros", "const", "const", "random", "zeros", "ramp"]):
                    m = {"zeros": np.zeros(M, np.uint8), "const": np.full(M, 0xAB, np.uint8), "random": prng.integers(0, 256, M, dtype=np.uint8),
                         "ramp": (np.arange(M) % 251).astype(np.uint8)}[kindp]
                    f.write_example(values={"a": np.array([i, i], dtype=np.int32), "m": m}, split="train")
            pds = Dataset(proot)
            def canonp(e):
                return [sp.ident(e), hashlib.md5(np.ascontiguousarray(np.asarray(e["m"])).tobytes()).hexdigest()]
            py_ex = [canonp(e) for e in pds.as_numpy_iterator(split="train", repeat=False, shuffle=0)]
            for T in (1, 3):
                try:
                    ru_ex = [canonp(e) for e in pds.as_numpy_iterator_rust(split="train", repeat=False, shuffle=0, file_parallelism=T)]
                    rec["runs"].append({"T": T, "kind": "payloads", "same": py_ex == ru_ex, "n": len(py_ex), "n_rust": len(ru_ex)})
                except BaseException as e:  # noqa: BLE001
                    rec["runs"].append({"T": T, "kind": "payloads", "n": len(py_ex), "error": f"{type(e).__name__}: {str(e)[:150]}"})
            shutil.rmtree(proot, ignore_errors=True)
            if a.get("huge"):
                hroot = root + "_huge"
                H = 9 << 20
                hds = sp.mk(hroot, fmt="fb", comp=a["comp"], eps=2, attrs=[Attribute(name="a", dtype="int32", shape=(2,)), Attribute(name="m", dtype="uint8", shape=(H,))])
                with hds.filler() as f:
                    for i in range(3):
                        f.write_example(values={"a": np.array([i, i], dtype=np.int32), "m": prng.integers(0, 256, H, dtype=np.uint8)}, split="train")
                hds = Dataset(hroot)
                py_ex = [canonp(e) for e in hds.as_numpy_iterator(split="train", repeat=False, shuffle=0)]
                try:
                    ru_ex = [canonp(e) for e in hds.as_numpy_iterator_rust(split="train", repeat=False, shuffle=0, file_parallelism=2)]
                    rec["runs"].append({"T": 2, "kind": "payloads", "huge": True, "same": py_ex == ru_ex, "n": len(py_ex), "n_rust": len(ru_ex)})
                except BaseException as e:  # noqa: BLE001
                    rec["runs"].append({"T": 2, "kind": "payloads", "huge": True, "n": len(py_ex), "error": f"{type(e).__name__}: {str(e)[:150]}"})
                shutil.rmtree(hroot, ignore_errors=True)
        except BaseException as e:  # noqa: BLE001
            rec["runs"].append({"T": 0, "kind": "payloads", "error": f"building: {type(e).__name__}: {str(e)[:150]}"})
        # one iterator stays open (partly consumed) while the same process creates and finishes more than ten thousand others (every
        # epoch of a repeating Rust stream is a new native iterator): per-iterator state is keyed, and no key may ever be handed out twice
        if a.get("many") and len(py) >= 2:
            import itertools as _it2
            try:
                troot = root + "_tiny"
                tds, _tw = I.build_dataset(troot, "fb", a["comp"], 1, [{"sub": ".", "writes": [(0, 1)]}])
                tds = Dataset(troot)
                A = ds.as_numpy_iterator_rust(split="train", repeat=False, shuffle=0, file_parallelism=2)
                gotA = [sp.ident(next(A)) for _ in range(min(3, len(py) - 1))]
                n_ep = a["many"]
                cnt = sum(1 for _ in _it2.islice(tds.as_numpy_iterator_rust(split="train", repeat=True, shuffle=0, file_parallelism=1), n_ep))
                gotA += [sp.ident(e) for e in A]
                rec["runs"].append({"T": 2, "kind": "many-iterators", "got": gotA, "want": py, "epochs": cnt})
                shutil.rmtree(troot, ignore_errors=True)
            except BaseException as e:  # noqa: BLE001
                rec["runs"].append({"T": 2, "kind": "many-iterators", "got": [], "want": py, "epochs": a["many"], "error": f"{type(e).__name__}: {str(e)[:150]}"})
        # several Rust-backed passes alive at the same time with staggered life times: A and B open, A ends while B is
        # mid-pass, C opens, B and C are consumed alternately (train / validation passes interleaved in one process)
        if nsh >= 2:
            want = {}
            for name, kshards in (("A", 1), ("B", None), ("C", max(1, nsh - 1))):
                want[name], _ = I.run_iface(ds, "sync", "train", shuffle=0, T=1, **({"shards": kshards} if kshards else {}))
            def rust(kshards):
                kw = {"shards": kshards} if kshards else {}
                return ds.as_numpy_iterator_rust(split="train", repeat=False, shuffle=0, file_parallelism=2, **kw)
            got = {"A": [], "B": [], "C": []}
            # the same history as events of M-REG (handles 0, 1, 2; every handle registered under a key of its own)
            hid = {"A": 0, "B": 1, "C": 2}
            events = []
            try:
                events.append(["new", 0, 100, want["A"]]); A = rust(1); events.append(["next", 0]); got["A"].append(sp.ident(next(A)))
                events.append(["new", 1, 101, want["B"]]); B = rust(None); events.append(["next", 1]); got["B"].append(sp.ident(next(B)))
                for e in A:                                              # A runs to its end and is released
                    events.append(["next", 0]); got["A"].append(sp.ident(e))
                events.append(["next", 0]); events.append(["exit", 0])
                del A
                events.append(["new", 2, 102, want["C"]]); C = rust(max(1, nsh - 1))
                its = {"B": B, "C": C}
                live = ["B", "C"]
                while live:
                    for nm in list(live):
                        events.append(["next", hid[nm]])
                        try:
                            got[nm].append(sp.ident(next(its[nm])))
                        except StopIteration:
                            live.remove(nm)
                rec["runs"].append({"T": 2, "kind": "overlap3", "got": got, "want": want, "events": events})
            except BaseException as e:  # noqa: BLE001
                rec["runs"].append({"T": 2, "kind": "overlap3", "got": got, "want": want, "error": f"{type(e).__name__}: {str(e)[:150]}"})
        out.append(rec)
        shutil.rmtree(root, ignore_errors=True)
    return out


def two_threads(a):
    """(child) two Python threads, each reading its own split through its own Rust-backed iterator at the same time (a training
    and a validation pipeline; tf.data's generator threads), several rounds; returns what each read."""
    import threading
    sp.sedpack(rust=True)
    from sedpack.io import Dataset
    root = Path(a["root"]); shutil.rmtree(root, ignore_errors=True)
    ds = sp.mk(root, fmt="fb", comp=a["comp"], eps=a["eps"])
    want = {"train": [], "test": []}
    with ds.filler() as f:
        for v in range(a["n"]):
            s = "train" if v % 3 else "test"
            f.write_example(values=sp.val(v), split=s); want[s].append(v)
    ds = Dataset(root)
    got = {"train": [], "test": []}
    errs = []
    stop = threading.Event()
    def reader(split):
        try:
            # at least `rounds` passes, and keep going while the dropper is at work (bounded)
            while len(got[split]) < a["rounds"] or (a.get("drops") and not stop.is_set() and len(got[split]) < 2000):
                got[split].append([sp.ident(e) for e in ds.as_numpy_iterator_rust(split=split, repeat=False, shuffle=0, file_parallelism=a["T"])])
        except BaseException as e:  # noqa: BLE001
            errs.append(f"{split}: {type(e).__name__}: {str(e)[:120]}")
    big = None
    if a.get("drops"):
        # shards that take a while to load (1 MiB of incompressible floats each, GZIP): closing an iterator then has to wait for its workers
        from sedpack.io import Attribute
        rb = Path(str(root) + "_big"); shutil.rmtree(rb, ignore_errors=True)
        big = sp.mk(rb, fmt="fb", comp="GZIP", eps=1, attrs=[Attribute(name="a", dtype="int32", shape=(2,)), Attribute(name="w", dtype="float32", shape=(262144,))])
        rs = sp.np.random.RandomState(5)
        with big.filler() as f:
            for v in range(8):
                f.write_example(values={"a": sp.np.array([v, v], dtype=sp.np.int32), "w": rs.rand(262144).astype(sp.np.float32)}, split="train")
        big = Dataset(rb)
    def dropper(split):
        # takes one example and closes the iterator while its workers are still loading shards, over and over
        try:
            for _ in range(a.get("drops", 0)):
                it = big.as_numpy_iterator_rust(split="train", repeat=False, shuffle=0, file_parallelism=3)
                first = sp.ident(next(it))
                it.close()
                if first != 0:
                    errs.append(f"big: first example {first}")
            stop.set()
        except BaseException as e:  # noqa: BLE001
            errs.append(f"dropper {split}: {type(e).__name__}: {str(e)[:120]}")
        finally:
            stop.set()
    ths = [threading.Thread(target=reader, args=(s,)) for s in ("train", "test")]
    if a.get("drops"):
        ths.append(threading.Thread(target=dropper, args=("train",)))
    for t in ths: t.start()
    for t in ths: t.join()
    shutil.rmtree(root, ignore_errors=True); shutil.rmtree(str(root) + "_big", ignore_errors=True)
    return {"want": want, "got": got, "errors": errs}


FAULTS: list = []          # the PMAPFAULT lines of the last cargo_harness run (mapped function panicking on one item): used by C07


def cargo_harness(ctx, long_stall_ms=None):
    """Copy /repo/rust to scratch, add the integration test, run it (target dir cached by source hash)."""
    work = ctx.scratch / "rustcrate"
    if work.exists():
        shutil.rmtree(work)
    shutil.copytree(REPO / "rust", work, ignore=shutil.ignore_patterns("target"))
    (work / "tests").mkdir(exist_ok=True)
    shutil.copy(VERIF / "rust_harness" / "pmap_harness.rs", work / "tests" / "pmap_harness.rs")
    env = dict(os.environ, CARGO_NET_OFFLINE="true", PYO3_PYTHON="/venv/bin/python", SEDPACK_VERIF="1",   # the hook records channel operations
               PMAP_LONG_STALL_MS=str(long_stall_ms if long_stall_ms is not None else (31000 if ctx.thorough else 10500)))
    p = subprocess.run(["cargo", "test", "--release", "--offline", "--test", "pmap_harness", "--target-dir", str(rustbuild.CACHE / "target-tests"),
                        "--", "--nocapture", "--test-threads=1"], cwd=work, env=env, capture_output=True, text=True, timeout=2400)
    lines = [json.loads(l[5:]) for l in p.stdout.split("\n") if l.startswith("PMAP ")]
    traces = [json.loads(l[10:]) for l in p.stdout.split("\n") if l.startswith("PMAPTRACE ")]
    FAULTS[:] = [json.loads(l[10:]) for l in p.stdout.split("\n") if l.startswith("PMAPFAULT ")]
    return lines, traces, p.returncode, (p.stdout + p.stderr)[-1500:]


def run(ctx):
    rng = ctx.rng("c15")
    # ---- parallel_map driven directly
    lines, traces, rc, tail = cargo_harness(ctx)
    if not lines:
        raise RuntimeError(f"cargo harness produced nothing (rc={rc}): {tail}")
    kinds = collections.Counter(l["kind"] for l in lines)
    if rc != 0 or kinds["stall"] < 3:
        # the integration test itself aborted: a panic inside parallel_map (e.g. a worker that gave up while the consumer stalled)
        done = f"{kinds['full']} full, {kinds['drop']} drop, {kinds['stall']} stall cases completed"
        panic = next((ln.strip() for ln in tail.split("\n") if "panicked" in ln or "died" in ln), tail[-200:])
        ctx.report({"kind": "stall" if kinds["stall"] < 3 else "abort", "level": "parallel_map", "what": "panic"},
                   f"parallel_map aborted in the cargo harness (rc={rc}; {done}): {panic[:200]}", {"cargo_rc": rc, "completed": dict(kinds), "tail": tail[-1500:]})
    reqs = []
    for l in lines:
        reqs.append({"m": "pmap", "threads": l["threads"], "n": l["n"], "seed": rng.randrange(1 << 20),
                     "drop_after": l.get("k") if l["kind"] == "drop" else None})
    reps = lean.driver(reqs)
    corr_bad = []
    for l, rep in zip(lines, reps):
        sig = {"kind": l["kind"], "level": "parallel_map", "T_lt_n": l["threads"] < l["n"]}
        exp = [x * 10 for x in range(l["n"])]
        if l["kind"] in ("full", "stall"):
            if l["out"] != exp:
                ctx.report(dict(sig, what="order-or-truncation"), f"parallel_map(n={l['n']}, threads={l['threads']}, {l['kind']}) returned {l['out']} instead of {exp}", {"case": l})
            if [x * 10 for x in rep["out"]] != l["out"] or not rep["ended"]:
                corr_bad.append({"case": l, "model": rep})
        else:
            if l["out"] != exp[:l["k"]]:
                ctx.report(dict(sig, what="prefix"), f"parallel_map early drop after {l['k']}: got {l['out']}", {"case": l})
            if max(l.get("pulled", 0), l.get("pulled_before_drop", 0)) > l["k"] + min(l["threads"], l["n"]):
                ctx.report(dict(sig, what="read-ahead"), f"parallel_map(n={l['n']}, threads={l['threads']}) pulled {l.get('pulled_before_drop')} items from its input for {l['k']} results "
                           f"and {l.get('pulled')} by the time it was dropped (one outstanding task per worker allows {l['k'] + min(l['threads'], l['n'])})", {"case": l})
            if l["threads_alive"] != 0:
                ctx.report(dict(sig, what="threads-alive"), f"{l['threads_alive']} worker threads still alive after dropping the iterator (n={l['n']}, threads={l['threads']}, k={l['k']})", {"case": l})
            if rep["alive"] != 0 or [x * 10 for x in rep["out"]][:l["k"]] != l["out"]:
                corr_bad.append({"case": l, "model": rep})
    # ---- correspondence at the level of channel operations: the order recorded by the SEDPACK_VERIF hook (worker recv /
    # worker send / consumer next / drop, under the real thread interleaving) is accepted by M-PMAP and leaves the model with
    # the output the real iterator produced.  After `drop` the workers' events are left out (whether a pending send still succeeds is a race
    # the model resolves one way; thread exit after drop is decided by the thread count above).
    treqs, tmeta = [], []
    for t in traces:
        labs = []
        dropped = False
        for tok in t["trace"].split():
            k, w = tok[0], int(tok[1:])
            if k == "d":
                labs.append(["d"]); dropped = True
            elif k == "n":
                labs.append(["n"])          # (a `next` after `drop` is refused by the model: nothing may pull more work once the iterator is gone)
            elif not dropped:
                labs.append([k, w])
        treqs.append({"m": "pmaptrace", "threads": t["threads"], "n": t["n"], "trace": labs}); tmeta.append((t, labs))
    treps = lean.driver(treqs) if treqs else []
    trace_bad, trace_events = [], 0
    if traces and not all(t["hook"] for t in traces):
        trace_bad.append({"why": "the SEDPACK_VERIF hook did not record (enabled() is false)"})
    for (t, labs), rep in zip(tmeta, treps):
        trace_events += len(labs)
        want = list(range(t["n"])) if t["kind"] == "full" else list(range(min(t["k"], t["n"])))
        if not rep["ok"]:
            trace_bad.append({"case": {k: t[k] for k in ("kind", "n", "threads", "k")}, "refused_at": rep["at"], "label": labs[rep["at"]],
                              "context": labs[max(0, rep["at"] - 6): rep["at"] + 1]})
        elif rep["out"][:len(want)] != want or (t["kind"] == "full" and (rep["out"] != want or not rep["ended"])):
            trace_bad.append({"case": {k: t[k] for k in ("kind", "n", "threads", "k")}, "model_out": rep["out"], "ended": rep["ended"]})
    if (trace_bad or not traces) and not ctx.violations:
        ctx.report({"kind": "correspondence-trace", "level": "parallel_map"},
                   f"M-PMAP does not accept the recorded order of channel operations: {json.dumps(trace_bad[0] if trace_bad else 'no trace recorded')[:300]}",
                   {"correspondence": "M-PMAP accepts(recorded r/s/n/d order of parallel_map)", "theorem": "Sedpack.PMap.C15_output_in_input_order / C15_one_outstanding",
                    "cases": trace_bad[:3]}, name="corr-trace", nofail=True)
    ctx.cov["channel_traces_replayed"] = len(traces) - len([b for b in trace_bad if "case" in b])
    ctx.cov["channel_events_replayed"] = trace_events
    # ---- two Python threads reading through the extension at the same time (each its own split and iterator)
    ta = {"root": str(ctx.scratch / "c15_two_threads"), "comp": ["", "LZ4"][ctx.seed % 2], "eps": 2, "n": 240, "rounds": 8, "T": 2, "drops": 40}
    try:
        tt = child.call("harness.checks.c15", "two_threads", ta, timeout=180)
        for split in ("train", "test"):
            bad = [g for g in tt["got"][split] if g != tt["want"][split]]
            if tt["errors"] or bad or len(tt["got"][split]) < ta["rounds"]:
                ctx.report({"kind": "two-threads", "level": "extension", "what": "values-or-error"},
                           f"two Python threads reading {split!r} / the other split through the Rust reader at once: {tt['errors'][:2]} "
                           f"{len(tt['got'][split])} of {ta['rounds']} passes completed, {len(bad)} differ from the Python reader's list", {"case": ta, "errors": tt["errors"]})
                break
    except child.ChildTimeout:
        # (a normal run takes a few seconds; the interpreter of the child is frozen, so only the parent can tell)
        ctx.report({"kind": "two-threads", "level": "extension", "what": "hang"},
                   "Python threads using the Rust reader at the same time (two reading full passes of their own split, one taking an example and closing its iterator early, repeatedly) did not finish within 180 s (normally ~3 s): deadlock", {"case": ta})
    ctx.cov["two_thread_passes"] = 2 * ta["rounds"]      # (lower bound; the readers keep going while the third thread drops iterators)
    # ---- the extension vs the Python reader
    cases = []
    for i in range(ctx.pick(3, 8)):
        comp = ["", "LZ4", "GZIP", "ZLIB"][i % 4]
        eps = 1 if i == 0 else rng.choice([1, 2, 3])          # (the first case: one example per shard, so a one-shard epoch is a one-example epoch)
        plan = [{"sub": ".", "writes": [(0, rng.choice([1, eps, 2 * eps + 1, 4 * eps + 1, 7 * eps]))]}]
        if i % 2:
            plan.append({"sub": "a", "writes": [(0, eps + 1)]})      # uneven shard sizes, nested lists
        cases.append({"root": str(ctx.scratch / f"c15_{i}"), "comp": comp, "eps": eps, "plan": plan, "threads": [1, 2, -0, -3] if ctx.thorough else [1, 2, -3],
                      "drops": [0, 1, 3], "huge": comp in ("GZIP", "ZLIB"), "pseed": rng.randrange(1 << 30), "many": (ctx.pick(10300, 70000) if i == 1 else 0)})
    recs = child.call("harness.checks.c15", "run_e2e", cases, timeout=1800)
    nruns = 0
    reg_reqs, reg_meta = [], []
    for r in recs:
        for run_ in r["runs"]:
            nruns += 1
            sig = {"kind": run_["kind"], "level": "extension", "T_lt_n": run_["T"] < r["nshards"]}
            if "error" in run_:
                what = ("payloads (constant / incompressible 1 MiB arrays" + (", one shard above 16 MiB" if run_.get("huge") else "") + "): ") if run_["kind"] == "payloads" else ""
                ctx.report(dict(sig, what="error"), f"{what}as_numpy_iterator_rust(T={run_['T']}, {r['case']['comp'] or 'no'} compression) raised {run_['error']} where the Python reader yields {run_.get('n', '?')} examples" if what else
                           f"as_numpy_iterator_rust(T={run_['T']}) raised {run_['error']}", {"case": r["case"], "run": run_}); continue
            if run_["kind"] == "payloads":
                if not run_["same"]:
                    ctx.report(dict(sig, what="payload-values"), f"the Rust reader and the Python reader disagree on examples holding constant / incompressible 1 MiB arrays ({r['case']['comp'] or 'no'} compression; rust {run_['n_rust']} vs python {run_['n']} examples)",
                               {"case": r["case"], "run": run_})
                continue
            if run_["kind"] == "layouts":
                if not run_["same"]:
                    ctx.report(dict(sig, what="attribute-values"), f"the Rust reader and the Python reader disagree on attribute values (several attributes, explicit byte-order dtypes): {json.dumps(run_['first_diff'])[:300]}",
                               {"case": r["case"], "run": run_})
                continue
            if run_["kind"] == "many-iterators":
                if run_["got"] != run_["want"]:
                    ctx.report(dict(sig, what="many-iterators"), f"a Rust iterator kept open while {run_['epochs']} other native iterators were created and finished in the same process yields {run_['got'][:12]} instead of {run_['want'][:12]}",
                               {"case": r["case"], "run": run_})
                continue
            if run_["kind"] == "repeat-small":
                if run_["got"] != run_["want"]:
                    ctx.report(dict(sig, what="repeat"), f"repeating stream over the first {run_['k']} shard(s), {run_['T']} threads: Rust reader {run_['got']} vs Python reader {run_['want']}", {"case": r["case"], "run": run_})
                continue
            if run_["kind"] == "overlap3":
                if run_.get("events"):
                    reg_reqs.append({"m": "reg", "handles": 3, "events": run_["events"]}); reg_meta.append((r, run_))
                if run_["got"] != run_["want"]:
                    bad = [k for k in ("A", "B", "C") if run_["got"][k] != run_["want"][k]]
                    ctx.report(dict(sig, what="overlapping-passes"), f"three overlapping Rust passes (A ends while B is mid-pass, then C opens): pass {bad[0]} yields {run_['got'][bad[0]][:12]} instead of {run_['want'][bad[0]][:12]}",
                               {"case": r["case"], "run": run_})
                continue
            if run_["kind"] == "full" and run_["got"] != r["python"]:
                ctx.report(dict(sig, what="differs"), f"rust reader (T={run_['T']}, {r['nshards']} shards, {r['case']['comp'] or 'no'} compression) yields {run_['got'][:12]}… python yields {r['python'][:12]}…",
                           {"case": r["case"], "run": run_, "python": r["python"]})
            if run_["kind"] == "shuffled" and sorted(run_["got"]) != sorted(r["python"]):
                ctx.report(dict(sig, what="multiset"), f"shuffled rust reader yields a different multiset (T={run_['T']})", {"case": r["case"], "run": run_})
            if run_["kind"] == "drop":
                if run_["got"] != r["python"][:run_["k"]]:
                    ctx.report(dict(sig, what="prefix"), f"rust reader prefix {run_['got']} != {r['python'][:run_['k']]}", {"case": r["case"], "run": run_})
                if run_["threads_alive"] > 0:
                    ctx.report(dict(sig, what="threads-alive"), f"{run_['threads_alive']} native threads still alive after the iterator was closed early (T={run_['T']}, k={run_['k']})", {"case": r["case"], "run": run_})
    # ---- correspondence with M-REG: the staggered-lifetime history replayed on the registry model (fresh keys) hands every handle what
    # the real iterators yielded
    reg_bad = []
    for (r, run_), rep in zip(reg_meta, lean.driver(reg_reqs) if reg_reqs else []):
        model = rep.get("got")
        if model is None or model != [run_["got"]["A"], run_["got"]["B"], run_["got"]["C"]]:
            reg_bad.append({"case": r["case"], "model": rep, "impl": run_["got"]})
    ctx.cov["registry_histories_replayed_on_M_REG"] = len(reg_meta) - len(reg_bad)
    if reg_bad and not ctx.violations and not ctx.known_hits:
        ctx.report({"kind": "correspondence-registry"}, f"M-REG (fresh keys) hands the handles {reg_bad[0]['model']}, the real iterators yielded {reg_bad[0]['impl']}",
                   {"correspondence": "M-REG got per handle = examples yielded by three Rust iterators with staggered life times", "theorem": "Sedpack.Reg.C15_fresh_keys_isolate_iterators", "cases": reg_bad[:2]},
                   name="corr-reg", nofail=True)
    if corr_bad and not ctx.violations and not ctx.known_hits:
        ctx.report({"kind": "correspondence"}, f"M-PMAP's output differs from parallel_map's: {corr_bad[0]}",
                   {"correspondence": "M-PMAP out under random schedules vs parallel_map (cargo harness)", "theorem": "Sedpack.PMap.C15_output_in_input_order", "cases": corr_bad[:3]}, name="corr", nofail=True)
    ctx.cov.update({
        "evaluations": len(lines) + nruns, "distinct_nontrivial": len({(l["kind"], l["n"], l["threads"]) for l in lines}) + len({(r["case"]["comp"], x["T"], x["kind"]) for r in recs for x in r["runs"]}),
        "traces_validated_against_impl": len(lines) - len(corr_bad),
        "rule": "parallel_map via a cargo integration test: n in {0,1,2,3,5,8,13} x threads in {1,2,3,4,9}, item-dependent delays (out-of-order completion), early drop after k in {0,1,2,n/2} "
                "with thread count from /proc/self/task, a consumer stalling 2.6 s; the rebuilt extension: as_numpy_iterator_rust vs as_numpy_iterator for threads in {1,2,#shards,#shards+3}, every "
                "supported compression, uneven shard sizes, nested lists, shuffled multiset, early close, payload kinds (all-zero / constant / incompressible 1 MiB arrays, a shard above 16 MiB), one iterator kept open across 10300 (70000) other iterators of the same process; model outputs under pseudo-random schedules compared with both",
        "samples": lines[:2] + [{"case": recs[0]["case"], "run": recs[0]["runs"][0]}],
        "input_distribution": {"cargo_cases": collections.Counter(l["kind"] for l in lines), "extension_runs": nruns, "cargo_rc": rc},
    })
