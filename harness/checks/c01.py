"""C01 — round-trip fidelity: every value read equals the value written.
Lean: SedpackProps/C01.lean over M-CODEC (SedpackModel/Codec.lean): little-endian element round trip
for every width and bit pattern, the byte-order decision for every tag x host, C-order flatten /
reshape for every rank, shape and memory layout, a whole FlatBuffers attribute, two's complement and
safe integer widening, plus SedpackProps/C01Gen.lean — tables *generated from the source on every
run* (TFRecord encode / decode per dtype, compress / decompress / Rust decoder arms, compression
lists, numpy's safe-cast relation) with theorems over them.
Correspondence: (a) byte level — for every FlatBuffers example written in the end-to-end runs the byte
vector found in the shard by an independent FlatBuffers walk equals M-CODEC's `encodeAttr`, and the
model's `decodeAttr` of those bytes equals what `decode_array` returns at every multi-index; (b) the
real `save_numpy_vector_as_bytearray` under every byte-order tag x claimed `sys.byteorder` swaps
exactly when `writerSwaps` says; (c) two's complement patterns vs numpy.
Oracle (end to end): formats x compressions x attribute lists x shapes of rank 0..4 x extreme / random
bit patterns x input presentations x every reader; bit patterns compared element by element."""
from __future__ import annotations
import collections, json, shutil, sys, time
from pathlib import Path
from harness.core import lean, sp, child
from harness import extract_tables as E

ASSUMPTIONS = [
    "'supported dtype': fb — bool, (u)int8..64, float16/32/64; npz — the same plus bytes and str; tfrec — the dtypes its encoder and decoder treat as the same kind "
    "(computed from the generated tables: int8, uint8, int32, int64, float16, float32, str, bytes)",
    "'safely castable narrower dtype': numpy casting='safe' and strictly smaller itemsize",
    "a write that is rejected with an exception, or a reader that raises, reads nothing back and is not a fidelity violation (counted in the evidence; C18 / C07 cover those)",
    "shapes have strictly positive dimensions (Attribute validation rejects the others)",
    "a NaN handed over in a narrower float dtype must come back as a NaN; which payload the widening cast gives it is not the container's business",
]
TRUSTED = ["external laws (hypotheses of C01_pipeline): FlatBuffers / npz / TFRecord containers return the byte vectors / arrays / features stored; "
           "gzip, bz2, lzma, lz4.frame, zstd decompress(compress(x)) = x; numpy astype between safely castable dtypes is exact",
           "the ast / regex extractor of the codec tables (harness/extract_tables.py)",
           "modelled-not-verified: numpy's flatten of a strided array (checked by correspondence (a) on every run), IEEE widening float16->32->64"]

INTS = ["int8", "int16", "int32", "int64", "uint8", "uint16", "uint32", "uint64"]
FLOATS = ["float16", "float32", "float64"]
FB_DTYPES = ["bool"] + INTS + FLOATS + [">i4", ">f8", ">u2", "<i2"]      # a declared dtype may carry an explicit byte order
NPZ_DTYPES = ["bool"] + INTS + FLOATS + ["bytes", "str"]
WRITER = {"fb": "ShardWriterFlatBuffer", "npz": "ShardWriterNP", "tfrec": "ShardWriterTFRec"}
READERS = ["sync", "concurrent", "async", "rust", "tf", "concurrent-pr"]     # "-pr": with a process_record that hands the decoded arrays on (views, not copies)


# ------------------------------------------------------------------------------------------------
# child side: value generation, writing, reading, canonical forms
# ------------------------------------------------------------------------------------------------
def _special_patterns(dtype: str):
    import numpy as np
    dt = np.dtype(dtype)
    bits = dt.itemsize * 8
    if dtype == "bool":
        return [0, 1]
    if dt.kind in "iu":
        return [0, 1, (1 << bits) - 1, 1 << (bits - 1), (1 << (bits - 1)) - 1, (1 << (bits - 1)) + 1]
    e, m = {16: (5, 10), 32: (8, 23), 64: (11, 52)}[bits]
    sign = 1 << (bits - 1)
    expall = ((1 << e) - 1) << m
    qbit = 1 << (m - 1)
    return [0, sign,                                  # +0.0, -0.0
            expall, expall | sign,                    # +inf, -inf
            expall | qbit, expall | qbit | 1, expall | qbit | sign | (qbit - 1),   # quiet NaNs with payloads
            expall | 1, expall | sign | (qbit - 1),   # signalling NaNs
            1, sign | 1, (1 << m) - 1,                # subnormals
            1 << m, expall - (1 << m) | ((1 << m) - 1),   # min normal, max finite
            ((1 << (e - 1)) - 1) << m]                # 1.0


def _rand_pattern(rng, dtype: str) -> int:
    import numpy as np
    if dtype == "bool":
        return rng.randrange(2)
    bits = np.dtype(dtype).itemsize * 8
    if rng.random() < 0.45:
        sp_ = _special_patterns(dtype)
        return sp_[rng.randrange(len(sp_))]
    return rng.getrandbits(bits)


def _uint_of(dtype: str):
    import numpy as np
    return np.dtype(f"uint{np.dtype(dtype).itemsize * 8}")


def _narrower(dtype: str):
    import numpy as np
    return [d for d in ["bool"] + INTS + FLOATS
            if d != dtype and np.dtype(d).itemsize < np.dtype(dtype).itemsize and np.can_cast(np.dtype(d), np.dtype(dtype), casting="safe")]


def _nested(shape, f, prefix=()):
    if len(prefix) == len(shape):
        return f(prefix)
    return [_nested(shape, f, prefix + (i,)) for i in range(shape[len(prefix)])]


def _indices(shape):
    import itertools
    return list(itertools.product(*[range(d) for d in shape]))


def _build_array(rng, shape, src_dtype: str, pats: dict, pres: str):
    """A numpy array with logical content pats[idx] (bit patterns of src_dtype) in presentation `pres`;
    filled element by element so that no numpy reordering routine is trusted on the writer's side."""
    import numpy as np
    u = _uint_of(src_dtype)
    if src_dtype == "bool":
        u = np.dtype("uint8")
    if len(shape) == 0 and pres in ("f", "strided", "reversed", "transposed"):
        a = np.full(3, 0x5A, dtype=u)[1:2].reshape(())       # a 0-d view into a larger buffer
    elif pres == "f":
        a = np.zeros(shape, dtype=u, order="F")
    elif pres == "strided":
        big = tuple(2 * d + 1 for d in shape)
        base = np.full(big, 0x5A, dtype=u)
        a = base[tuple(slice(1, None, 2) for _ in shape)]
    elif pres == "reversed":
        base = np.zeros(shape, dtype=u)
        a = base[tuple(slice(None, None, -1) for _ in shape)]
    elif pres == "transposed":
        base = np.zeros(tuple(reversed(shape)), dtype=u)
        a = base.T
    else:
        a = np.zeros(shape, dtype=u)
    for idx in _indices(shape):
        a[idx] = pats[idx]
    v = a.view(np.dtype(src_dtype)) if src_dtype != "bool" else a.view(np.bool_)
    if pres == "big":
        v = v.astype(np.dtype(src_dtype).newbyteorder(">"))
    if pres == "readonly":
        v = v.view()                     # a read-only view of a writeable buffer (e.g. a window into a capture the caller keeps filling)
        v.setflags(write=False)
    return v


def _canon_numeric(arr, want_dtype: str | None):
    """(dtype name, shape, nested bit patterns) of a read-back array, via logical indexing only."""
    import numpy as np
    a = np.asarray(arr)
    name = a.dtype.newbyteorder("=").name if a.dtype.kind != "b" else "bool"
    if want_dtype is not None and name != want_dtype:
        a = a.astype(np.dtype(want_dtype))       # (npz / tf may hand back a narrower or wider carrier; compare values in the declared dtype)
    u = _uint_of(a.dtype.name) if a.dtype.kind != "b" else np.dtype("uint8")
    flat = {}
    for idx in _indices(a.shape):
        x = a[idx]
        flat[idx] = int(np.array(x).view(u).reshape(()).item()) if a.dtype.kind != "b" else int(bool(x))
    return name, tuple(a.shape), flat


def _cast_pattern(src: str, dst: str, p: int) -> int:
    """bit pattern in dst of the value whose pattern in src is p (numpy scalar cast; safe casts only)"""
    import numpy as np
    if src == dst:
        return p
    us, ud = (_uint_of(src) if src != "bool" else np.dtype("uint8")), (_uint_of(dst) if dst != "bool" else np.dtype("uint8"))
    x = np.array(p, dtype=us).view(np.dtype(src) if src != "bool" else np.bool_)
    with np.errstate(all="ignore"):
        y = x.astype(np.dtype(dst))
    return int(y.view(ud).reshape(()).item())


def _gen_text(rng, kind: str):
    alphabet = ["a", "Z", "0", " ", "\x00", "é", "ß", "漢", "😀", "\n", "\x7f"]
    n = rng.choice([0, 1, 2, 3, 5, 9])
    if kind == "str":
        s = "".join(rng.choice(alphabet) for _ in range(n))
        if rng.random() < 0.3: s += "\x00"
        return s
    b = bytes(rng.choice([0, 0, 1, 65, 127, 128, 255, rng.randrange(256)]) for _ in range(n))
    if rng.random() < 0.3: b += b"\x00"
    return b


def fb_stored_vectors(ds, comp: str):
    """Independent walk of the FlatBuffers shards (format library + stdlib codecs only): the raw byte vector
    of every attribute of every example in shard enumeration order."""
    import bz2, gzip, lzma
    import sedpack.io.flatbuffer.shardfile.Shard as fbapi_Shard
    out = []
    for si in ds.shard_info_iterator("train"):
        data = (ds.path / si.file_infos[0].file_path).read_bytes()
        if comp in ("GZIP", "ZLIB"): data = gzip.decompress(data)
        elif comp == "BZ2": data = bz2.decompress(data)
        elif comp == "LZMA": data = lzma.decompress(data)
        elif comp == "LZ4":
            import lz4.frame; data = lz4.frame.decompress(data)
        elif comp == "ZSTD":
            import zstandard; data = zstandard.decompress(data)
        shard = fbapi_Shard.Shard.GetRootAs(data, 0)
        for i in range(shard.ExamplesLength()):
            ex = shard.Examples(i)
            out.append([bytes(ex.Attributes(j).AttributeBytesAsNumpy().tobytes()) if not ex.Attributes(j).AttributeBytesIsNone() else b""
                        for j in range(ex.AttributesLength())])
    return out


def _read_all(ds, reader: str, T: int):
    import asyncio
    kw = dict(split="train", repeat=False, shuffle=0)
    if reader == "sync":
        return list(ds.as_numpy_iterator(**kw))
    if reader == "concurrent":
        return list(ds.as_numpy_iterator_concurrent(file_parallelism=T, **kw))
    if reader == "concurrent-pr":
        # the caller's transformation keeps the arrays it is given (returns the dict itself / views of the arrays): every example
        # it has returned must keep its value while later examples are decoded
        def keep(d):
            import numpy as np
            return {k: (v[...] if isinstance(v, np.ndarray) and v.ndim else v) for k, v in d.items()}
        return list(ds.as_numpy_iterator_concurrent(file_parallelism=T, process_record=keep, **kw))
    if reader == "rust":
        return list(ds.as_numpy_iterator_rust(file_parallelism=T, **kw))
    if reader == "async":
        async def main():
            return [e async for e in ds.as_numpy_iterator_async(file_parallelism=T, **kw)]
        return asyncio.run(main())
    if reader == "tf":
        return list(ds.as_tfdataset(batch_size=0, file_parallelism=T, parallelism=2, prefetch=1, **kw).as_numpy_iterator())
    raise ValueError(reader)


def _norm(d: str) -> str:
    """the native-byte-order name of a declared dtype (">i4" -> "int32"); bytes / str unchanged"""
    import numpy as np
    return d if d in ("bytes", "str") else ("bool" if np.dtype(d).kind == "b" else np.dtype(d).newbyteorder("=").name)


def run_case(case):
    """One dataset: generate, write, read through every reader, compare.  Returns a result record."""
    import random
    import numpy as np
    from sedpack.io import Dataset, Attribute
    rng = random.Random(case["seed"])
    fmt, comp = case["fmt"], case["comp"]
    attrs = [Attribute(name=n, dtype=d, shape=tuple(s)) for n, d, s in case["attrs"]]     # as declared (may carry an explicit byte order)
    case = dict(case, declared=case["attrs"], attrs=[[n, _norm(d), s] for n, d, s in case["attrs"]])   # everything below works on native names
    root = Path(case["root"])
    shutil.rmtree(root, ignore_errors=True)
    res = {"case": dict({k: case[k] for k in case if k not in ("root", "declared")}, attrs=case["declared"]), "mismatches": [], "rejected": [], "reader_errors": [], "presentations": collections.Counter(),
           "patterns": collections.Counter(), "elements": 0, "fb_vectors": None, "expected": None, "written": 0}
    try:
        ds = sp.mk(root, fmt=fmt, comp=comp, eps=case["eps"], attrs=attrs)
    except Exception as e:  # noqa: BLE001
        res["create_error"] = f"{type(e).__name__}: {str(e)[:200]}"
        return res
    prev = {}              # attribute -> (source dtype, patterns) of the previous example (for the raw-byte twins)
    expected = []          # per written example: {name: ("num", decl dtype, shape, {idx: pattern}) | ("bytes", b) | ("str", s)}
    with ds.filler() as f:
        for ex_i in range(case["n"]):
            vals, exp, how = {}, {}, {}
            for n, d, s in case["attrs"]:
                s = tuple(s)
                if n == "id":
                    vals[n] = np.int64(ex_i) if rng.random() < 0.5 else np.array(ex_i, dtype=np.int64)
                    exp[n] = ("num", "int64", (), {(): ex_i}); how[n] = "id"
                    continue
                if d in ("bytes", "str"):
                    v = _gen_text(rng, d)
                    vals[n] = v; exp[n] = (d, v); how[n] = d
                    res["patterns"]["nul-tail" if (v[-1:] in ("\x00", b"\x00")) else ("empty" if len(v) == 0 else "text")] += 1
                    continue
                choices = ["c", "c", "f", "strided", "reversed", "transposed", "readonly"]
                if np.dtype(d).itemsize > 1: choices.append("big")
                nar = _narrower(d)
                if nar: choices += ["narrow", "narrow"]
                if len(s) == 0: choices += ["scalar", "scalar"]
                if d in ("int64", "float64"): choices.append("list")
                pres = rng.choice(choices)
                src = rng.choice(nar) if pres == "narrow" else d
                twin = None
                if case.get("twins"):
                    # pairs of examples whose *raw input bytes* coincide while their values differ: the same bytes handed over
                    # under another dtype of the same width, or byte-swapped under the other byte order
                    if ex_i % 2 == 0:
                        pres, src = "c", rng.choice([d] + nar)
                    elif n in prev:
                        psrc, ppats = prev[n]
                        k = np.dtype(psrc).itemsize
                        cands = [("dtype", x) for x in [d] + nar if x != psrc and np.dtype(x).itemsize == k and psrc != "bool" and x != "bool"]
                        if k > 1: cands.append(("swap", psrc))
                        if cands:
                            twin = rng.choice(cands)
                if twin is not None:
                    kind_, src = twin
                    if kind_ == "dtype":
                        pats = dict(prev[n][1]); pres = "c"
                    else:
                        kb = np.dtype(src).itemsize
                        pats = {idx: int.from_bytes(p.to_bytes(kb, "little"), "big") for idx, p in prev[n][1].items()}; pres = "big"
                    v = _build_array(rng, s, src, pats, pres)
                    how_twin = f"twin-{kind_}"
                else:
                    how_twin = None
                    pats = {idx: _rand_pattern(rng, src) for idx in _indices(s)}
                    if pres == "scalar":
                        u = _uint_of(src) if src != "bool" else np.dtype("uint8")
                        v = np.array(pats[()], dtype=u).view(np.dtype(src) if src != "bool" else np.bool_)[()]
                    elif pres == "list":
                        arr = _build_array(rng, s, src, pats, "c")
                        v = arr.tolist()
                        # a Python int/float carries the same value (float64 <-> Python float is the identity on bits)
                    elif pres == "narrow":
                        v = _build_array(rng, s, src, pats, rng.choice(["c", "f", "strided"]))
                    else:
                        v = _build_array(rng, s, src, pats, pres)
                prev[n] = (src, pats)
                vals[n] = v
                exp[n] = ("num", d, s, {idx: _cast_pattern(src, d, p) for idx, p in pats.items()})
                how[n] = (how_twin or pres) + (f":{src}" if src != d else "")      # "<presentation>[:<narrower source dtype>]"
                for p in pats.values():
                    res["patterns"]["special" if (d == "bool" or p in _special_patterns(src)) else "random"] += 1
            # a caller that first hands over a value the FlatBuffers writer must refuse (right shape, a dtype that cannot be cast
            # safely, on a non-first attribute), catches the error and carries on with the proper value: the accepted example that
            # follows in the same shard must read back exactly (the refusal itself is C18's subject)
            if case["fmt"] == "fb" and len(case["attrs"]) >= 2 and rng.random() < 0.3:
                cand = [(n, d, tuple(s_)) for n, d, s_ in case["attrs"][1:] if d not in ("bytes", "str")]
                if cand:
                    bn, bd, bs = cand[-1]
                    k = np.dtype(bd).kind
                    badv = np.full(bs, 1 + 2j, dtype=np.complex128) if bd == "float64" else np.full(bs, 0.5, dtype=np.float64)
                    try:
                        f.write_example(values=dict(vals, **{bn: badv}), split="train")
                        res["refusal_missing"] = res.get("refusal_missing", 0) + 1
                    except Exception:  # noqa: BLE001
                        res["refused_before_accept"] = res.get("refused_before_accept", 0) + 1
            try:
                f.write_example(values=vals, split="train")
            except Exception as e:  # noqa: BLE001
                res["rejected"].append({"example": ex_i, "how": how, "exc": f"{type(e).__name__}: {str(e)[:160]}"})
                continue
            finally:
                # the caller re-uses its buffers: whatever memory backed the values handed over is overwritten right after the
                # call (for a read-only view: its writeable base) — what is read back must be the value at the time of the write
                for v in vals.values():
                    if isinstance(v, np.ndarray):
                        r = v
                        while isinstance(r.base, np.ndarray):
                            r = r.base
                        if r.flags.writeable:
                            r.fill(0x25 if r.dtype.kind in "iub" else 1.5)
                            res["scrambled"] = res.get("scrambled", 0) + 1
            for h in how.values():
                res["presentations"][h.split(":")[0]] += 1
            expected.append((ex_i, exp, how))
    res["written"] = len(expected)
    ds = Dataset(root)

    def canon_expected(exp):
        out = {}
        for n, e in exp.items():
            out[n] = e
        return out

    def compare(reader, got_examples):
        """multiset comparison keyed by id when present"""
        has_id = any(n == "id" for n, _, _ in case["attrs"])
        decl = {n: (d, tuple(s)) for n, d, s in case["attrs"]}
        got_c = []
        for g in got_examples:
            c = {}
            for n, (d, s) in decl.items():
                if n not in g:
                    c[n] = ("missing",)
                    continue
                v = g[n]
                if d in ("bytes", "str"):
                    if isinstance(v, np.ndarray) and v.shape == ():
                        v = v[()]
                    if fmt == "tfrec" or reader == "tf":
                        # TFRecord / tf.data hand strings back as UTF-8 bytes
                        if isinstance(v, (bytes, np.bytes_)):
                            want_kind = "bytes"
                            c[n] = ("text", bytes(v))
                        else:
                            c[n] = ("text", str(v).encode("utf-8"))
                    else:
                        c[n] = ("text", bytes(v) if isinstance(v, (bytes, np.bytes_)) else str(v).encode("utf-8"))
                    continue
                want = "int64" if (fmt == "tfrec" and np.dtype(d).kind in "iu") else d
                name, shape, flat = _canon_numeric(v, want)
                c[n] = ("num", name, shape, flat)
            got_c.append(c)
        exp_c = []
        for ex_i, exp, how in expected:
            c = {}
            for n, e in exp.items():
                if e[0] in ("bytes", "str"):
                    c[n] = ("text", e[1] if e[0] == "bytes" else e[1].encode("utf-8"))
                else:
                    _, d, s, flat = e
                    want = "int64" if (fmt == "tfrec" and np.dtype(d).kind in "iu") else d
                    c[n] = ("num", want, s, {idx: _cast_pattern(d, want, p) for idx, p in flat.items()})
            exp_c.append((ex_i, c, how))
        if len(got_c) != len(exp_c):
            return [{"reader": reader, "kind": "count", "want": len(exp_c), "got": len(got_c)}]
        mism = []
        def key_of(c):
            return json.dumps({n: (list(v[:3]) + [sorted((list(k), p) for k, p in v[3].items())] if v[0] == "num" else [v[0], v[1].hex() if len(v) > 1 else ""]) for n, v in sorted(c.items())}, sort_keys=True)
        def diff(ex_i, c, g, how):
            for n in c:
                d, s = decl[n]
                w, h = c[n], g[n]
                if w[0] == "text":
                    if h != w:
                        return {"reader": reader, "kind": "text", "attr": n, "dtype": d, "example": ex_i, "want": w[1].hex(), "got": h[1].hex() if len(h) > 1 else None}
                    continue
                if h[0] != "num":
                    return {"reader": reader, "kind": "missing", "attr": n, "example": ex_i}
                if h[2] != w[2]:
                    return {"reader": reader, "kind": "shape", "attr": n, "dtype": d, "example": ex_i, "how": how[n], "want": list(w[2]), "got": list(h[2])}
                if fmt == "fb" and reader != "tf" and h[1] != w[1]:
                    return {"reader": reader, "kind": "dtype", "attr": n, "dtype": d, "example": ex_i, "how": how[n], "got": h[1]}
                if fmt == "tfrec" and np.dtype(d).kind in "iu" and h[1] != "int64":
                    return {"reader": reader, "kind": "dtype", "attr": n, "dtype": d, "example": ex_i, "how": how[n], "got": h[1]}
                bad = [idx for idx in w[3] if h[3].get(idx) != w[3][idx]]
                if ":" in how[n] and np.dtype(d).kind == "f":
                    # which NaN a narrower NaN widens to is the cast's choice, not the container's: any NaN will do
                    bad = [idx for idx in bad if not (_classify(d, w[3][idx]) in ("snan", "qnan") and h[3].get(idx) is not None
                                                      and _classify(d, h[3][idx]) in ("snan", "qnan"))]
                if bad:
                    idx = bad[0]
                    return {"reader": reader, "kind": "bits", "attr": n, "dtype": d, "shape": list(s), "example": ex_i, "how": how[n], "index": list(idx),
                            "want": hex(w[3][idx]), "got": hex(h[3][idx]) if h[3].get(idx) is not None else None, "n_bad": len(bad),
                            "class": _classify(d, w[3][idx])}
            return None
        if has_id:
            by_id = {}
            for c in got_c:
                try:
                    by_id.setdefault(c["id"][3][()], []).append(c)
                except Exception:  # noqa: BLE001
                    by_id.setdefault(None, []).append(c)
            for ex_i, c, how in exp_c:
                cands = by_id.get(ex_i, [])
                if len(cands) != 1:
                    mism.append({"reader": reader, "kind": "id-count", "example": ex_i, "got": len(cands)}); continue
                m = diff(ex_i, c, cands[0], how)
                if m: mism.append(m)
        else:
            # no id attribute: match equal examples greedily, then explain each leftover against its closest unmatched candidate
            left = list(got_c)
            todo = []
            for ex_i, c, how in exp_c:
                hit = next((g for g in left if diff(ex_i, c, g, how) is None), None)
                if hit is not None:
                    left.remove(hit)
                else:
                    todo.append((ex_i, c, how))
            for ex_i, c, how in todo:
                def score(g):
                    return sum(1 for n in c if g.get(n) == c[n] or (c[n][0] == "num" and g.get(n, ("",))[0] == "num" and g[n][3] == c[n][3]))
                g = max(left, key=score)
                left.remove(g)
                mism.append(diff(ex_i, c, g, how))
        return mism

    for reader in case["readers"]:
        T = 1 if reader == "sync" else rng.choice([1, 3])
        try:
            got = _read_all(ds, reader, T)
        except BaseException as e:  # noqa: BLE001
            res["reader_errors"].append({"reader": reader, "exc": f"{type(e).__name__}: {str(e)[:160]}"})
            continue
        res["elements"] += sum(len(e[3]) for _, ex, _ in expected for e in ex.values() if e[0] == "num")
        res["mismatches"] += compare(reader, got)
    # byte-level data for the model (fb only; small cases)
    if fmt == "fb" and expected and not res["rejected"]:
        try:
            vecs = fb_stored_vectors(ds, comp)
            items = []
            for (ex_i, exp, how), vec in zip(expected, vecs):
                for (n, d, s), raw in zip(case["attrs"], vec):
                    e = exp[n]
                    k = np.dtype(d).itemsize
                    # what decode_array makes of exactly these bytes (the real reader-side function)
                    from sedpack.io.flatbuffer.iterate import IterateShardFlatBuffer
                    dec = IterateShardFlatBuffer.decode_array(np.frombuffer(raw, dtype=np.uint8), next(a for a in attrs if a.name == n))
                    _, _, dflat = _canon_numeric(dec, None)
                    items.append({"attr": n, "dtype": d, "k": k, "shape": list(s), "nested": _nested(tuple(s), lambda idx: e[3][idx]),
                                  "bytes": list(raw), "decoded": [[list(idx), dflat[idx]] for idx in _indices(tuple(s))]})
            res["fb_vectors"] = items if len(vecs) == len(expected) else {"count_mismatch": [len(vecs), len(expected)]}
        except Exception as e:  # noqa: BLE001
            res["fb_vectors"] = {"error": f"{type(e).__name__}: {str(e)[:200]}"}
    res["presentations"] = dict(res["presentations"]); res["patterns"] = dict(res["patterns"])
    shutil.rmtree(root, ignore_errors=True)
    return res


def _classify(dtype: str, p: int) -> str:
    import numpy as np
    if dtype == "bool" or np.dtype(dtype).kind in "iu":
        return "int"
    bits = np.dtype(dtype).itemsize * 8
    e, m = {16: (5, 10), 32: (8, 23), 64: (11, 52)}[bits]
    expall = ((1 << e) - 1) << m
    if p & expall == expall and p & ((1 << m) - 1):
        return "snan" if not p & (1 << (m - 1)) else "qnan"
    return "float"


def run_cases(args):
    """(child) all cases of one format."""
    sp.sedpack(rust=True)
    out = []
    for c in args["cases"]:
        t0 = time.time()
        try:
            r = run_case(c)
        except BaseException as e:  # noqa: BLE001
            import traceback
            r = {"case": {k: c[k] for k in c if k != "root"}, "harness_error": f"{type(e).__name__}: {e}", "tb": traceback.format_exc()[-1500:]}
        r["secs"] = round(time.time() - t0, 2)
        out.append(r)
    return out


def bulk_payloads(a):
    """(child) large and extreme payloads: 9 MiB attributes (a shard above 16 MiB), all-zero and constant arrays (compression ratios
    in the thousands) and incompressible ones, through every reader the format x compression has.  Arrays are built and compared
    wholesale (md5 of the C-order bytes) — the element-wise machinery above covers the bit patterns, this covers the sizes."""
    import hashlib, shutil
    sp.sedpack(rust=True)
    import numpy as np
    from sedpack.io import Attribute, Dataset
    out = []
    for c in a["cases"]:
        root = c["root"]; shutil.rmtree(root, ignore_errors=True)
        H = c["size"]
        r = {"case": {k: c[k] for k in c if k != "root"}, "runs": []}
        try:
            ds = sp.mk(root, fmt=c["fmt"], comp=c["comp"], eps=2, attrs=[Attribute(name="id", dtype="int64", shape=()), Attribute(name="m", dtype="uint8", shape=(H,))])
            prng = np.random.default_rng(c["seed"])
            want = []
            with ds.filler() as f:
                for i, kind in enumerate(c["kinds"]):
                    m = {"zeros": np.zeros(H, np.uint8), "const": np.full(H, 0x5A, np.uint8), "random": prng.integers(0, 256, H, dtype=np.uint8)}[kind]
                    f.write_example(values={"id": np.int64(i), "m": m}, split="train")
                    want.append([i, hashlib.md5(m.tobytes()).hexdigest()])
            ds = Dataset(root)
            for rd in c["readers"]:
                try:
                    got = [[int(np.asarray(e["id"]).reshape(-1)[0]), hashlib.md5(np.ascontiguousarray(np.asarray(e["m"])).tobytes()).hexdigest()] for e in _read_all(ds, rd, 2)]
                    r["runs"].append({"reader": rd, "same": got == want, "n": len(got), "first_diff": next((i for i, (g, w) in enumerate(zip(got, want)) if g != w), None)})
                except BaseException as e:  # noqa: BLE001
                    r["runs"].append({"reader": rd, "error": f"{type(e).__name__}: {str(e)[:160]}"})
            r["want_n"] = len(want)
        except BaseException as e:  # noqa: BLE001
            r["error"] = f"{type(e).__name__}: {str(e)[:200]}"
        shutil.rmtree(root, ignore_errors=True)
        out.append(r)
    return out


def many_examples(a):
    """(child) one shard holding well over a thousand examples (a large examples_per_shard), with variable-length text and byte strings
    whose lengths *grow* along the shard and numeric values that change magnitude: every example read equals the one written, whatever
    its position in the shard."""
    import shutil
    sp.sedpack(rust=True)
    import numpy as np
    from sedpack.io import Attribute, Dataset
    out = []
    for c in a["cases"]:
        root = c["root"]; shutil.rmtree(root, ignore_errors=True)
        r = {"case": {k: c[k] for k in c if k != "root"}, "runs": []}
        try:
            with_text = c["fmt"] != "fb"                       # (fb has no variable-length text attributes)
            xdt = np.float32 if c["fmt"] == "tfrec" else np.float64         # (tfrec has no float64 features)
            attrs = [Attribute(name="id", dtype="int64", shape=()), Attribute(name="x", dtype=np.dtype(xdt).name, shape=(2,))]
            if with_text:
                attrs += [Attribute(name="s", dtype="str", shape=()), Attribute(name="b", dtype="bytes", shape=())]
            ds = sp.mk(root, fmt=c["fmt"], comp=c["comp"], eps=c["eps"], attrs=attrs)
            want = []
            with ds.filler() as f:
                for i in range(c["n"]):
                    sv = ("identifier-%d-é" % i) * (1 + i // 300)
                    bv = (b"\xff\x01" + str(i).encode()) * (1 + i // 250)
                    xv = np.array([i * 1e-30 if i % 2 else i * 1e30, -float(i)], dtype=xdt)
                    vals = {"id": np.int64(i), "x": xv}
                    if with_text: vals.update({"s": sv, "b": bv})
                    f.write_example(values=vals, split="train")
                    want.append([i, xv.tobytes().hex(), sv if with_text else None, bv.hex() if with_text else None])
            ds = Dataset(root)
            r["shards"] = [si.number_of_examples for si in ds.shard_info_iterator("train")]
            def canon(e):
                def txt(v, as_bytes):
                    if isinstance(v, np.ndarray): v = v.item() if v.shape == () else v.reshape(-1)[0]
                    if isinstance(v, str): v = v.encode("utf-8")
                    v = bytes(v)
                    return v.hex() if as_bytes else v.decode("utf-8", "replace")
                return [int(np.asarray(e["id"]).reshape(-1)[0]), np.ascontiguousarray(np.asarray(e["x"], dtype=xdt)).tobytes().hex(),
                        txt(e["s"], False) if with_text else None, txt(e["b"], True) if with_text else None]
            for rd in c["readers"]:
                try:
                    got = [canon(e) for e in _read_all(ds, rd, 2)]
                    bad = next((i for i, (g, w) in enumerate(zip(got, want)) if g != w), None)
                    r["runs"].append({"reader": rd, "same": got == want, "n": len(got), "first_diff": bad,
                                      "diff": None if bad is None else {"want": [str(x)[:60] for x in want[bad]], "got": [str(x)[:60] for x in got[bad]]}})
                except BaseException as e:  # noqa: BLE001
                    r["runs"].append({"reader": rd, "error": f"{type(e).__name__}: {str(e)[:160]}"})
            r["want_n"] = len(want)
        except BaseException as e:  # noqa: BLE001
            r["error"] = f"{type(e).__name__}: {str(e)[:200]}"
        shutil.rmtree(root, ignore_errors=True)
        out.append(r)
    return out


def overlapping_rust_readers(a):
    """(child) several Rust-backed readers alive in one process with staggered life times, over splits that hold *different* values:
    A (train) is opened first, then B (test); A runs to its end and is released while B is in mid-pass; C (train) is opened; B and C
    are consumed alternately.  Every reader yields exactly the values written to its own split."""
    import shutil
    sp.sedpack(rust=True)
    import numpy as np
    from sedpack.io import Attribute, Dataset
    out = []
    for c in a["cases"]:
        root = c["root"]; shutil.rmtree(root, ignore_errors=True)
        r = {"case": {k: c[k] for k in c if k != "root"}}
        try:
            ds = sp.mk(root, fmt="fb", comp=c["comp"], eps=2, attrs=[Attribute(name="id", dtype="int64", shape=()), Attribute(name="x", dtype="float32", shape=(3,))])
            want = {"train": [], "test": []}
            with ds.filler() as f:
                for split, base in (("train", 1000), ("test", 2000)):
                    for i in range(c["n"]):
                        x = np.array([base + i, -(base + i), 0.5], dtype=np.float32)
                        f.write_example(values={"id": np.int64(base + i), "x": x}, split=split); want[split].append([base + i, x.tobytes().hex()])
            ds = Dataset(root)
            canon = lambda e: [int(np.asarray(e["id"]).reshape(-1)[0]), np.ascontiguousarray(np.asarray(e["x"], dtype=np.float32)).tobytes().hex()]
            rust = lambda split: ds.as_numpy_iterator_rust(split=split, repeat=False, shuffle=0, file_parallelism=2)
            got = {"A": [], "B": [], "C": []}
            A = rust("train"); got["A"].append(canon(next(A)))
            B = rust("test"); got["B"].append(canon(next(B)))
            got["A"] += [canon(e) for e in A]; del A
            C = rust("train")
            its, live = {"B": B, "C": C}, ["B", "C"]
            while live:
                for nm in list(live):
                    try: got[nm].append(canon(next(its[nm])))
                    except StopIteration: live.remove(nm)
            r["same"] = {"A": got["A"] == want["train"], "B": got["B"] == want["test"], "C": got["C"] == want["train"]}
            r["lens"] = {k: len(v) for k, v in got.items()}
            r["first_foreign"] = next(([nm, g] for nm, sp_ in (("A", "train"), ("B", "test"), ("C", "train")) for g in got[nm] if g not in want[sp_]), None)
        except BaseException as e:  # noqa: BLE001
            r["error"] = f"{type(e).__name__}: {str(e)[:160]}"
        shutil.rmtree(root, ignore_errors=True)
        out.append(r)
    return out


def swap_probe(_):
    """(child) the real save_numpy_vector_as_bytearray under every byte-order tag x claimed sys.byteorder."""
    sp.sedpack()
    import sys as _sys
    import numpy as np
    import flatbuffers
    from sedpack.io import Attribute
    from sedpack.io.shard.shard_writer_flatbuffer import ShardWriterFlatBuffer as W
    import sedpack.io.shard.shard_writer_flatbuffer as mod
    out = []
    real = _sys.byteorder
    class FakeSys:
        def __init__(self, bo): self.byteorder = bo
    for tag, dts in (("=", ["int32", "float64", "uint16"]), (">", [">i4", ">f8", ">u2"]), ("<", ["<i4", "<f8", "<u2"]), ("|", ["int8", "uint8"])):
        for dt in dts:
            for host in ("big", "little"):
                vals = np.arange(1, 7).astype(np.dtype(dt).newbyteorder("=")) * 3 + 1
                mod.sys = FakeSys(host)
                try:
                    b = flatbuffers.Builder(0)
                    W.save_numpy_vector_as_bytearray(b, Attribute(name="a", dtype=dt, shape=(6,)), vals)
                    k = np.dtype(dt).itemsize
                    stored = bytes(b.Bytes[b.Head() + 4: b.Head() + 4 + 6 * k])
                    # numpy reports explicit little-endian as '=' on a little-endian machine: the tag the code sees
                    seen = np.array(vals, dtype=dt).dtype.byteorder
                    mem = np.array(vals, dtype=dt).tobytes()
                    swapped = (k > 1) and stored == b"".join(mem[i:i + k][::-1] for i in range(0, len(mem), k))
                    same = stored == mem
                    out.append({"dtype": dt, "tag": seen, "host": host, "k": k, "swapped": bool(swapped), "same": bool(same)})
                except Exception as e:  # noqa: BLE001
                    out.append({"dtype": dt, "tag": tag, "host": host, "exc": f"{type(e).__name__}: {e}"})
                finally:
                    mod.sys = _sys
    return {"results": out, "real_host": real}


# ------------------------------------------------------------------------------------------------
# parent side
# ------------------------------------------------------------------------------------------------
def pre_build(ctx):
    E.gen_c01()


def _shape(rng, rank):
    dims = [rng.choice([1, 1, 2, 2, 3, 4]) for _ in range(rank)]
    return dims


def make_cases(ctx, tables):
    rng = ctx.rng("c01")
    comps = dict((c, l) for c, l in tables["compressions"])
    rust_comps = {a for a, _ in tables["rust"]}
    dtypes = {"fb": FB_DTYPES, "npz": NPZ_DTYPES, "tfrec": list(tables["tfrecSupported"])}
    cases = {f: [] for f in ("fb", "npz", "tfrec")}
    per_fmt = ctx.pick({"fb": 60, "npz": 40, "tfrec": 36}, {"fb": 400, "npz": 240, "tfrec": 200})
    for fmt in cases:
        clist = list(comps.get(WRITER[fmt], [""]))
        dts = dtypes[fmt]
        for i in range(per_fmt[fmt]):
            comp = clist[i % len(clist)]
            nattr = 1 + (i % 3)
            attrs = []
            with_id = (i % 5 != 4)
            if with_id:
                attrs.append(["id", "int64", []])
            for j in range(nattr):
                d = dts[(i * 3 + j * 5 + rng.randrange(len(dts))) % len(dts)] if i >= len(dts) else dts[(i + j * 7) % len(dts)]
                rank = 0 if d in ("bytes", "str") else (i + j) % 5
                attrs.append([f"a{j}", d, _shape(rng, rank)])
            readers = [r for r in READERS if (r != "async" or fmt in ("fb", "npz")) and (r != "rust" or (fmt == "fb" and comp in rust_comps))]
            if not ctx.thorough and i % 3:
                # quick: always the sync reader, the others in rotation
                others = [r for r in readers if r != "sync"]
                readers = ["sync"] + ([others[i % len(others)]] if others else [])
            cases[fmt].append({"fmt": fmt, "comp": comp, "attrs": attrs, "n": rng.choice([4, 5, 7]), "eps": rng.choice([2, 3]), "seed": rng.randrange(1 << 30), "readers": readers,
                               "twins": i % 4 == 1})
    return cases


def run(ctx):
    tables = lean.driver([{"m": "codec", "op": "tables"}])[0]
    if ctx.replay:
        rp = json.loads(Path(ctx.replay).read_text())
        cases = {rp["case"]["fmt"]: [rp["case"]]} if "case" in rp else {}
    else:
        cases = make_cases(ctx, tables)
    # ---- end to end, one child per format, in parallel
    import concurrent.futures as cf
    results = []
    def go(fmt):
        cs = [dict(c, root=str(ctx.scratch / f"c01_{fmt}_{i}")) for i, c in enumerate(cases[fmt])]
        return child.call("harness.checks.c01", "run_cases", {"cases": cs}, timeout=3000)
    with cf.ThreadPoolExecutor(max_workers=3) as ex:
        futs = {f: ex.submit(go, f) for f in cases if cases[f]}
        for f, fu in futs.items():
            try:
                results += fu.result()
            except (child.ChildTimeout, child.ChildError) as e:
                raise RuntimeError(f"C01 child for {f} failed: {e}")
    herr = [r for r in results if "harness_error" in r]
    if herr:
        raise RuntimeError(f"C01 harness error: {herr[0]['harness_error']}\n{herr[0].get('tb')}")
    # ---- oracle
    nmis = 0
    for r in results:
        c = r["case"]
        for m in r["mismatches"]:
            nmis += 1
            sig = {"fmt": c["fmt"], "kind": m["kind"], "dtype": m.get("dtype"), "class": m.get("class") if m["kind"] == "bits" else None,
                   }
            if m["kind"] == "text":
                want = bytes.fromhex(m["want"]); got = bytes.fromhex(m["got"]) if m.get("got") is not None else None
                sig["class"] = "trailing-nul" if (got is not None and want.rstrip(b"\x00") == got and want != got) else "text"
            ctx.report(sig, f"{c['fmt']}/{c['comp'] or '-'} reader {m['reader']}: attribute {m.get('attr')} ({m.get('dtype')}) of example {m.get('example')} "
                            f"written as {m.get('how')} read back differently ({m['kind']}: want {m.get('want')}, got {m.get('got')})", {"case": c, "mismatch": m})
        # a native presentation of a supported dtype must never be rejected
        for rej in r["rejected"]:
            if all(h in ("c", "id", "bytes", "str", "readonly") for h in rej["how"].values()):
                ctx.report({"fmt": c["fmt"], "kind": "native-rejected"}, f"{c['fmt']}/{c['comp'] or '-'}: a C-contiguous native value of the declared dtype was rejected: {rej['exc']}",
                           {"case": c, "rejected": rej})
        if r.get("create_error"):
            ctx.report({"fmt": c["fmt"], "kind": "create"}, f"{c['fmt']}/{c['comp'] or '-'}: dataset could not be created: {r['create_error']}", {"case": c})
    # ---- sizes: shards above 16 MiB, constant and incompressible payloads
    rust_comps = {x for x, _ in tables["rust"]}
    fbc = [c for c in dict((c, l) for c, l in tables["compressions"]).get(WRITER["fb"], [""])]
    pick = fbc if ctx.thorough else [c for c in fbc if c in ("GZIP",)] + [fbc[ctx.seed % len(fbc)]]
    bcases = [{"root": str(ctx.scratch / f"c01_bulk_{i}"), "fmt": "fb", "comp": comp, "size": 9 << 20, "kinds": ["random", "zeros", "random", "const"], "seed": ctx.seed + i,
               "readers": ["sync"] + (["rust"] if comp in rust_comps else ["concurrent"])} for i, comp in enumerate(dict.fromkeys(pick))]
    bulk = child.call("harness.checks.c01", "bulk_payloads", {"cases": bcases}, timeout=1200) if not ctx.replay else []
    for b in bulk:
        c = b["case"]
        if "error" in b:
            ctx.report({"fmt": "fb", "kind": "bulk-create"}, f"fb/{c['comp'] or '-'}: writing 4 examples of {c['size'] >> 20} MiB failed: {b['error']}", {"bulk_case": c}); continue
        for x in b["runs"]:
            if "error" in x or not x["same"]:
                ctx.report({"fmt": "fb", "kind": "bulk", "reader": x["reader"], "comp": c["comp"]},
                           f"fb/{c['comp'] or '-'} reader {x['reader']}: examples holding {c['size'] >> 20} MiB arrays (random / all-zero / constant; shards above 16 MiB) "
                           + (f"raised {x['error']}" if "error" in x else f"read back differently (first difference at example {x['first_diff']}, {x['n']} of {b['want_n']} examples)"),
                           {"bulk_case": c, "run": x})
    # ---- several Rust-backed readers alive at once over splits with different values
    ocases = [{"root": str(ctx.scratch / f"c01_ovl_{i}"), "comp": comp, "n": 9} for i, comp in enumerate(["", "LZ4"][: ctx.pick(1, 2)] if not ctx.thorough else ["", "LZ4", "GZIP"])]
    for b in (child.call("harness.checks.c01", "overlapping_rust_readers", {"cases": ocases}, timeout=600) if not ctx.replay else []):
        if b.get("error") or not all(b["same"].values()):
            ctx.report({"fmt": "fb", "kind": "overlapping-readers", "reader": "rust"},
                       f"fb/{b['case']['comp'] or '-'}: three Rust readers with staggered life times over two splits: {b.get('error') or ''} {b.get('same')} lengths {b.get('lens')}; "
                       f"first value that was never written to the split being read: {b.get('first_foreign')}", {"overlap_case": b["case"], "result": {k: v for k, v in b.items() if k != 'case'}})
    # ---- counts: one shard with well over a thousand examples
    mcases = [{"root": str(ctx.scratch / f"c01_many_{i}"), "fmt": fmt, "comp": comp, "eps": 5000, "n": ctx.pick(1300, 4200),
               "readers": ["sync", "concurrent"] + (["rust"] if fmt == "fb" else []) + (["tf"] if ctx.thorough and fmt != "npz" else [])}      # (as_tfdataset has no text attributes for npz)
              for i, (fmt, comp) in enumerate([("npz", ""), ("npz", "ZIP"), ("fb", "LZ4"), ("tfrec", "")][: ctx.pick(3, 4)] if not ctx.thorough else [("npz", ""), ("npz", "ZIP"), ("fb", "LZ4"), ("tfrec", "")])]
    many = child.call("harness.checks.c01", "many_examples", {"cases": mcases}, timeout=1800) if not ctx.replay else []
    for b in many:
        c = b["case"]
        if "error" in b:
            ctx.report({"fmt": c["fmt"], "kind": "many-create"}, f"{c['fmt']}/{c['comp'] or '-'}: writing {c['n']} examples into one shard failed: {b['error']}", {"many_case": c}); continue
        for x in b["runs"]:
            if "error" in x or not x["same"]:
                ctx.report({"fmt": c["fmt"], "kind": "many", "reader": x["reader"]},
                           f"{c['fmt']}/{c['comp'] or '-'} reader {x['reader']}: a shard of {c['n']} examples (text and byte strings growing along the shard) "
                           + (f"raised {x['error']}" if "error" in x else f"read back differently from example {x['first_diff']} on ({x['n']} of {b['want_n']} examples): {x['diff']}"),
                           {"many_case": c, "run": x})
    # ---- correspondence (a): byte vectors vs M-CODEC
    reqs, owners = [], []
    for r in results:
        if isinstance(r.get("fb_vectors"), list):
            for it in r["fb_vectors"]:
                reqs.append({"m": "codec", "op": "attr", "tag": "|" if it["k"] == 1 else "=", "host": sys.byteorder, "k": it["k"], "shape": it["shape"], "nested": it["nested"]})
                owners.append((r, it))
        elif r.get("fb_vectors") is not None:
            reqs.append(None); owners.append((r, r["fb_vectors"]))
    corr_bad = []
    live = [q for q in reqs if q is not None]
    reps = iter(lean.driver(live)) if live else iter(())
    for q, (r, it) in zip(reqs, owners):
        if q is None:
            corr_bad.append({"case": r["case"], "problem": it}); continue
        rep = next(reps)
        if rep.get("bytes") != it["bytes"]:
            corr_bad.append({"case": r["case"], "attr": it["attr"], "dtype": it["dtype"], "shape": it["shape"], "model_bytes": rep.get("bytes"), "impl_bytes": it["bytes"], "nested": it["nested"]})
            continue
        want = {tuple(i): v for i, v in zip(rep["indices"], rep["decoded"])}
        got = {tuple(i): v for i, v in it["decoded"]}
        if want != got:
            corr_bad.append({"case": r["case"], "attr": it["attr"], "dtype": it["dtype"], "shape": it["shape"], "model_decoded": rep["decoded"], "impl_decoded": it["decoded"]})
    # ---- correspondence (b): the swap decision
    sw = child.call("harness.checks.c01", "swap_probe", None, timeout=300)
    sreqs = [{"m": "codec", "op": "swaps", "tag": x["tag"], "host": x["host"]} for x in sw["results"] if "exc" not in x]
    sreps = lean.driver(sreqs)
    swap_bad = [x for x in sw["results"] if "exc" in x]
    for x, rep in zip([x for x in sw["results"] if "exc" not in x], sreps):
        if x["k"] == 1:
            ok = x["same"]                       # one-byte elements: swapping is the identity
        else:
            ok = (x["swapped"] == rep["swaps"]) and (x["same"] == (not rep["swaps"]))
        if not ok:
            swap_bad.append(dict(x, model_swaps=rep["swaps"]))
    # ---- correspondence (c): two's complement vs numpy
    import numpy as np
    prng = ctx.rng("patterns")
    preqs, pwant = [], []
    for d in INTS:
        bits = np.dtype(d).itemsize * 8; signed = np.dtype(d).kind == "i"
        info = np.iinfo(d)
        for v in [info.min, info.max, 0, -1 if signed else 1] + [prng.randrange(info.min, info.max + 1) for _ in range(ctx.pick(20, 200))]:
            preqs.append({"m": "codec", "op": "pattern", "bits": bits, "signed": signed, "v": int(v)})
            pwant.append(int(np.array(v, dtype=d).view(f"uint{bits}").item()))
    preps = lean.driver(preqs)
    pat_bad = [(q, rep) for q, w, rep in zip(preqs, pwant, preps) if rep.get("pattern") != w or not rep.get("holds")]
    broken = []
    if corr_bad: broken.append(("M-CODEC encodeAttr/decodeAttr = stored byte vector / decode_array", "Sedpack.Codec.C01_attribute_roundtrip", corr_bad[:3]))
    if swap_bad: broken.append(("M-CODEC writerSwaps = the writer's byte-swap decision", "Sedpack.Codec.C01_stored_is_little_endian", swap_bad[:3]))
    if pat_bad: broken.append(("M-CODEC toPattern = numpy two's complement", "Sedpack.Codec.C01_int_pattern_roundtrip", pat_bad[:3]))
    if broken and not ctx.violations:
        name, thm, ex = broken[0]
        ctx.report({"kind": "correspondence", "which": name}, f"correspondence broken: {name}: {json.dumps(ex[0], default=str)[:400]}",
                   {"correspondence": name, "theorem": thm, "cases": ex}, name="corr", nofail=True)
    elif broken:
        ctx.notes.append(f"correspondence also differs: {[b[0] for b in broken]}")
    # ---- evidence
    pres = collections.Counter(); pats = collections.Counter(); cells = set(); rdr = collections.Counter(); rerrs = collections.Counter(); rej = collections.Counter()
    for r in results:
        c = r["case"]
        pres.update(r.get("presentations", {})); pats.update(r.get("patterns", {}))
        for n, d, s in c["attrs"]:
            for rd in c["readers"]:
                cells.add((c["fmt"], c["comp"], d, len(s), rd))
        for rd in c["readers"]: rdr[f"{c['fmt']}:{rd}"] += 1
        for e in r["reader_errors"]: rerrs[f"{c['fmt']}:{e['reader']}:{e['exc'][:60]}"] += 1
        for e in r["rejected"]: rej[",".join(sorted(set(h.split(':')[0] for h in e["how"].values())))] += 1
    ctx.cov.update({
        "evaluations": sum(r.get("written", 0) * len(r["case"]["readers"]) for r in results) + len(live) + len(sreqs) + len(preqs),
        "distinct_nontrivial": len(cells),
        "traces_validated_against_impl": len(live) - len(corr_bad) + len(sreqs) - len(swap_bad) + len(preqs) - len(pat_bad),
        "rule": "datasets per format x every compression its writer lists (generated table) x attribute lists (1..4 attributes incl. an id; ~1/5 without id, compared as multisets) x "
                "shapes of rank 0..4 x bit patterns (45% from: +-0, +-inf, quiet/signalling NaNs with payloads, subnormals, min/max; else uniform random bits) x presentations "
                "(C, F, strided view, reversed, transposed, read-only, big-endian, safely castable narrower dtype, numpy scalar, nested list; in a quarter of the datasets consecutive examples are "
                "*twins*: identical raw input bytes under another dtype of the same width or under the other byte order, i.e. different values) x readers; element-wise bit comparison; "
                "fb: stored byte vectors (independent FlatBuffers walk) = M-CODEC encodeAttr, decode_array = decodeAttr; swap decision for 4 tags x 2 claimed hosts; int patterns vs numpy",
        "samples": [{"case": r["case"], "written": r.get("written"), "mismatches": len(r["mismatches"])} for r in results[:3]],
        "input_distribution": {"datasets": len(results), "elements_compared": sum(r.get("elements", 0) for r in results), "presentations": dict(pres), "patterns": dict(pats),
                               "reader_runs": dict(rdr), "reader_errors": dict(rerrs), "rejected_writes_by_presentation": dict(rej), "mismatches": nmis,
                               "fb_byte_vectors_checked": len(live), "bulk_payload_runs": sum(len(b.get("runs", [])) for b in bulk), "many_example_shard_runs": sum(len(b.get("runs", [])) for b in many), "caller_buffers_overwritten_after_write": sum(r.get("scrambled", 0) for r in results), "max_secs_per_dataset": max([r.get("secs", 0) for r in results] or [0])},
    })
