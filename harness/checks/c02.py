"""C02 — exactly-once delivery.  Lean: SedpackProps/C02.lean (stage permutation theorems and their
composition per interface).  Correspondence: the real shuffle_buffer / round_robin (sync + async) are
observed at their boundary on counting sources and the traces replayed through the monitors; the
lazy pool runs under the deterministic scheduler (shared with C13).  Oracle: end-to-end datasets read
through every interface; multisets compared, transformation applications counted."""
from __future__ import annotations
import collections, json, shutil
from harness.core import lean, sp, child
from harness.checks import iter_common as I

ASSUMPTIONS = ["tf.data interleave/shuffle/map and the Rust reader's thread timing are specified externals (their outputs are compared, not their steps)",
               "file_parallelism >= 1 and shuffle >= 0 (the property's own ranges)"]
TRUSTED = ["modelled-not-verified: tf.data, concurrent.futures ordered map, asyncio/asyncstdlib, Rust std::sync::mpsc"]


def stage_cases(ctx):
    rng = ctx.rng("c02-stage")
    cases = []
    for n in [0, 1, 2, 3, 5, 8]:
        for b in sorted({1, 2, max(1, n - 1), max(1, n), n + 1, n + 3}):
            cases.append(("sb", list(range(100, 100 + n)), b))
            cases.append(("sb_async", list(range(100, 100 + n)), b))
    for _ in range(ctx.pick(10, 100)):
        k = rng.randrange(0, 7)
        inners, nxt = [], 0
        for _ in range(k):
            m = rng.choice([0, 1, 1, 2, 3, 5]); inners.append(list(range(nxt, nxt + m))); nxt += m
        b = rng.choice([1, 2, 3, max(1, k - 1), max(1, k), k + 1, k + 2])
        cases.append(("rr", inners, b)); cases.append(("rr_async", inners, b))
    return cases


def run_e2e(args):
    """(child) build datasets and read them through every interface."""
    sp.sedpack(rust=True)
    from sedpack.io import Dataset
    out = []
    for a in args:
        root = a["root"]
        ds, written = I.build_dataset(root, a["fmt"], a["comp"], a["eps"], a["plan"], hashes=tuple(a.get("hashes", ("sha256",))))
        ds = Dataset(root)
        enum, enum_err = I.safe_enumeration(ds)
        rec = {"case": {k: a[k] for k in a if k != "root"}, "written": written, "enum_error": enum_err,
               "enumerated": {s: [x for sh in enum.get(s, []) for x in sh] for s in written}, "runs": []}
        for split in [s for s in written if written[s]]:
            nsh = len(enum.get(split, [])) or 1
            for iface in I.IFACES:
                if not I.supports(iface, a["fmt"], a["comp"]):
                    continue
                for shuffle, T in a["configs"] + ([(0, None)] if iface == "tf" else []):       # as_tfdataset documents file_parallelism=None
                    T = None if T is None else max(1, T if T > 0 else nsh + (-T))
                    try:
                        got, calls = I.run_iface(ds, iface, split, shuffle=shuffle, T=T, process=True)
                        rec["runs"].append({"iface": iface, "split": split, "shuffle": shuffle, "T": T, "got": got, "calls": calls})
                    except Exception as e:  # noqa: BLE001
                        rec["runs"].append({"iface": iface, "split": split, "shuffle": shuffle, "T": T, "error": f"{type(e).__name__}: {str(e)[:200]}"})
        # read - append - read on the *same* handle: a pass after a further writing session sees the new examples too
        if a.get("append"):
            split0 = next((s for s in written if written[s]), None)
            if split0 is not None:
                extra = list(range(10 ** 5, 10 ** 5 + a["append"]))
                try:
                    with ds.filler() as f:
                        for v in extra:
                            f.write_example(values=sp.val(v), split=split0)
                    for iface in I.IFACES:
                        if not I.supports(iface, a["fmt"], a["comp"]):
                            continue
                        shuffle, T = a["configs"][0]
                        T = max(1, T if T > 0 else 2)
                        try:
                            got, _ = I.run_iface(ds, iface, split0, shuffle=shuffle, T=T)
                            rec["runs"].append({"iface": iface, "split": split0, "shuffle": shuffle, "T": T, "got": got, "calls": None, "after_append": extra})
                        except Exception as e:  # noqa: BLE001
                            rec["runs"].append({"iface": iface, "split": split0, "shuffle": shuffle, "T": T, "error": f"{type(e).__name__}: {str(e)[:200]}", "after_append": extra})
                except Exception as e:  # noqa: BLE001
                    rec["runs"].append({"iface": "filler", "split": split0, "shuffle": 0, "T": 1, "error": f"append session: {type(e).__name__}: {str(e)[:200]}", "after_append": extra})
        out.append(rec)
        shutil.rmtree(root, ignore_errors=True)
    return out


def e2e_cases(ctx):
    rng = ctx.rng("c02-e2e")
    cases = []
    n = ctx.pick(9, 36)
    for i in range(n):
        fmt = ["fb", "npz", "tfrec"][i % 3]
        comp = rng.choice({"fb": ["", "LZ4", "GZIP", "ZSTD"], "npz": ["", "ZIP"], "tfrec": ["", "GZIP"]}[fmt])
        eps = rng.choice([1, 2, 3, 5])
        nsplits = rng.choice([1, 2, 3])
        plan = [{"sub": ".", "writes": [(s, rng.choice([1, eps, eps + 1, 2 * eps + 1, 3 * eps])) for s in range(nsplits)]}]
        if rng.random() < 0.6:     # nested shard lists
            plan.append({"sub": rng.choice(["a", "a/b", "c"]), "writes": [(rng.randrange(nsplits), rng.choice([1, eps + 1]))]})
        if rng.random() < 0.3:
            plan.append({"sub": "d", "writes": [(0, 2 * eps)]})
        big = 10 ** 6
        configs = [(0, 1), (0, -1), (1, 1), (2, 2), (big, -2), (rng.choice([3, 7]), rng.choice([1, 2, 3]))]
        if not ctx.thorough:
            configs = [configs[0], configs[2 + i % 2], configs[4]]
        cases.append({"root": str(ctx.scratch / f"e2e{i}"), "fmt": fmt, "comp": comp, "eps": eps, "plan": plan, "configs": configs,
                      # no checksum algorithm at all is a valid configuration: nothing may depend on the digests being distinct
                      "hashes": [["sha256"], [], ["md5", "xxh64"]][(i // 3 + i) % 3], "append": [0, 3, 1][i % 3]})
    # a *declared* shard size far beyond what is ever written (65537, a million, 2^31-1 examples per shard): the declared number is a
    # bound for the writer, nothing a reader may derive buffer or batch sizes from
    for j, big_eps in enumerate([65537, 10 ** 6, 2 ** 31 - 1][: ctx.pick(2, 3)] if not ctx.thorough else [65537, 10 ** 6, 2 ** 31 - 1]):
        fmt = ["npz", "fb", "tfrec"][(j + ctx.seed) % 3]
        cases.append({"root": str(ctx.scratch / f"e2e_bigeps{j}"), "fmt": fmt, "comp": "", "eps": big_eps,
                      "plan": [{"sub": ".", "writes": [(0, 3), (1, 2)]}, {"sub": "a", "writes": [(0, 4)]}, {"sub": ".", "writes": [(0, 2)]}],
                      "configs": [(0, 1), (0, -1), (2, 2)], "hashes": ["sha256"], "append": 1})
    return cases


def run(ctx):
    # ---- stage level
    st = stage_cases(ctx)
    reqs, obs = [], []
    for kind, data, b in st:
        if kind == "sb": log, out, err = I.trace_sb(data, b)
        elif kind == "sb_async": log, out, err = I.trace_sb_async(data, b)
        elif kind == "rr": log, out, err = I.trace_rr(data, b)
        else:
            log, out, err = I.trace_rr_async(data, b); log = I.normalize_rr(log)
        obs.append((kind, data, b, log, out, err))
        reqs.append({"m": "sb" if kind.startswith("sb") else "rr", "b": b, "trace": log})
    reps = lean.driver(reqs)
    corr_bad = []
    for (kind, data, b, log, out, err), rep in zip(obs, reps):
        flat = data if kind.startswith("sb") else [x for es in data for x in es]
        if err or collections.Counter(out) != collections.Counter(flat):
            ctx.report({"kind": "stage-multiset", "stage": kind},
                       f"{kind}(b={b}) over {data} yielded {out} ({err})", {"stage": kind, "input": data, "b": b, "output": out, "error": err})
            continue
        ok = rep.get("ok") and (rep.get("phase") == "done" if kind.startswith("sb") else (rep.get("finished") and rep.get("outerDone")))
        if not ok or rep.get("out") != out:
            corr_bad.append({"stage": kind, "input": data, "b": b, "trace": log[:60], "model": rep})
    # ---- the generators must treat every element as data: None, 0, False, "", () are legal elements (a process_record may return them)
    import asyncio
    from sedpack.io.itertools import shuffle_buffer, round_robin, shuffle_buffer_async, round_robin_async
    falsy = [None, 0, False, "", (), 0.0, [], 1, 2, None, 3, 0]
    nfalsy = 0
    def key(x): return repr(x) + type(x).__name__
    async def acollect(agen):
        return [x async for x in agen]
    async def asrc(xs):
        for x in xs: yield x
    for b in (1, 2, 3, 5, len(falsy), len(falsy) + 2):
        outs = {"shuffle_buffer": list(shuffle_buffer(iter(list(falsy)), buffer_size=b)),
                "shuffle_buffer_async": asyncio.run(acollect(shuffle_buffer_async(asrc(list(falsy)), buffer_size=b))),
                "round_robin": list(round_robin([iter(falsy[:5]), iter(falsy[5:])], buffer_size=b)),
                "round_robin_async": asyncio.run(acollect(round_robin_async(asrc([asrc(falsy[:5]), asrc(falsy[5:])]), buffer_size=b)))}
        for nm, out in outs.items():
            nfalsy += 1
            if sorted(map(key, out)) != sorted(map(key, falsy)):
                ctx.report({"kind": "stage-multiset", "stage": nm, "falsy": True},
                           f"{nm}(buffer_size={b}) over {falsy!r} yielded {out!r}: elements such as None / 0 / '' are data, not end markers",
                           {"stage": nm, "b": b, "input": [repr(x) for x in falsy], "output": [repr(x) for x in out]})
    # ---- the real lazy pool under the deterministic scheduler (C13's instrument): whatever the relative speeds of the worker
    # threads and the consumer — a `get` with a time-out may time out whenever its queue is empty, i.e. the consumer or a
    # worker may be arbitrarily slow — one pass yields every input's result exactly once
    prng = ctx.rng("c02-pool")
    pargs = [{"T": T, "n": n, "seed": prng.randrange(1 << 30), "policy": pol, "reuse": False}
             for T in (1, 2, 3) for n in (0, 1, 5, 2 * T + 3, 4 * T + 7) for pol in ("random", "consumer_first", "workers_first")]
    pres = child.call("harness.checks.c13", "run_cases", pargs, timeout=900)
    for r in pres:
        want = sorted(x * 10 for x in range(r["case"]["n"]))
        if r["status"] != "done" or sorted(r["got"]) != want or r["stuck"]:
            ctx.report({"kind": "pool-pass", "stage": "lazy_pool", "policy": r["case"]["policy"]},
                       f"LazyPool(T={r['case']['T']}) over {r['case']['n']} inputs under schedule policy {r['case']['policy']}: status {r['status']}, "
                       f"{len(r['got'])} results (missing {sorted(set(want) - set(r['got']))[:6]}), stuck workers {r['stuck']}, time-outs fired {r.get('timeouts')}",
                       {"case": r["case"], "got": r["got"], "labels": r["labels"][:60]})
    ctx.cov["scheduled_pool_passes"] = len(pres)
    # ---- Rust: every item handed to parallel_map is dispatched to exactly one worker and comes back exactly once — a pass that
    # ends normally has delivered everything, also when the mapped function dies on one item (then it must not end normally)
    from harness.checks import c15
    plines, _, prc, ptail = c15.cargo_harness(ctx, long_stall_ms=1)
    for l in plines:
        if l["kind"] == "full" and l["out"] != [x * 10 for x in range(l["n"])]:
            ctx.report({"kind": "rust-pass", "stage": "parallel_map"}, f"parallel_map(n={l['n']}, threads={l['threads']}) returned {str(l['out'])[:120]}", {"case": l}); break
    for t in c15.FAULTS:
        if not t["raised"] and len(t["out"]) != t["n"]:
            ctx.report({"kind": "rust-pass", "stage": "parallel_map", "fault": True},
                       f"parallel_map(n={t['n']}, threads={t['threads']}) whose function dies on item {t['j']} ended normally with {len(t['out'])} of {t['n']} results", {"case": {k: t[k] for k in ("n", "threads", "j", "out")}})
            break
    if not plines:
        raise RuntimeError(f"cargo harness produced nothing (rc={prc}): {ptail[-300:]}")
    ctx.cov["rust_parallel_map_cases"] = len(plines) + len(c15.FAULTS)
    # ---- end to end (child process: threads, TF, rebuilt Rust extension)
    cases = e2e_cases(ctx)
    recs = []
    for i in range(0, len(cases), 6):
        recs += child.call("harness.checks.c02", "run_e2e", cases[i:i + 6], timeout=1500)
    nruns, distinct = 0, set()
    for r in recs:
        if r.get("enum_error"):
            ctx.report({"kind": "listing-error"}, f"enumerating the shards of a valid dataset failed: {r['enum_error']}", {"case": r["case"]})
    for r in recs:
        for split, w in r["written"].items():
            if collections.Counter(r["enumerated"].get(split, [])) != collections.Counter(w):
                ctx.report({"kind": "listing"}, f"split {split}: shards enumerate {sorted(r['enumerated'].get(split, []))} but {sorted(w)} were written",
                           {"case": r["case"], "split": split})
        for run_ in r["runs"]:
            nruns += 1
            exp = r["written"][run_["split"]] + run_.get("after_append", [])
            sig = {"kind": "e2e", "iface": run_["iface"], "shuffled": run_["shuffle"] > 0, "after_append": "after_append" in run_}
            if "error" in run_:
                ctx.report(dict(sig, kind="e2e-error"), f"{run_['iface']} shuffle={run_['shuffle']} T={run_['T']} raised {run_['error']}",
                           {"case": r["case"], "run": run_})
                continue
            if collections.Counter(run_["got"]) != collections.Counter(exp):
                missing = sorted((collections.Counter(exp) - collections.Counter(run_["got"])).elements())
                extra = sorted((collections.Counter(run_["got"]) - collections.Counter(exp)).elements())
                ctx.report(sig, f"{r['case']['fmt']} {run_['iface']} shuffle={run_['shuffle']} T={run_['T']} split={run_['split']}: missing {missing[:8]} extra/duplicated {extra[:8]}",
                           {"case": r["case"], "run": run_, "expected": exp})
                continue
            if run_["calls"] is not None and run_["calls"] != len(run_["got"]):
                ctx.report(dict(sig, kind="process-count"), f"{run_['iface']}: process_record applied {run_['calls']} times for {len(run_['got'])} yielded examples",
                           {"case": r["case"], "run": run_})
            distinct.add((r["case"]["fmt"], run_["iface"], run_["shuffle"] > 0, min(run_["T"] or 0, 3), len(exp) > r["case"]["eps"]))
    if corr_bad and not ctx.violations and not ctx.known_hits:
        ctx.report({"kind": "correspondence"}, f"monitor of {corr_bad[0]['stage']} no longer accepts the real generator's trace",
                   {"correspondence": "M-ITER monitors vs shuffle_buffer/round_robin", "theorem": "Sedpack.Pipe.C02_shuffle_buffer_perm / C02_round_robin_perm",
                    "cases": corr_bad[:3]}, name="corr", nofail=True)
    ctx.cov.update({
        "evaluations": len(st) + nruns, "distinct_nontrivial": len(distinct) + len({(k, b, len(str(d))) for k, d, b, *_ in obs}),
        "traces_validated_against_impl": len(st) - len(corr_bad), "e2e_runs": nruns,
        "rule": "stage level: real shuffle_buffer/round_robin (sync+async) on counting sources, b around the input size; end to end: "
                "datasets (fb/npz/tfrec x compressions, 1-3 splits, short last shards, nested shard lists) read through sync/concurrent/async/"
                "rust/tf.data with shuffle in {0,1,2,3..7,10^6} and file_parallelism in {1,2,#shards+1,#shards+2}; distinct = (format, interface, "
                "shuffled?, T class, multi-shard?) and distinct stage inputs",
        "samples": [{"stage": k, "input": d, "b": b, "trace": lg[:20]} for k, d, b, lg, *_ in obs[20:22]] +
                   [{"case": r["case"], "runs": r["runs"][:2]} for r in recs[:1]],
        "input_distribution": {"stage": collections.Counter(k for k, *_ in st), "e2e_by_iface": collections.Counter(x["iface"] for r in recs for x in r["runs"])},
    })
