"""C18 — write-time validation is all-or-nothing and never poisons a shard.
Lean: SedpackProps/C18.lean (reject_no_trace, counts_exclude_rejected, pinned-order witnesses)."""
from __future__ import annotations
from harness.checks import fill_common as F

ASSUMPTIONS = ["a write 'violates the declared shape' when np.array(value).shape differs from the declared shape of a fixed-size attribute, "
               "or an attribute is missing; dtype is enforced by the FlatBuffers format only"]
TRUSTED = ["modelled-not-verified: numpy can_cast table, TensorFlow feature construction"]


def oracle(ctx, c):
    impl = c["impl"]
    fmt = c["fmt"]
    recs = [r for s in impl["records"] for r in s]
    for r in recs:
        want = F.must_reject(fmt, r["kind"])
        if want is True and r["out"] == "ok":
            ctx.report({"kind": "accepted-bad", "format": fmt, "bad": r["kind"]},
                       f"{fmt}: a write with a {r['kind']} violation was accepted", {"case": F.slim(c), "write": r})
            return
        if want is False and r["out"] != "ok":
            first_bad = next((q for q in recs if q["out"] != "ok"), None)
            ctx.report({"kind": "valid-write-failed", "format": fmt, "how": r["out"],
                        "after": first_bad["kind"] if first_bad is not r else "nothing"},
                       f"{fmt}: a valid write raised ({r.get('exc')}) after an earlier rejected write", {"case": F.slim(c), "write": r})
            return
    if impl["read_err"] or impl["session_errors"]:
        ctx.report({"kind": "session-error", "format": fmt}, f"{impl['session_errors'] or impl['read_err']}", {"case": F.slim(c)})
        return
    if impl["listing"].get("unlisted_files") or impl["listing"].get("missing_files"):
        ctx.report({"kind": "orphan-file", "format": fmt},
                   f"{fmt}: shard files on disk that no list names: {impl['listing']['unlisted_files']} (missing: {impl['listing']['missing_files']})",
                   {"case": F.slim(c)})
        return
    for s in range(3):
        accepted = [r["ex"] for r in recs if r["split"] == s and r["out"] == "ok"]
        shards = impl["listing"].get(s, [])
        if any(isinstance(x["ids"], str) for x in shards):
            bad = next(x for x in shards if isinstance(x["ids"], str))
            kinds = sorted({r["kind"] for r in recs if r["kind"] != "ok"})
            ctx.report({"kind": "undecodable", "format": fmt}, f"{fmt}: a listed shard cannot be decoded: {bad['ids']}",
                       {"case": F.slim(c), "bad_kinds": kinds})
            return
        got = [e for x in shards for e in x["ids"]]
        total = impl["listing"]["total"][s]
        if got != accepted or total != len(accepted) or sum(x["n"] for x in shards) != len(accepted):
            ctx.report({"kind": "trace", "format": fmt},
                       f"{fmt}: split {s} reads back {got} (total {total}) but the accepted writes were {accepted}",
                       {"case": F.slim(c), "split": s})
            return


def run(ctx):
    cases = F.explore(ctx, "C18")
    for c in cases:
        oracle(ctx, c)
    F.finish(ctx, "C18", cases, "Sedpack.Fill.C18_reject_no_trace")
