"""C18 — write-time validation is all-or-nothing and never poisons a shard.
Lean: SedpackProps/C18.lean (reject_no_trace, counts_exclude_rejected, pinned-order witnesses)."""
from __future__ import annotations
import collections, json, shutil
from pathlib import Path
from harness.core import lean, sp, child
from harness.checks import fill_common as F

ASSUMPTIONS = ["a write 'violates the declared shape' when np.array(value).shape differs from the declared shape of a fixed-size attribute, "
               "or an attribute is missing; dtype is enforced by the FlatBuffers format only"]
TRUSTED = ["modelled-not-verified: numpy can_cast table, TensorFlow feature construction"]


def oracle(ctx, c):
    impl = c["impl"]
    fmt = c["fmt"]
    recs = [r for s in impl["records"] for r in s]
    for r in recs:
        want = F.must_reject(fmt, r["kind"])
        if want is True and r["out"] == "ok":
            ctx.report({"kind": "accepted-bad", "format": fmt, "bad": r["kind"]},
                       f"{fmt}: a write with a {r['kind']} violation was accepted", {"case": F.slim(c), "write": r})
            return
        if want is False and r["out"] != "ok":
            first_bad = next((q for q in recs if q["out"] != "ok"), None)
            ctx.report({"kind": "valid-write-failed", "format": fmt, "how": r["out"],
                        "after": first_bad["kind"] if first_bad is not r else "nothing"},
                       f"{fmt}: a valid write raised ({r.get('exc')}) after an earlier rejected write", {"case": F.slim(c), "write": r})
            return
    if impl["read_err"] or impl["session_errors"]:
        ctx.report({"kind": "session-error", "format": fmt}, f"{impl['session_errors'] or impl['read_err']}", {"case": F.slim(c)})
        return
    if impl["listing"].get("unlisted_files") or impl["listing"].get("missing_files"):
        ctx.report({"kind": "orphan-file", "format": fmt},
                   f"{fmt}: shard files on disk that no list names: {impl['listing']['unlisted_files']} (missing: {impl['listing']['missing_files']})",
                   {"case": F.slim(c)})
        return
    for s in range(3):
        accepted = [r["ex"] for r in recs if r["split"] == s and r["out"] == "ok"]
        shards = impl["listing"].get(s, [])
        if any(isinstance(x["ids"], str) for x in shards):
            bad = next(x for x in shards if isinstance(x["ids"], str))
            kinds = sorted({r["kind"] for r in recs if r["kind"] != "ok"})
            ctx.report({"kind": "undecodable", "format": fmt}, f"{fmt}: a listed shard cannot be decoded: {bad['ids']}",
                       {"case": F.slim(c), "bad_kinds": kinds})
            return
        got = [e for x in shards for e in x["ids"]]
        total = impl["listing"]["total"][s]
        if got != accepted or total != len(accepted) or sum(x["n"] for x in shards) != len(accepted):
            ctx.report({"kind": "trace", "format": fmt},
                       f"{fmt}: split {s} reads back {got} (total {total}) but the accepted writes were {accepted}",
                       {"case": F.slim(c), "split": s})
            return


# ------------------------------------------------------------------------------------------------
# writer level: M-WRITER vs the three real shard writers, call by call
# ------------------------------------------------------------------------------------------------
W_ATTRS = {"fb": [("a", "int32", (2,)), ("b", "float32", (3,)), ("c", "uint8", ()), ("d", "float32", ())],
           "npz": [("a", "int32", (2,)), ("v", "bytes", ()), ("b", "float32", (3,))],
           "tfrec": [("a", "int32", (2,)), ("v", "bytes", ()), ("b", "float32", (3,))]}
# a second structure with the *same attribute names* declared with the other kind of dtype: one process writes datasets of both
# structures, one after the other (nothing learnt about an attribute name in one dataset may be applied to the other)
W_ATTRS2 = {"fb": [("a", "float32", (2,)), ("b", "int32", (3,)), ("c", "uint8", ()), ("d", "float16", ())],
            "npz": [("a", "float32", (2,)), ("v", "bytes", ()), ("b", "int32", (3,))],
            "tfrec": [("a", "float32", (2,)), ("v", "bytes", ()), ("b", "int32", (3,))]}


def _value(np, fmt, dtype, shape, kind, payload):
    """A value of the given defect kind carrying `payload`; returns (value | MISSING, shapeOk, encOk)."""
    if kind == "missing":
        return None, None, None
    if dtype == "bytes":
        return str(payload).encode(), True, True           # variable size: neither shape nor dtype is checked
    shape_ok = kind not in ("shape", "shape+enc")
    enc_bad = kind in ("enc", "shape+enc")
    shp = shape if shape_ok else tuple(shape) + (2,)
    if enc_bad:
        # what the format's own encoder refuses: a float64 / text value for an integer attribute, text for a float attribute
        # (scalar attributes get 0-d arrays: the refusal concerns the dtype of the value, whatever its rank and whatever number it holds)
        if np.dtype(dtype).kind in "iu":
            if payload % 3 == 2 and fmt == "fb":
                v = np.full(shp, payload, dtype=np.int64)                                              # a wider integer type (the number itself would fit)
            else:
                v = np.full(shp, payload + 0.5, dtype=np.float64 if payload % 2 == 0 else np.float32)     # (a float32 value is what a float32 attribute of the same name takes)
        elif fmt == "fb" and payload % 2 and np.dtype(dtype).itemsize < 8:
            v = np.full(shp, payload + 0.1, dtype=np.float64)                                          # a wider float type: float64 -> float32 / float16 is not a safe cast
        else:
            v = np.full(shp, "x" + str(payload), dtype=object) if fmt == "tfrec" else np.full(shp, payload, dtype=np.complex128)
    else:
        v = np.full(shp, payload, dtype=dtype)
    return v, shape_ok, not enc_bad


def writer_runs(args):
    """(child) drive each real shard writer directly, observing its buffer after every call."""
    sp.sedpack()
    np = sp.np
    from sedpack.io import Attribute, DatasetStructure
    from sedpack.io.shard.shard_writer_np import ShardWriterNP
    from sedpack.io.shard.shard_writer_flatbuffer import ShardWriterFlatBuffer
    from sedpack.io.shard.shard_writer_tfrec import ShardWriterTFRec
    from sedpack.io.npz import IterateShardNP
    from sedpack.io.flatbuffer import IterateShardFlatBuffer
    from sedpack.io.tfrec import IterateShardTFRec
    out = []
    for a in args:
        fmt = a["fmt"]
        attrs = (W_ATTRS2 if a.get("aset") else W_ATTRS)[fmt]
        A = [Attribute(name=n, dtype=d, shape=s) for n, d, s in attrs]
        st = DatasetStructure(saved_data_description=A, compression="", examples_per_shard=1000, shard_file_type=fmt)
        root = Path(a["root"]); shutil.rmtree(root, ignore_errors=True); root.mkdir(parents=True)
        f = root / ("shard." + fmt)
        W = {"npz": ShardWriterNP, "fb": ShardWriterFlatBuffer, "tfrec": ShardWriterTFRec}[fmt](dataset_structure=st, shard_file=f)
        steps, model_exs = [], []
        for ei, kinds in enumerate(a["exs"]):
            vals, mex = {}, []
            for (n, d, s), kind in zip(attrs, kinds):
                payload = (ei * 7 + len(mex)) % 100 + 1
                v, sok, eok = _value(np, fmt, d, s, kind, payload)
                if v is None:
                    mex.append(None)
                else:
                    vals[n] = v
                    if fmt == "npz": eok = True                      # npz does not enforce the dtype
                    mex.append([bool(sok), bool(eok), payload])
            model_exs.append(mex)
            try:
                W.write(values=vals); outc = "ok"
            except Exception as e:  # noqa: BLE001
                outc = f"rejected:{type(e).__name__}"
            if fmt == "npz":
                state = {"cols": [len(W._buffer.get(n, [])) for n, _, _ in attrs]}
            elif fmt == "fb":
                state = {"examples": len(W._examples)}
            else:
                state = {"opened": W._tf_shard_writer is not None, "file": f.exists()}
            steps.append(dict(state, out=outc))
        decoded = None
        n_ok = sum(1 for x in steps if x["out"] == "ok")
        try:
            if n_ok or fmt != "tfrec":
                W.close()
            if f.exists():
                it = {"npz": IterateShardNP, "fb": IterateShardFlatBuffer, "tfrec": IterateShardTFRec}[fmt](dataset_structure=st, process_record=None)
                decoded = []
                for e in it.iterate_shard(f):
                    row = []
                    for n, d, s in attrs:
                        x = e[n]
                        if d == "bytes":
                            if isinstance(x, np.ndarray): x = x.item()
                            row.append(int(bytes(x).decode()))
                        else:
                            row.append(int(float(np.asarray(x).reshape(-1)[0])))
                    decoded.append(row)
            else:
                decoded = []
        except Exception as e:  # noqa: BLE001
            decoded = f"{type(e).__name__}: {str(e)[:120]}"
        out.append({"case": {k: a[k] for k in a if k != "root"}, "attrs_variable": [d == "bytes" and s == () for _, d, s in attrs], "model_exs": model_exs,
                    "steps": steps, "decoded": decoded, "file_exists": f.exists()})
        shutil.rmtree(root, ignore_errors=True)
    return out


def writer_level(ctx):
    rng = ctx.rng("c18-writers")
    cases = []
    for fmt in ("fb", "npz", "tfrec"):
        k = len(W_ATTRS[fmt])
        for i in range(ctx.pick(14, 80)):
            exs = []
            for _ in range(rng.choice([1, 2, 3, 5, 8])):
                kinds = ["ok"] * k
                r = rng.random()
                if r < 0.45:
                    j = rng.randrange(k)                 # which attribute is wrong: first, middle, last
                    kinds[j] = rng.choice(["missing", "shape", "enc", "shape+enc"])
                    if rng.random() < 0.2:
                        kinds[rng.randrange(k)] = rng.choice(["missing", "shape", "enc"])
                exs.append(kinds)
            if i % 5 == 0: exs[0][rng.randrange(k)] = rng.choice(["missing", "shape", "enc"])       # the very first call is rejected
            cases.append({"root": str(ctx.scratch / f"c18w_{fmt}_{i}"), "fmt": fmt, "exs": exs, "aset": i % 2})
    res = child.call("harness.checks.c18", "writer_runs", cases, timeout=900)
    reps = lean.driver([{"m": "writer", "fmt": r["case"]["fmt"], "attrs": r["attrs_variable"], "exs": r["model_exs"]} for r in res])
    corr_bad, kinds_seen = [], collections.Counter()
    for r, rep in zip(res, reps):
        fmt = r["case"]["fmt"]
        for kinds in r["case"]["exs"]:
            for kd in kinds: kinds_seen[kd] += 1
        acc_rows = [[v[2] for v in mex] for mex, stp in zip(r["model_exs"], r["steps"]) if stp["out"] == "ok" and all(v is not None for v in mex)]
        # oracle (model independent): what the reader decodes is exactly the accepted examples; no file for a shard that stayed empty (tfrec)
        if isinstance(r["decoded"], str) or r["decoded"] != acc_rows:
            ctx.report({"kind": "writer-trace", "format": fmt}, f"{fmt} writer: after the calls {[s['out'] for s in r['steps']]} the shard decodes to {r['decoded']} instead of the accepted examples {acc_rows}",
                       {"case": r["case"], "steps": r["steps"], "decoded": r["decoded"]})
            continue
        if fmt == "tfrec" and not acc_rows and r["file_exists"]:
            ctx.report({"kind": "orphan-file", "format": fmt, "level": "writer"}, "tfrec writer: a shard file exists although every example was rejected", {"case": r["case"], "steps": r["steps"]})
            continue
        # correspondence with M-WRITER, call by call
        if "error" in rep:
            corr_bad.append({"case": r["case"], "model": rep}); continue
        for k_, (si, mi) in enumerate(zip(r["steps"], rep["steps"])):
            same = (si["out"] == "ok") == (mi["out"] == "ok")
            if fmt == "npz": same = same and si["cols"] == mi["cols"]
            elif fmt == "fb": same = same and si["examples"] == mi["examples"]
            else: same = same and si["opened"] == mi["opened"] and si["file"] == mi["opened"]
            if not same:
                corr_bad.append({"case": r["case"], "call": k_, "impl": si, "model": mi}); break
        else:
            if rep["decoded"] != r["decoded"]:
                corr_bad.append({"case": r["case"], "impl_decoded": r["decoded"], "model_decoded": rep["decoded"]})
    if corr_bad and not ctx.violations:
        ctx.report({"kind": "correspondence", "level": "writer"}, f"M-WRITER no longer predicts the writers' buffers call by call: {json.dumps(corr_bad[0])[:300]}",
                   {"correspondence": "M-WRITER write/decode vs ShardWriterNP / ShardWriterFlatBuffer / ShardWriterTFRec", "theorem": "Sedpack.Writer.C18_npz_decodes_accepted / C18_fb_decodes_accepted / C18_tfrec_decodes_accepted",
                    "cases": corr_bad[:3]}, name="corr_writer", nofail=True)
    return {"writer_runs": len(res), "writer_calls": sum(len(r["steps"]) for r in res), "writer_corr_mismatches": len(corr_bad), "writer_defect_kinds": dict(kinds_seen)}


def overlapping_writers(args):
    """(child) two threads of one process write into two *unrelated* datasets at overlapping times.  Thread A's write of a wrong-shaped
    example is paused in the middle of its validation (the example is a mapping whose lookup of one attribute waits) while the main
    thread performs complete writes — accepted and rejected ones — into the other dataset; then A continues.  Each dataset must hold
    exactly its own accepted examples: a verdict on one example does not depend on what another writer does meanwhile."""
    import threading
    sp.sedpack()
    np = sp.np
    from sedpack.io import Attribute, Dataset
    out = []
    decl = [("a", "int32", (2,)), ("b", "float32", (3,)), ("c", "uint8", ())]
    def example(v, bad=None):
        vals = {"a": np.array([v, v], dtype=np.int32), "b": np.full((3,), v % 100, dtype=np.float32), "c": np.uint8(v % 200)}
        if bad is not None:
            shp = dict((n, s) for n, _, s in decl)[bad]
            vals[bad] = np.zeros(tuple(shp) + (2,), dtype=dict((n, d) for n, d, _ in decl)[bad])
        return vals
    class Pausing(dict):
        """an example as a mapping that records the first lookup of every attribute (= the validation's check of that attribute; the
        format writer looks the values up again later) in one global log, and can wait at the lookup of one attribute"""
        def __init__(self, d, key, reached, go, cid, log, lock):
            super().__init__(d); self._key, self._reached, self._go, self._done = key, reached, go, False
            self._cid, self._log, self._lock, self._seen = cid, log, lock, set()
        def __getitem__(self, k):
            if k not in self._seen:
                self._seen.add(k)
                with self._lock: self._log.append([self._cid, "check"])
            if k == self._key and not self._done:
                self._done = True; self._reached.set(); self._go.wait(10)
            return super().__getitem__(k)
    for a in args:
        res = {"case": {k: a[k] for k in a if k != "root"}}
        try:
            roots = [Path(a["root"] + "_A"), Path(a["root"] + "_B")]
            for r_ in roots: shutil.rmtree(r_, ignore_errors=True)
            A = [Attribute(name=n, dtype=d, shape=s) for n, d, s in decl]
            dsA, dsB = (sp.mk(r_, fmt=a["fmt"], eps=50, attrs=A) for r_ in roots)
            reached, go = threading.Event(), threading.Event()
            outcomes = {"A": [], "B": []}
            vlog, vlock, calls = [], threading.Lock(), []         # the validation steps of all calls in one global order; per call: shape flags, outcome
            def one_write(f, who, v, bad, pause):
                with vlock:
                    cid = len(calls); calls.append({"shape_ok": [n != bad for n, _, _ in decl], "out": None})
                vals = Pausing(example(v, bad), a["pause_key"] if pause else None, reached, go, cid, vlog, vlock)
                try:
                    f.write_example(values=vals, split="train"); out_ = "ok"
                except Exception as e:  # noqa: BLE001
                    out_ = f"rejected:{type(e).__name__}"
                with vlock:
                    vlog.append([cid, "decide"]); calls[cid]["out"] = out_
                outcomes[who].append([v, out_])
            def writer_a():
                with dsA.filler() as f:
                    for v, bad in ((1, None), (2, a["bad_attr"]), (3, None)):
                        one_write(f, "A", v, bad, bad is not None)
            errs = []
            def run_a():
                try: writer_a()
                except Exception as e:  # noqa: BLE001
                    errs.append(f"{type(e).__name__}: {str(e)[:150]}")
            t = threading.Thread(target=run_a); t.start()
            res["paused"] = reached.wait(2.0)            # (a writer that rejects before it looks at `pause_key` never pauses)
            try:
                with dsB.filler() as f:
                    for v, bad in (((11, None), (12, "a"), (13, None), (14, "c")) if a.get("b_ends_bad") else ((11, None), (14, "c"), (12, "a"), (13, None))):
                        one_write(f, "B", v, bad, False)
            finally:
                go.set()
            t.join(30)
            res["outcomes"] = outcomes; res["errors"] = errs
            res["validation"] = {"exs": [c_["shape_ok"] for c_ in calls], "sched": vlog, "outs": [c_["out"] for c_ in calls]}
            def read(r_):
                try: return sorted(sp.read_ids(Dataset(r_), "train"))
                except Exception as e:  # noqa: BLE001
                    return f"{type(e).__name__}: {str(e)[:120]}"
            res["read"] = {"A": read(roots[0]), "B": read(roots[1])}
            for r_ in roots: shutil.rmtree(r_, ignore_errors=True)
        except Exception as e:  # noqa: BLE001
            res["error"] = f"{type(e).__name__}: {str(e)[:200]}"
        out.append(res)
    return out


def run(ctx):
    # ---- two writers of one process at overlapping times (unrelated datasets): verdicts are per example
    oargs = [{"root": str(ctx.scratch / f"c18_ov_{fmt}_{bad}_{pk}"), "fmt": fmt, "bad_attr": bad, "pause_key": pk}
             for fmt in (["fb", "npz"] if not ctx.thorough else ["fb", "npz", "tfrec"]) for bad, pk in (("a", "b"), ("a", "c"), ("b", "c"), ("b", "a"))]
    for k_, oa in enumerate(oargs): oa["b_ends_bad"] = bool(k_ % 2)
    novl = 0
    ovl_results = child.call("harness.checks.c18", "overlapping_writers", oargs, timeout=900)
    for r in ovl_results:
        novl += 1
        c = r["case"]
        bad = r.get("error") or r.get("errors") or r["read"]["A"] != [1, 3] or r["read"]["B"] != [11, 13] \
            or [o for _, o in r["outcomes"]["A"]][1] == "ok" or sorted(v for v, o in r["outcomes"]["B"] if o == "ok") != [11, 13]
        if bad:
            ctx.report({"kind": "overlapping-writers", "format": c["fmt"]},
                       f"{c['fmt']}: a wrong-shaped example (attribute {c['bad_attr']}) whose validation overlaps in time with another thread's writes into an unrelated dataset "
                       f"(paused at {c['pause_key']}: {r.get('paused')}): outcomes {r.get('outcomes')}, read back {r.get('read')} {r.get('error') or r.get('errors') or ''}", {"overlap_case": c, "result": {k: v for k, v in r.items() if k != 'case'}})
    ctx.cov["overlapping_writer_runs"] = novl
    # correspondence with M-PAR's validation component: the recorded interleaving of the calls' checks is a run of the model, and the
    # model's verdict for every call is the outcome the real writer gave it
    vres = [r for r in ovl_results if r.get("validation")]
    vreps = lean.driver([{"m": "parval", "exs": r["validation"]["exs"], "sched": r["validation"]["sched"]} for r in vres]) if vres else []
    vbad = []
    for r, rep in zip(vres, vreps):
        impl = [o == "ok" for o in r["validation"]["outs"]]
        if not rep.get("ok") or rep.get("verdicts") != impl:
            vbad.append({"case": r["case"], "model": rep, "impl_outcomes": r["validation"]["outs"], "sched": r["validation"]["sched"][:40]})
    ctx.cov["overlapping_validations_replayed_on_M_PAR"] = len(vres) - len(vbad)
    if vbad and not ctx.violations:
        ctx.report({"kind": "correspondence", "level": "overlapping-writers"}, f"M-PAR's validation component and the real writers disagree on an overlapping run: {json.dumps(vbad[0])[:300]}",
                   {"correspondence": "M-PAR valComp verdicts = outcomes of the real writers on the recorded interleaving of their checks", "theorem": "Sedpack.Par.C18_overlapping_writers_verdict_is_the_examples", "cases": vbad[:3]},
                   name="corr_par", nofail=True)
    wl = writer_level(ctx)
    cases = F.explore(ctx, "C18")
    for c in cases:
        oracle(ctx, c)
    F.finish(ctx, "C18", cases, "Sedpack.Fill.C18_reject_no_trace")
    ctx.cov.update(wl)
    ctx.cov["evaluations"] = ctx.cov.get("evaluations", 0) + wl["writer_runs"]
    ctx.cov["traces_validated_against_impl"] = ctx.cov.get("traces_validated_against_impl", 0) + wl["writer_runs"] - wl["writer_corr_mismatches"]
