"""C18 — write-time validation is all-or-nothing and never poisons a shard.
Lean: SedpackProps/C18.lean (reject_no_trace, counts_exclude_rejected, pinned-order witnesses)."""
from __future__ import annotations
import collections, json, shutil
from pathlib import Path
from harness.core import lean, sp, child
from harness.checks import fill_common as F

ASSUMPTIONS = ["a write 'violates the declared shape' when np.array(value).shape differs from the declared shape of a fixed-size attribute, "
               "or an attribute is missing; dtype is enforced by the FlatBuffers format only"]
TRUSTED = ["modelled-not-verified: numpy can_cast table, TensorFlow feature construction"]


def oracle(ctx, c):
    impl = c["impl"]
    fmt = c["fmt"]
    recs = [r for s in impl["records"] for r in s]
    for r in recs:
        want = F.must_reject(fmt, r["kind"])
        if want is True and r["out"] == "ok":
            ctx.report({"kind": "accepted-bad", "format": fmt, "bad": r["kind"]},
                       f"{fmt}: a write with a {r['kind']} violation was accepted", {"case": F.slim(c), "write": r})
            return
        if want is False and r["out"] != "ok":
            first_bad = next((q for q in recs if q["out"] != "ok"), None)
            ctx.report({"kind": "valid-write-failed", "format": fmt, "how": r["out"],
                        "after": first_bad["kind"] if first_bad is not r else "nothing"},
                       f"{fmt}: a valid write raised ({r.get('exc')}) after an earlier rejected write", {"case": F.slim(c), "write": r})
            return
    if impl["read_err"] or impl["session_errors"]:
        ctx.report({"kind": "session-error", "format": fmt}, f"{impl['session_errors'] or impl['read_err']}", {"case": F.slim(c)})
        return
    if impl["listing"].get("unlisted_files") or impl["listing"].get("missing_files"):
        ctx.report({"kind": "orphan-file", "format": fmt},
                   f"{fmt}: shard files on disk that no list names: {impl['listing']['unlisted_files']} (missing: {impl['listing']['missing_files']})",
                   {"case": F.slim(c)})
        return
    for s in range(3):
        accepted = [r["ex"] for r in recs if r["split"] == s and r["out"] == "ok"]
        shards = impl["listing"].get(s, [])
        if any(isinstance(x["ids"], str) for x in shards):
            bad = next(x for x in shards if isinstance(x["ids"], str))
            kinds = sorted({r["kind"] for r in recs if r["kind"] != "ok"})
            ctx.report({"kind": "undecodable", "format": fmt}, f"{fmt}: a listed shard cannot be decoded: {bad['ids']}",
                       {"case": F.slim(c), "bad_kinds": kinds})
            return
        got = [e for x in shards for e in x["ids"]]
        total = impl["listing"]["total"][s]
        if got != accepted or total != len(accepted) or sum(x["n"] for x in shards) != len(accepted):
            ctx.report({"kind": "trace", "format": fmt},
                       f"{fmt}: split {s} reads back {got} (total {total}) but the accepted writes were {accepted}",
                       {"case": F.slim(c), "split": s})
            return


# ------------------------------------------------------------------------------------------------
# writer level: M-WRITER vs the three real shard writers, call by call
# ------------------------------------------------------------------------------------------------
W_ATTRS = {"fb": [("a", "int32", (2,)), ("b", "float32", (3,)), ("c", "uint8", ()), ("d", "float32", ())],
           "npz": [("a", "int32", (2,)), ("v", "bytes", ()), ("b", "float32", (3,))],
           "tfrec": [("a", "int32", (2,)), ("v", "bytes", ()), ("b", "float32", (3,))]}
# a second structure with the *same attribute names* declared with the other kind of dtype: one process writes datasets of both
# structures, one after the other (nothing learnt about an attribute name in one dataset may be applied to the other)
W_ATTRS2 = {"fb": [("a", "float32", (2,)), ("b", "int32", (3,)), ("c", "uint8", ()), ("d", "float16", ())],
            "npz": [("a", "float32", (2,)), ("v", "bytes", ()), ("b", "int32", (3,))],
            "tfrec": [("a", "float32", (2,)), ("v", "bytes", ()), ("b", "int32", (3,))]}


def _value(np, fmt, dtype, shape, kind, payload):
    """A value of the given defect kind carrying `payload`; returns (value | MISSING, shapeOk, encOk)."""
    if kind == "missing":
        return None, None, None
    if dtype == "bytes":
        return str(payload).encode(), True, True           # variable size: neither shape nor dtype is checked
    shape_ok = kind not in ("shape", "shape+enc")
    enc_bad = kind in ("enc", "shape+enc")
    shp = shape if shape_ok else tuple(shape) + (2,)
    if enc_bad:
        # what the format's own encoder refuses: a float64 / text value for an integer attribute, text for a float attribute
        # (scalar attributes get 0-d arrays: the refusal concerns the dtype of the value, whatever its rank and whatever number it holds)
        if np.dtype(dtype).kind in "iu":
            if payload % 3 == 2 and fmt == "fb":
                v = np.full(shp, payload, dtype=np.int64)                                              # a wider integer type (the number itself would fit)
            else:
                v = np.full(shp, payload + 0.5, dtype=np.float64 if payload % 2 == 0 else np.float32)     # (a float32 value is what a float32 attribute of the same name takes)
        elif fmt == "fb" and payload % 2 and np.dtype(dtype).itemsize < 8:
            v = np.full(shp, payload + 0.1, dtype=np.float64)                                          # a wider float type: float64 -> float32 / float16 is not a safe cast
        else:
            v = np.full(shp, "x" + str(payload), dtype=object) if fmt == "tfrec" else np.full(shp, payload, dtype=np.complex128)
    else:
        v = np.full(shp, payload, dtype=dtype)
    return v, shape_ok, not enc_bad


def writer_runs(args):
    """(child) drive each real shard writer directly, observing its buffer after every call."""
    sp.sedpack()
    np = sp.np
    from sedpack.io import Attribute, DatasetStructure
    from sedpack.io.shard.shard_writer_np import ShardWriterNP
    from sedpack.io.shard.shard_writer_flatbuffer import ShardWriterFlatBuffer
    from sedpack.io.shard.shard_writer_tfrec import ShardWriterTFRec
    from sedpack.io.npz import IterateShardNP
    from sedpack.io.flatbuffer import IterateShardFlatBuffer
    from sedpack.io.tfrec import IterateShardTFRec
    out = []
    for a in args:
        fmt = a["fmt"]
        attrs = (W_ATTRS2 if a.get("aset") else W_ATTRS)[fmt]
        A = [Attribute(name=n, dtype=d, shape=s) for n, d, s in attrs]
        st = DatasetStructure(saved_data_description=A, compression="", examples_per_shard=1000, shard_file_type=fmt)
        root = Path(a["root"]); shutil.rmtree(root, ignore_errors=True); root.mkdir(parents=True)
        f = root / ("shard." + fmt)
        W = {"npz": ShardWriterNP, "fb": ShardWriterFlatBuffer, "tfrec": ShardWriterTFRec}[fmt](dataset_structure=st, shard_file=f)
        steps, model_exs = [], []
        for ei, kinds in enumerate(a["exs"]):
            vals, mex = {}, []
            for (n, d, s), kind in zip(attrs, kinds):
                payload = (ei * 7 + len(mex)) % 100 + 1
                v, sok, eok = _value(np, fmt, d, s, kind, payload)
                if v is None:
                    mex.append(None)
                else:
                    vals[n] = v
                    if fmt == "npz": eok = True                      # npz does not enforce the dtype
                    mex.append([bool(sok), bool(eok), payload])
            model_exs.append(mex)
            try:
                W.write(values=vals); outc = "ok"
            except Exception as e:  # noqa: BLE001
                outc = f"rejected:{type(e).__name__}"
            if fmt == "npz":
                state = {"cols": [len(W._buffer.get(n, [])) for n, _, _ in attrs]}
            elif fmt == "fb":
                state = {"examples": len(W._examples)}
            else:
                state = {"opened": W._tf_shard_writer is not None, "file": f.exists()}
            steps.append(dict(state, out=outc))
        decoded = None
        n_ok = sum(1 for x in steps if x["out"] == "ok")
        try:
            if n_ok or fmt != "tfrec":
                W.close()
            if f.exists():
                it = {"npz": IterateShardNP, "fb": IterateShardFlatBuffer, "tfrec": IterateShardTFRec}[fmt](dataset_structure=st, process_record=None)
                decoded = []
                for e in it.iterate_shard(f):
                    row = []
                    for n, d, s in attrs:
                        x = e[n]
                        if d == "bytes":
                            if isinstance(x, np.ndarray): x = x.item()
                            row.append(int(bytes(x).decode()))
                        else:
                            row.append(int(float(np.asarray(x).reshape(-1)[0])))
                    decoded.append(row)
            else:
                decoded = []
        except Exception as e:  # noqa: BLE001
            decoded = f"{type(e).__name__}: {str(e)[:120]}"
        out.append({"case": {k: a[k] for k in a if k != "root"}, "attrs_variable": [d == "bytes" and s == () for _, d, s in attrs], "model_exs": model_exs,
                    "steps": steps, "decoded": decoded, "file_exists": f.exists()})
        shutil.rmtree(root, ignore_errors=True)
    return out


def writer_level(ctx):
    rng = ctx.rng("c18-writers")
    cases = []
    for fmt in ("fb", "npz", "tfrec"):
        k = len(W_ATTRS[fmt])
        for i in range(ctx.pick(14, 80)):
            exs = []
            for _ in range(rng.choice([1, 2, 3, 5, 8])):
                kinds = ["ok"] * k
                r = rng.random()
                if r < 0.45:
                    j = rng.randrange(k)                 # which attribute is wrong: first, middle, last
                    kinds[j] = rng.choice(["missing", "shape", "enc", "shape+enc"])
                    if rng.random() < 0.2:
                        kinds[rng.randrange(k)] = rng.choice(["missing", "shape", "enc"])
                exs.append(kinds)
            if i % 5 == 0: exs[0][rng.randrange(k)] = rng.choice(["missing", "shape", "enc"])       # the very first call is rejected
            cases.append({"root": str(ctx.scratch / f"c18w_{fmt}_{i}"), "fmt": fmt, "exs": exs, "aset": i % 2})
    res = child.call("harness.checks.c18", "writer_runs", cases, timeout=900)
    reps = lean.driver([{"m": "writer", "fmt": r["case"]["fmt"], "attrs": r["attrs_variable"], "exs": r["model_exs"]} for r in res])
    corr_bad, kinds_seen = [], collections.Counter()
    for r, rep in zip(res, reps):
        fmt = r["case"]["fmt"]
        for kinds in r["case"]["exs"]:
            for kd in kinds: kinds_seen[kd] += 1
        acc_rows = [[v[2] for v in mex] for mex, stp in zip(r["model_exs"], r["steps"]) if stp["out"] == "ok" and all(v is not None for v in mex)]
        # oracle (model independent): what the reader decodes is exactly the accepted examples; no file for a shard that stayed empty (tfrec)
        if isinstance(r["decoded"], str) or r["decoded"] != acc_rows:
            ctx.report({"kind": "writer-trace", "format": fmt}, f"{fmt} writer: after the calls {[s['out'] for s in r['steps']]} the shard decodes to {r['decoded']} instead of the accepted examples {acc_rows}",
                       {"case": r["case"], "steps": r["steps"], "decoded": r["decoded"]})
            continue
        if fmt == "tfrec" and not acc_rows and r["file_exists"]:
            ctx.report({"kind": "orphan-file", "format": fmt, "level": "writer"}, "tfrec writer: a shard file exists although every example was rejected", {"case": r["case"], "steps": r["steps"]})
            continue
        # correspondence with M-WRITER, call by call
        if "error" in rep:
            corr_bad.append({"case": r["case"], "model": rep}); continue
        for k_, (si, mi) in enumerate(zip(r["steps"], rep["steps"])):
            same = (si["out"] == "ok") == (mi["out"] == "ok")
            if fmt == "npz": same = same and si["cols"] == mi["cols"]
            elif fmt == "fb": same = same and si["examples"] == mi["examples"]
            else: same = same and si["opened"] == mi["opened"] and si["file"] == mi["opened"]
            if not same:
                corr_bad.append({"case": r["case"], "call": k_, "impl": si, "model": mi}); break
        else:
            if rep["decoded"] != r["decoded"]:
                corr_bad.append({"case": r["case"], "impl_decoded": r["decoded"], "model_decoded": rep["decoded"]})
    if corr_bad and not ctx.violations:
        ctx.report({"kind": "correspondence", "level": "writer"}, f"M-WRITER no longer predicts the writers' buffers call by call: {json.dumps(corr_bad[0])[:300]}",
                   {"correspondence": "M-WRITER write/decode vs ShardWriterNP / ShardWriterFlatBuffer / ShardWriterTFRec", "theorem": "Sedpack.Writer.C18_npz_decodes_accepted / C18_fb_decodes_accepted / C18_tfrec_decodes_accepted",
                    "cases": corr_bad[:3]}, name="corr_writer", nofail=True)
    return {"writer_runs": len(res), "writer_calls": sum(len(r["steps"]) for r in res), "writer_corr_mismatches": len(corr_bad), "writer_defect_kinds": dict(kinds_seen)}


def run(ctx):
    wl = writer_level(ctx)
    cases = F.explore(ctx, "C18")
    for c in cases:
        oracle(ctx, c)
    F.finish(ctx, "C18", cases, "Sedpack.Fill.C18_reject_no_trace")
    ctx.cov.update(wl)
    ctx.cov["evaluations"] = ctx.cov.get("evaluations", 0) + wl["writer_runs"]
    ctx.cov["traces_validated_against_impl"] = ctx.cov.get("traces_validated_against_impl", 0) + wl["writer_runs"] - wl["writer_corr_mismatches"]
