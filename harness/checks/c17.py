"""C17 — paths taken from metadata cannot escape the dataset directory.
Lean: SedpackProps/C17.lean (containment for every accepted string; everything outside rejected).
Correspondence: grammar-generated strings through real pathlib and the real pydantic validators /
filler guard vs M-PATH.  Oracle: crafted datasets whose metadata name locations outside the root
are opened, checked and iterated while every file open is recorded (audit hook; strace for native
readers in the thorough tier): nothing outside the root may be read, nothing created outside."""
from __future__ import annotations
import collections, json, os, shutil, subprocess, sys
from pathlib import Path, PurePosixPath
from harness.core import lean, sp, child

ASSUMPTIONS = ["symbolic links planted inside a dataset directory are outside the property's reading (it speaks of path strings in metadata); only the resolved-location "
               "check of ShardsList.load_or_create is exercised with them (a list outside the root must be refused, wherever the link points)",
               "the dataset directory contains no symbolic links (the property quantifies over path strings)", "POSIX path semantics"]
TRUSTED = ["modelled-not-verified: pathlib's parser (compared with M-PATH's `parse` on every generated string), the operating system's path resolution"]
COMPS = ["a", "..", ".", "", "...", "..a", "a..", "shards_list.json", "x.fb", "train", "b c", "é",
         "..\\x.fb", "\\tmp\\x.fb", "a\\..\\..\\b"]       # a backslash is an ordinary file-name character on POSIX


def gen_strings(ctx):
    rng = ctx.rng("c17-strings")
    out = ["", ".", "..", "/", "//", "///", "a", "a/..", "../a", "/a", "//a", "a//b", "./a/./b", "train/shards_list.json", "/train/shards_list.json",
           "train/../shards_list.json", "..shards_list.json", "train/..a/x.fb", "a/", "a/.", "/..", "///etc/x"]
    for _ in range(ctx.pick(300, 3000)):
        depth = rng.randrange(0, 7)
        lead = rng.choice(["", "", "", "/", "//", "///"])
        s = lead + "/".join(rng.choice(COMPS) for _ in range(depth))
        if rng.random() < 0.2: s += "/"
        out.append(s)
    return out


def real_validators(strings):
    """(child) what pathlib and the real validators say about each string."""
    sp.sedpack()
    from pydantic import ValidationError
    from sedpack.io.file_info import FileInfo
    from sedpack.io.shard_file_metadata import ShardsList, ShardListInfo
    from sedpack.io.dataset_filler import _DatasetFillerContext
    from sedpack.io.metadata import DatasetStructure
    root = PurePosixPath("/data/ds")
    res = []
    for s in strings:
        p = PurePosixPath(s)
        def ok(fn):
            try:
                fn(); return True
            except (ValidationError, ValueError):
                return False
        r = {"s": s, "parts": list(p.parts), "abs": p.is_absolute(), "name": p.name, "join": list((root / p).parts),
             "file": ok(lambda: FileInfo(file_path=s)),
             "list": ok(lambda: ShardsList(relative_path_self=s)),
             "listinfo": ok(lambda: ShardListInfo(shard_list_info_file=FileInfo(file_path=s))),
             "subdir": ok(lambda: _DatasetFillerContext(Path("/data/ds"), DatasetStructure(), Path(s)))}
        r["normpath"] = os.path.normpath(str(root / p))
        res.append(r)
    return res


def validators_while_committing(a):
    """(child) the validators' verdicts do not depend on what other threads of the process are doing: while one thread commits writing
    sessions (shard lists and description rewritten over and over), another validates hostile path strings through the real
    validators.  Returns the strings that were accepted although they lead outside the root."""
    import threading, time
    sp.sedpack()
    from pydantic import ValidationError
    from sedpack.io.file_info import FileInfo
    from sedpack.io.shard_file_metadata import ShardsList, ShardListInfo
    from sedpack.io import Dataset
    root = Path(a["root"]); shutil.rmtree(root, ignore_errors=True)
    ds = sp.mk(root, fmt="npz", eps=1, hashes=("sha256",))
    stop = threading.Event()
    commits = {"n": 0}
    def writer():
        v = 0
        while not stop.is_set():
            with ds.filler() as f:
                for _ in range(3):
                    f.write_example(values=sp.val(v), split="train"); v += 1
            commits["n"] += 1
    hostile = ["../x/shards_list.json", "/etc/shards_list.json", "train/../../shards_list.json", "../../outside/x.fb", "/abs/x.fb", "a/../../x.fb", "..", "../x"]
    accepted, rounds = [], 0
    t = threading.Thread(target=writer); t.start()
    t0 = time.time()
    try:
        while time.time() - t0 < a["secs"]:
            rounds += 1
            for s_ in hostile:
                for name, fn in (("FileInfo", lambda: FileInfo(file_path=s_)), ("ShardsList", lambda: ShardsList(relative_path_self=s_)),
                                 ("ShardListInfo", lambda: ShardListInfo(shard_list_info_file=FileInfo(file_path=s_)))):
                    try:
                        fn(); accepted.append([name, s_, rounds])
                    except (ValidationError, ValueError):
                        pass
            if accepted: break
    finally:
        stop.set(); t.join(60)
    shutil.rmtree(root, ignore_errors=True)
    return {"rounds": rounds, "commits": commits["n"], "accepted": accepted[:5]}


def hostile_cases(args):
    """(child) crafted datasets naming locations outside the root; record what gets read / created."""
    sp.sedpack(rust=True)
    from sedpack.io import Dataset
    from sedpack.io.dataset_filler import DatasetFiller
    from harness.checks import iter_common as I
    out = []
    opened = []
    def hook(ev, a):
        if ev == "open":
            opened.append(str(a[0]))
    sys.addaudithook(hook)
    for a in args:
        base = Path(a["base"]); root = base / "in" / "ds"; outside = base / "outside"
        root.parent.mkdir(parents=True); outside.mkdir(parents=True)
        ds, _ = I.build_dataset(root, a["fmt"], "", 2, [{"sub": ".", "writes": [(0, 4)]}, {"sub": "a", "writes": [(0, 2)]}])
        # a perfectly valid shard / list living OUTSIDE the root, carrying a recognisable example id
        ods, _ = I.build_dataset(outside / "ods", a["fmt"], "", 2, [{"sub": ".", "writes": [(0, 0)]}])
        with ods.filler() as f:
            f.write_example(values=sp.val(777777), split="train")
        oshard = next(p for p in (outside / "ods" / "train").iterdir() if p.suffix == "." + a["fmt"])
        olist = outside / "ods" / "train" / "shards_list.json"
        res = {"case": {k: a[k] for k in a if k != "base"}, "results": []}
        for tamper in a["tampers"]:
            work = base / "work"
            if work.exists(): shutil.rmtree(work)
            shutil.copytree(root, work)
            lst = work / "train" / "shards_list.json"
            d = json.loads(lst.read_text())
            sibling = Path(str(work) + "_old")
            if sibling.exists(): shutil.rmtree(sibling)
            if tamper["field"] == "symlink":
                # the sub-directory train/a of the dataset is a symbolic link to a directory outside the root that holds a
                # valid shards_list.json: either somewhere unrelated, or in a sibling whose *name* merely starts with the root's
                tgt = outside / "ods" if tamper["path"] == "unrelated" else sibling
                if tamper["path"] != "unrelated":
                    shutil.copytree(outside / "ods", sibling)
                shutil.rmtree(work / "train" / "a")
                (work / "train" / "a").symlink_to(tgt / "train", target_is_directory=True)
            elif tamper["field"] == "shard":
                target = (tamper["path"].replace("$BSOUT", str(oshard).replace("/", "\\")).replace("$BSRELOUT", os.path.relpath(oshard, work).replace("/", "\\"))
                          .replace("$OUT", str(oshard)).replace("$RELOUT", os.path.relpath(oshard, work)))
                d["shard_files"][0]["file_infos"][0]["file_path"] = target
                d["shard_files"][0]["file_infos"][0]["hash_checksums"] = list(ods.dataset_structure.hash_checksum_algorithms and
                    __import__("sedpack.io.utils", fromlist=["x"]).hash_checksums(oshard, ods.dataset_structure.hash_checksum_algorithms))
            elif tamper["field"] == "child":
                target = tamper["path"].replace("$OUT", str(olist)).replace("$RELOUT", os.path.relpath(olist, work))
                d["children_shard_lists"][0]["shard_list_info_file"]["file_path"] = target
            elif tamper["field"] == "self":
                d["relative_path_self"] = tamper["path"].replace("$OUT", str(olist)).replace("$RELOUT", os.path.relpath(olist, work))
            lst.write_text(json.dumps(d))
            r = {"tamper": tamper, "events": []}
            before_outside = sorted(str(p) for p in base.rglob("*") if not str(p).startswith(str(work)))
            for action in (a["actions"] if tamper["field"] != "symlink" else ["write_sub"]):
                del opened[:]
                try:
                    dd = Dataset(work)
                    if action == "check":
                        dd.check(show_progressbar=False); got = "ok"
                    elif action == "write":
                        with DatasetFiller(dd) as f:
                            f.write_example(values=sp.val(5), split="train")
                        got = "ok"
                    elif action == "write_sub":
                        with DatasetFiller(dd, relative_path_from_split=Path("a")) as f:
                            f.write_example(values=sp.val(5), split="train")
                        got = "ok"
                    else:
                        got, _ = I.run_iface(dd, action, "train", shuffle=0, T=2)
                except BaseException as e:  # noqa: BLE001  (a panic of the Rust reader is a BaseException)
                    got = f"{type(e).__name__}: {str(e)[:80]}"
                def is_outside(p):
                    rp = os.path.realpath(p)
                    return rp.startswith(str(base) + os.sep) and not (rp == str(work) or rp.startswith(str(work) + os.sep))
                esc = sorted({p for p in opened if is_outside(p)})
                r["events"].append({"action": action, "result": got if isinstance(got, str) else sorted(got), "outside_opens": esc[:3]})
            after_outside = sorted(str(p) for p in base.rglob("*") if not str(p).startswith(str(work)))
            r["created_outside"] = [p for p in after_outside if p not in before_outside]
            res["results"].append(r)
            if sibling.exists(): shutil.rmtree(sibling)
        # the writer's sub-directory argument (environment variables and `~` are not expanded by a path: with these values an
        # expansion *after* the check would lead outside)
        os.environ.update({"C17_UP": "../../../outside/esc", "C17_MIX": "0/../../../../outside/esc2", "C17_ABS": str(outside / "esc3"), "HOME": str(outside / "home")})
        for sub in a["subdirs"]:
            work = base / "work"
            if work.exists(): shutil.rmtree(work)
            shutil.copytree(root, work)
            before = sorted(str(p) for p in base.rglob("*") if not str(p).startswith(str(work)))
            subp = (sub.replace("$ABS", str(outside / "wsub"))
                       .replace("$REENTER3", f"../../../{work.parent.parent.name}/{work.parent.name}/{work.name}/sub")
                       .replace("$REENTER2", f"../../{work.parent.name}/{work.name}/sub").replace("$REENTERX", f"x/../../../{work.parent.name}/{work.name}"))
            try:
                with DatasetFiller(Dataset(work), relative_path_from_split=Path(subp)) as f:
                    f.write_example(values=sp.val(1), split="train")
                got = "ok"
            except Exception as e:  # noqa: BLE001
                got = f"{type(e).__name__}: {str(e)[:80]}"
            after = sorted(str(p) for p in base.rglob("*") if not str(p).startswith(str(work)))
            res["results"].append({"subdir": sub, "result": got, "created_outside": [p for p in after if p not in before]})
        out.append(res)
        shutil.rmtree(base, ignore_errors=True)
    return out


def relative_root_chdir(a):
    """(child) the dataset root is given relative to the working directory (plain, and under a directory whose name starts with `~`
    but is no user); the working directory then changes to a place where the *same relative spelling* leads to another dataset.
    Every read through the handle must stay inside the root it was opened with."""
    sp.sedpack()
    from sedpack.io import Dataset
    from harness.checks import iter_common as I
    base = Path(a["base"]); shutil.rmtree(base, ignore_errors=True)
    out = []
    opened = []
    def hook(ev, args):
        if ev == "open":
            opened.append(str(args[0]))
    sys.addaudithook(hook)
    for rel in ("plain/ds", "~no_such_user_c17/ds"):
        A = base / "a" / rel; B = base / "b" / rel
        A.parent.mkdir(parents=True, exist_ok=True); B.parent.mkdir(parents=True, exist_ok=True)
        I.build_dataset(A, a["fmt"], "", 2, [{"sub": ".", "writes": [(0, 5)]}, {"sub": "x", "writes": [(0, 2)]}])
        dsb = sp.mk(B, fmt=a["fmt"], eps=2)
        with dsb.filler() as f:
            for v in range(1000, 1007):
                f.write_example(values=sp.val(v), split="train")
        cwd = os.getcwd()
        r = {"rel": rel}
        try:
            os.chdir(base / "a")
            d = Dataset(Path(rel))
            # iterators started before the working directory changes (shard files are opened lazily, one by one)
            lazy = {"sync": iter(d.as_numpy_iterator(split="train", repeat=False, shuffle=0)),
                    "concurrent": iter(d.as_numpy_iterator_concurrent(split="train", repeat=False, shuffle=0, file_parallelism=1))}
            firsts = {k: sp.ident(next(it)) for k, it in lazy.items()}
            os.chdir(base / "b")
            del opened[:]
            try:
                r["lazy"] = {k: sorted([firsts[k]] + [sp.ident(e) for e in it]) for k, it in lazy.items()}
                r["ids"] = sorted(sp.read_ids(d, "train"))
                d.check(show_progressbar=False); r["check"] = "ok"
            except Exception as e:  # noqa: BLE001
                r["error"] = f"{type(e).__name__}: {str(e)[:120]}"
            root_a = str(A.resolve())
            r["outside"] = sorted({p for p in opened if ("shards_list.json" in p or p.endswith("." + a["fmt"]) or "dataset_info" in p)
                                   and not os.path.abspath(os.path.join(str(base / "b"), p)).startswith(root_a + os.sep) and not os.path.abspath(p).startswith(root_a + os.sep)})[:4]
        finally:
            os.chdir(cwd)
        out.append(r)
    shutil.rmtree(base, ignore_errors=True)
    return out


def run(ctx):
    strings = gen_strings(ctx)
    real = []
    for i in range(0, len(strings), 1500):
        real += child.call("harness.checks.c17", "real_validators", strings[i:i + 1500], timeout=900)
    reps = lean.driver([{"m": "path", "root": "/data/ds", "s": r["s"], "fixed": True} for r in real])
    corr_bad, classes = [], collections.Counter()
    for r, m in zip(real, reps):
        s = r["s"]
        inside = r["normpath"] == "/data/ds" or r["normpath"].startswith("/data/ds/")
        classes[(r["abs"], ".." in r["parts"], r["file"])] += 1
        # oracle (independent of the model): whatever a validator accepts stays inside the root
        for field in ("file", "list", "listinfo", "subdir"):
            if r[field] and not inside:
                ctx.report({"kind": "validator-accepts-outside", "validator": field, "absolute": r["abs"]},
                           f"validator '{field}' accepts {s!r}, which joined to /data/ds is {r['normpath']}", {"string": s, "real": r})
        parts = r["parts"][1:] if r["abs"] else r["parts"]
        diffs = []
        if m["abs"] != r["abs"] or m["comps"] != parts: diffs.append(f"parse: model {m['abs'], m['comps']} pathlib {r['abs'], parts}")
        if m["name"] != r["name"]: diffs.append(f"name: model {m['name']!r} pathlib {r['name']!r}")
        if m["join_comps"] != r["join"][1:]: diffs.append(f"join: model {m['join_comps']} pathlib {r['join'][1:]}")
        for field, key in (("file", "accepts_file"), ("list", "accepts_list"), ("listinfo", "accepts_list"), ("subdir", "accepts_subdir")):
            if m[key] != r[field]: diffs.append(f"{field}: model {m[key]} real {r[field]}")
        if m["under"] != inside and ".." not in parts:
            diffs.append(f"under: model {m['under']} os.path {inside}")
        if diffs: corr_bad.append({"string": s, "diffs": diffs})
    # ---- crafted datasets
    tampers = [{"field": "shard", "path": "$OUT"}, {"field": "shard", "path": "$RELOUT"}, {"field": "shard", "path": "train/../../../outside/ods/train/x.fb"},
               {"field": "shard", "path": "$BSRELOUT"}, {"field": "shard", "path": "$BSOUT"},      # the same locations spelled with backslashes
               {"field": "child", "path": "$OUT"}, {"field": "child", "path": "$RELOUT"}, {"field": "self", "path": "$RELOUT"}, {"field": "self", "path": "$OUT"},
               {"field": "symlink", "path": "unrelated"}, {"field": "symlink", "path": "prefix-sibling"}]
    actions = ["open", "check", "sync", "concurrent", "write"] + (["rust", "tf", "async"] if ctx.thorough else ["rust"])
    subdirs = ["..", "../x", "a/../../x", "$ABS", "a/./b", "$REENTER2", "$REENTER3", "$REENTERX",
               "worker_$C17_MIX", "${C17_UP}", "$C17_ABS", "~/sub", "~", "%C17_UP%"]
    args = [{"base": str(ctx.scratch / f"c17_{fmt}"), "fmt": fmt, "tampers": tampers, "actions": actions, "subdirs": subdirs} for fmt in (["fb"] if not ctx.thorough else ["fb", "npz", "tfrec"])]
    for r in child.call("harness.checks.c17", "relative_root_chdir", {"base": str(ctx.scratch / "c17_rel"), "fmt": ["fb", "npz"][ctx.seed % 2]}, timeout=600):
        if r.get("outside") or r.get("ids") != list(range(7)) or any(v != list(range(7)) for v in r.get("lazy", {"-": None}).values()):
            ctx.report({"kind": "reads-outside", "field": "root", "relative": r["rel"]},
                       f"a dataset opened as {r['rel']!r} (relative) and used after the working directory changed read {r.get('ids')} (iterators started before the change: {r.get('lazy')}) ({r.get('error', '')}); files opened outside its root: {r.get('outside')}",
                       {"case": r})
    vw = child.call("harness.checks.c17", "validators_while_committing", {"root": str(ctx.scratch / "c17_busy"), "secs": ctx.pick(4, 15)}, timeout=600)
    if vw["accepted"]:
        ctx.report({"kind": "validator-accepts-outside", "validator": vw["accepted"][0][0], "while_committing": True},
                   f"validator {vw['accepted'][0][0]} accepted {vw['accepted'][0][1]!r} while another thread of the process was committing a writing session (round {vw['accepted'][0][2]}, {vw['commits']} commits so far)",
                   {"accepted": vw["accepted"], "rounds": vw["rounds"], "commits": vw["commits"]})
    ctx.cov["validator_rounds_while_committing"] = vw["rounds"]; ctx.cov["commits_meanwhile"] = vw["commits"]
    hres = child.call("harness.checks.c17", "hostile_cases", args, timeout=1800)
    nh = 0
    for res in hres:
        for r in res["results"]:
            if "subdir" in r:
                nh += 1
                if r["created_outside"]:
                    ctx.report({"kind": "writer-escapes", "absolute": r["subdir"].startswith("$ABS")},
                               f"filler with sub-directory {r['subdir']!r} created files outside the root: {r['created_outside'][:2]} ({r['result']})",
                               {"case": res["case"], "subdir": r["subdir"], "created": r["created_outside"][:5]})
                continue
            t = r["tamper"]
            if t["field"] == "symlink":
                # symbolic links inside a dataset are outside the property's reading (path *strings*); what the code does promise —
                # `load_or_create` resolves the list's location and refuses one outside the root — must hold for every target
                for ev in r["events"]:
                    nh += 1
                    if ev["result"] == "ok":
                        ctx.report({"kind": "loads-list-outside", "field": "symlink", "target": t["path"]},
                                   f"{res['case']['fmt']}: a writer continued a shard list that a symbolic link places outside the root ({t['path']}) instead of refusing it",
                                   {"case": res["case"], "tamper": t, "event": ev})
                continue
            if r["created_outside"]:
                ctx.report({"kind": "writer-escapes", "field": t["field"]}, f"metadata {t} made a later write create {r['created_outside'][:2]} outside the root",
                           {"case": res["case"], "tamper": t})
            for ev in r["events"]:
                nh += 1
                leaked = isinstance(ev["result"], list) and 777777 in ev["result"]
                if leaked or ev["outside_opens"]:
                    ctx.report({"kind": "reads-outside", "field": t["field"], "absolute": t["path"].startswith("$OUT")},
                               f"{res['case']['fmt']} {ev['action']} with {t['field']} path {t['path']!r}: read outside the root ({ev['outside_opens'][:1]}, result {str(ev['result'])[:60]})",
                               {"case": res["case"], "tamper": t, "event": ev})
    if corr_bad and not ctx.violations and not ctx.known_hits:
        ctx.report({"kind": "correspondence"}, f"M-PATH disagrees with pathlib / the validators on {corr_bad[0]['string']!r}: {corr_bad[0]['diffs'][0]}",
                   {"correspondence": "Path.parse/join/accepts* vs pathlib and the pydantic validators", "theorem": "Sedpack.Path.C17_validator_contains", "cases": corr_bad[:5]},
                   name="corr", nofail=True)
    ctx.cov.update({
        "evaluations": len(real) + nh, "distinct_nontrivial": len(set(strings)), "traces_validated_against_impl": len(real) - len(corr_bad),
        "rule": "strings from a path grammar (components a .. . '' ... ..a a.. shards_list.json x.fb 'b c' é; leading '', /, //, ///; depth 0-6; trailing /) through pathlib, "
                "FileInfo, ShardsList, ShardListInfo and the filler guard; crafted datasets whose shard / child-list / self paths point (absolutely, relatively, via ..) to a valid "
                "shard outside the root, opened/checked/iterated/written with every open recorded; a sub-directory that is a symbolic link to a list outside the root (unrelated place, "
                "and a sibling whose name starts with the root's name) written into again; hostile writer sub-directories (.., absolute, re-entering, and names holding $VAR / ${VAR} / ~ whose expansion would lead outside)",
        "samples": [{"s": r["s"], "file": r["file"], "normpath": r["normpath"]} for r in real[:6]],
        "input_distribution": {"strings": len(real), "classes(abs,dotdot,accepted)": {str(k): v for k, v in classes.items()}, "hostile_events": nh},
    })
