"""C13 — the lazy thread pool under every interleaving.

Lean: SedpackProps/C13.lean over M-POOL.  Correspondence: the real `LazyPool` runs under the
deterministic scheduler of harness/instr/sched.py; its queue-operation trace must be accepted by
M-POOL (with the measured prefill count P) and end in the state the model predicts.  Oracle
(model-independent): results are the right multiset, no deadlock, a failing function surfaces as an
exception, all worker threads end after the context is left, the pool can be reused."""
from __future__ import annotations
import itertools, json, threading
from harness.core import lean, child, sp

ASSUMPTIONS = ["CPython queue.Queue is an unbounded FIFO whose get blocks while empty (the modelled boundary)",
               "the mapped function does not touch the pool"]
TRUSTED = ["modelled-not-verified: CPython queue.Queue / threading; the scheduler instrument replaces queue.Queue by a FIFO with yield points"]


def run_cases(args):
    """(child process) run a list of cases on the real pool."""
    from harness.core import sp
    sp.sedpack()
    import sedpack.io.itertools.lazy_pool as lp
    from harness.instr import sched as S
    out = []
    for a in args:
        out.append(run_one(lp, S, a))
    return out


def run_one(lp, S, a):
    T, n, fail, stop_after = a["T"], a["n"], set(a.get("fail", [])), a.get("stop_after")
    sch = S.Sched(seed=a.get("seed", 0), choices=a.get("choices"), exhaustive=bool(a.get("exhaustive")), policy=a.get("policy", "random"))
    state = {}
    saved = S.install(lp, sch, state)
    res = {"case": a}
    got = []
    pulled = {"n": 0}
    class Boom(BaseException):
        """a failure that is not an `Exception` (like SystemExit, KeyboardInterrupt, GeneratorExit, a pyo3 panic)"""
    def f(x):
        if x in fail:
            kind = a.get("fail_kind", "RuntimeError")
            if kind == "SystemExit": raise SystemExit(f"boom {x}")
            if kind == "BaseException": raise Boom(f"boom {x}")
            # failures that carry no message at all (a bare `raise ValueError`, a failed `assert` without text, Ctrl-C)
            if kind == "bare": raise ValueError
            if kind == "assert": assert x is None
            if kind == "KeyboardInterrupt": raise KeyboardInterrupt
            raise RuntimeError(f"boom {x}")
        return x * 10
    orig_get = None
    status = "done"
    pool = lp.LazyPool(a.get("threads_arg", T))       # the argument as the caller gives it (None / 0 / negative are clamped to one worker)
    sch.register("c")
    try:
        try:
            with pool:
                def counted(it):
                    for x in it:
                        pulled["n"] += 1
                        if pulled["n"] > a.get("pull_limit", 10 ** 9):
                            raise RuntimeError("pull-limit")       # run-away read-ahead (reported by C14)
                        yield x
                src = counted(range(n) if n is not None else itertools.count())
                # mark forwarded failures for the label abstraction: the consumer re-raises after a get
                for i, y in enumerate(pool.imap_unordered(f, src)):
                    got.append(y)
                    if stop_after is not None and i + 1 >= stop_after:
                        lk = a.get("leave_kind", "break")      # how the consumer leaves the `with` block early
                        if lk == "break": break
                        if lk == "SystemExit": raise SystemExit("consumer leaves")
                        if lk == "KeyboardInterrupt": raise KeyboardInterrupt("consumer leaves")
                        if lk == "GeneratorExit": raise GeneratorExit("consumer leaves")
                        if lk == "BaseException": raise Boom("consumer leaves")
                        raise RuntimeError("consumer leaves")
        except S.Deadlock:
            status = "DEADLOCK"
        except (RuntimeError, ValueError, AssertionError, SystemExit, KeyboardInterrupt, GeneratorExit, Boom) as e:
            status = "left" if str(e) == "consumer leaves" else "raised"
            res["exc"] = str(e)
        sch.finish()
        stuck = sch.drain()
    finally:
        S.uninstall(lp, saved)
    res.update({"status": status, "got": got, "labels": list(sch.labels), "P": state.get("P"), "pulled": pulled["n"],
                "stuck": stuck, "taken": sch.taken, "branching": sch.branching, "timeouts": sch.timeouts,
                "fields": [pool._active_threads, pool._to_process is None, pool._results is None],
                "threads_alive": sum(isinstance(t, lp.Collector) and t.is_alive() for t in threading.enumerate())})
    # reuse the same pool object (only meaningful when the first pass left nobody blocked)
    if a.get("reuse") and status != "DEADLOCK" and not stuck:
        try:
            with pool:
                second = sorted(pool.imap_unordered(lambda x: x + 1, range(T + 3)))
            res["reuse"] = second == [x + 1 for x in range(T + 3)]
        except BaseException as e:  # noqa: BLE001
            res["reuse"] = f"{type(e).__name__}: {e}"
    return res


def run_overlap(a):
    """Re-use *without* waiting for the abandoned pass to drain: pass 0 is abandoned after `stop_after`
    results, pass 1 (`n2` inputs) starts at once on the same pool object while pass 0's worker threads are
    still scheduled among the new ones.  Labels carry the pass they belong to."""
    import sedpack.io.itertools.lazy_pool as lp
    from harness.instr import sched as S
    T, n, stop_after, n2 = a["T"], a["n"], a["stop_after"], a["n2"]
    sch = S.Sched(seed=a.get("seed", 0), choices=a.get("choices"), policy=a.get("policy", "random"))
    sch.multiT = T
    state = {}
    saved = S.install(lp, sch, state)
    res = {"case": a}
    got, got2, status = [], [], "done"
    pool = lp.LazyPool(T)
    sch.register("c")
    try:
        try:
            with pool:
                for i, y in enumerate(pool.imap_unordered(lambda x: x * 10, range(n) if n is not None else itertools.count())):
                    got.append(y)
                    if i + 1 >= stop_after:
                        break
            with pool:
                for y in pool.imap_unordered(lambda x: x * 10 + 1, range(n2)):
                    got2.append(y)
        except S.Deadlock:
            status = "DEADLOCK"
        except BaseException as e:  # noqa: BLE001
            status = "raised"; res["exc"] = f"{type(e).__name__}: {e}"
        sch.finish()
        stuck = sch.drain()
    finally:
        S.uninstall(lp, saved)
    # "<pass>|label" -> "cur:label" / "old:<pass>:label" / "new"
    cur, out = 0, []
    for l in sch.labels:
        if l == "new":
            cur += 1; out.append("new"); continue
        g, lab = l.split("|", 1)
        out.append(f"cur:{lab}" if int(g) == cur else f"old:{g}:{lab}")
    res.update({"status": status, "got": got, "got2": got2, "labels": out, "P": state.get("P"), "stuck": stuck,
                "overlapped": sum(l.startswith("old:") for l in out),
                "fields": [pool._active_threads, pool._to_process is None, pool._results is None]})
    return res


def run_overlaps(args):
    sp.sedpack()
    return [run_overlap(a) for a in args]


def fix_labels(r):
    """The consumer's re-raise path: after a cGet that delivered a forwarded failure the model is already
    in `resetting`, so no cFinish/cAbandon label precedes the resets."""
    labels = r["labels"]
    if r["status"] == "raised":
        labels = [l for l in labels if l not in ("cAbandon", "cFinish")]
    return labels


def gen_cases(ctx):
    rng = ctx.rng("c13")
    cases = []
    Ts = [1, 2, 3] if not ctx.thorough else [1, 2, 3, 4, 5]
    for T in Ts:
        P = 2 * T + 2
        ns = sorted({0, 1, T - 1, T, T + 1, P - 1, P, P + 1, 3 * T + 4} - {-1})
        for n in ns:
            for rep in range(ctx.pick(1, 3)):
                cases.append({"T": T, "n": n, "seed": rng.randrange(1 << 30), "reuse": True})
            # early exits at sampled positions
            for k in sorted({1, max(1, n - 2 * T - 1), max(1, n - T - 2), max(1, n // 2), n} if n else set()):
                if k <= n:
                    cases.append({"T": T, "n": n, "stop_after": k, "seed": rng.randrange(1 << 30), "reuse": True})
            # failing inputs at sampled positions
            for i in sorted({0, n // 2, n - 1}) if n else []:
                cases.append({"T": T, "n": n, "fail": [i], "seed": rng.randrange(1 << 30), "reuse": True,
                              "fail_kind": ["RuntimeError", "SystemExit", "BaseException", "bare", "assert", "KeyboardInterrupt"][(T + n + i) % 6]})
            # the consumer leaves the `with` block by an exception of every kind (not only `break`)
            for j, lk in enumerate(["RuntimeError", "SystemExit", "KeyboardInterrupt", "GeneratorExit", "BaseException"]):
                n = ns[(j + T) % len(ns)] or P + 1
                cases.append({"T": T, "n": n, "stop_after": 1 + (j % n), "leave_kind": lk, "seed": rng.randrange(1 << 30), "reuse": True})
                cases.append({"T": T, "n": None, "stop_after": 1 + j, "leave_kind": lk, "seed": rng.randrange(1 << 30), "reuse": True})
        # infinite source with early exit
        for k in [1, P, P + 3]:
            cases.append({"T": T, "n": None, "stop_after": k, "seed": rng.randrange(1 << 30), "reuse": True})
    # many worker threads (more cores than any fixed cap an implementation might have): full passes, an early exit, a failure
    for T in ([33, 67, 96] if not ctx.thorough else [17, 33, 48, 65, 67, 130]):      # (beyond 64: no fixed cap on queued inputs / sentinels may be smaller than the thread count)
        for n in (0, 1, 2 * T + 3):
            cases.append({"T": T, "n": n, "seed": rng.randrange(1 << 30), "reuse": n == 1})
        cases.append({"T": T, "n": 3 * T, "stop_after": 2, "seed": rng.randrange(1 << 30), "reuse": False})
        cases.append({"T": T, "n": T + 5, "fail": [1], "seed": rng.randrange(1 << 30), "reuse": False})
    # thread-count arguments that the constructor clamps to a single worker
    for arg in (None, 0, -1, -3):
        for n in (0, 1, 5):
            cases.append({"T": 1, "threads_arg": arg, "n": n, "seed": rng.randrange(1 << 30), "reuse": True})
    if ctx.thorough:
        for _ in range(300):
            T = rng.choice([1, 2, 3, 4]); n = rng.randrange(0, 3 * T + 6)
            c = {"T": T, "n": n, "seed": rng.randrange(1 << 30), "reuse": rng.random() < 0.3}
            r = rng.random()
            if r < 0.35 and n:
                c["stop_after"] = rng.randrange(1, n + 1)
                c["leave_kind"] = rng.choice(["break", "break", "RuntimeError", "SystemExit", "KeyboardInterrupt", "GeneratorExit", "BaseException"])
            elif r < 0.6 and n:
                c["fail"] = sorted({rng.randrange(n) for _ in range(rng.choice([1, 1, 2]))}); c["fail_kind"] = rng.choice(["RuntimeError", "SystemExit", "BaseException", "bare", "assert", "KeyboardInterrupt"])
            cases.append(c)
    return cases


def exhaustive(ctx, T, n, extra, limit):
    """Enumerate *all* schedules of a tiny configuration by depth-first search over choice lists
    (model validation, never the proof)."""
    todo, seen, results = [[]], 0, []
    while todo and seen < limit:
        batch = [todo.pop() for _ in range(min(len(todo), 200))]
        rs = child.call("harness.checks.c13", "run_cases", [dict(extra, T=T, n=n, choices=ch, seed=0, exhaustive=True) for ch in batch], timeout=600)
        for ch, r in zip(batch, rs):
            seen += 1
            results.append(r)
            taken, br = r["taken"], r["branching"]
            # children: at every position at or beyond the forced prefix, the untried alternatives
            for pos in range(len(ch), len(taken)):
                for alt in range(taken[pos] + 1, br[pos]):
                    todo.append(taken[:pos] + [alt])
    return results, not todo


def judge(ctx, r, rep):
    a = r["case"]
    T, n, fail, stop_after = a["T"], a["n"], a.get("fail", []), a.get("stop_after")
    sig_base = {"T_gt1": T > 1, "fail": bool(fail), "early_exit": stop_after is not None}
    def viol(kind, what):
        ctx.report(dict(sig_base, kind=kind), what, {"case": a, "result": {k: r[k] for k in r if k != "case"}, "model": rep})
    # --- oracle
    if r["status"] == "DEADLOCK":
        return viol("deadlock", f"deadlock: T={T} n={n} fail={fail} stop_after={stop_after} after {len(r['labels'])} queue operations")
    if r["stuck"]:
        return viol("workers-not-drained", f"worker threads {r['stuck']} never terminate after the pool context was left (T={T} n={n} stop_after={stop_after} fail={fail})")
    if fail and stop_after is None and r["status"] != "raised":
        if not (set(x // 10 for x in r["got"]) >= set()) or r["status"] == "done":
            return viol("silent-failure", f"the mapped function failed on {fail} but the pass ended normally with {r['got']}")
    if not fail and stop_after is None and n is not None:
        if sorted(r["got"]) != [x * 10 for x in range(n)] or r["status"] != "done":
            return viol("multiset", f"T={T} n={n}: results {sorted(r['got'])} status {r['status']}")
    if stop_after is not None and n is not None and not fail:
        ok = len(r["got"]) == min(stop_after, n) and len(set(r["got"])) == len(r["got"]) and set(r["got"]) <= {x * 10 for x in range(n)}
        if not ok:
            return viol("multiset", f"early exit after {stop_after}: got {r['got']}")
    if a.get("leave_kind", "break") != "break" and stop_after is not None and not fail and r["status"] != "left":
        return viol("leave-swallowed", f"the consumer left the pool's context by {a['leave_kind']} after {stop_after} results; outcome {r['status']} {r.get('exc', '')}")
    if len(set(r["got"])) != len(r["got"]):
        return viol("duplicate", f"duplicate results {r['got']}")
    if r["fields"] != [0, True, True]:
        return viol("not-reset", f"pool fields after exit: {r['fields']}")
    if a.get("reuse") and r.get("reuse") is not True:
        return viol("not-reusable", f"second use of the pool: {r.get('reuse')}")
    # --- correspondence
    if not rep.get("ok"):
        return ("corr", f"M-POOL refuses label {rep.get('label')} at {rep.get('at')}")
    if rep["out"] != [x // 10 for x in r["got"]]:
        return ("corr", f"model out {rep['out']} vs yielded {r['got']}")
    if not rep["terminal"]:
        return ("corr", f"model not terminal at the end: ph={rep['ph']} ws={rep['ws']} enabled={rep['enabled']}")
    return None


def run(ctx):
    cases = gen_cases(ctx)
    if ctx.replay:
        rp = json.loads(open(ctx.replay).read())
        if "case" in rp:
            c = dict(rp["case"]); c["choices"] = rp.get("result", {}).get("taken")
            cases = [c]
    results = []
    for i in range(0, len(cases), 80):
        results += child.call("harness.checks.c13", "run_cases", cases[i:i + 80], timeout=900)
    exh_info = []
    if ctx.thorough:
        for (T, n, extra) in [(1, 1, {}), (1, 2, {}), (2, 1, {}), (2, 2, {}), (1, 2, {"fail": [0]}), (2, 2, {"fail": [1]}),
                              (2, 3, {"stop_after": 1}), (2, 2, {"stop_after": 1})]:
            rs, complete = exhaustive(ctx, T, n, extra, limit=4000)
            exh_info.append({"T": T, "n": n, **extra, "schedules": len(rs), "complete": complete})
            results += rs
    reqs = []
    for r in results:
        a = r["case"]
        P = r["P"] if r["P"] is not None else 2 * a["T"] + 2
        reqs.append({"m": "pool", "T": a["T"], "P": P, "n": a["n"], "fails": a.get("fail", []), "forward": True,
                     "trace": fix_labels(r)})
    reps = lean.driver(reqs)
    corr_bad, distinct, labels_total = [], set(), 0
    Ps = set()
    # ---- re-use while the abandoned pass is still draining (M-POOL `Multi`)
    orng = ctx.rng("overlap")
    ocases = []
    for T in ([1, 2, 3] if not ctx.thorough else [1, 2, 3, 4]):
        for n in (None, 3 * T + 4, T + 1):
            for k in (1, 2):
                for pol in (["random", "consumer_first"] if not ctx.thorough else ["random", "random", "consumer_first", "workers_first"]):
                    if n is None or k <= n:
                        ocases.append({"T": T, "n": n, "stop_after": k, "n2": orng.choice([0, 1, T, 2 * T + 3]), "seed": orng.randrange(1 << 30), "policy": pol})
    ores = child.call("harness.checks.c13", "run_overlaps", ocases, timeout=900) if not ctx.replay else []
    oreqs = [{"m": "mpool", "T": r["case"]["T"], "P": r["P"] if r["P"] is not None else 2 * r["case"]["T"] + 2,
              "passes": [{"n": r["case"]["n"], "fails": []}, {"n": r["case"]["n2"], "fails": []}], "trace": r["labels"]} for r in ores]
    oreps = lean.driver(oreqs) if oreqs else []
    overlapped = 0
    for r, rep in zip(ores, oreps):
        a = r["case"]; overlapped += r["overlapped"] > 0
        sig = {"kind": "reuse-overlap", "T_gt1": a["T"] > 1}
        if r["status"] != "done" or r["stuck"]:
            ctx.report(dict(sig, what=r["status"] if r["status"] != "done" else "stuck"),
                       f"pool re-used while the abandoned pass drains: status {r['status']} {r.get('exc', '')}, stuck workers {r['stuck']} (T={a['T']} n={a['n']} stop_after={a['stop_after']} n2={a['n2']})",
                       {"case": a, "result": {k: r[k] for k in r if k != "case"}})
        elif sorted(r["got2"]) != [x * 10 + 1 for x in range(a["n2"])] or len(r["got"]) != a["stop_after"] or any(y % 10 for y in r["got"]):
            ctx.report(dict(sig, what="results"), f"pool re-used while the abandoned pass drains: second pass yielded {sorted(r['got2'])} for {a['n2']} inputs (first pass {r['got']})",
                       {"case": a, "result": {k: r[k] for k in r if k != "case"}})
        elif not rep.get("ok"):
            corr_bad.append({"case": a, "why": f"M-POOL(Multi) refuses {rep.get('label')} at {rep.get('at')}", "labels": r["labels"][:120]})
        elif not all(rep["terminal"]) or rep["outs"][1] != [y // 10 for y in r["got2"]]:
            corr_bad.append({"case": a, "why": f"M-POOL(Multi) end state: {rep}", "labels": r["labels"][:120]})
        labels_total += len(r["labels"])
    for r, rep in zip(results, reps):
        v = judge(ctx, r, rep)
        if isinstance(v, tuple):
            corr_bad.append({"case": r["case"], "why": v[1], "labels": r["labels"][:80]})
        a = r["case"]
        distinct.add((a["T"], a["n"], bool(a.get("fail")), a.get("stop_after") is not None, tuple(r["labels"])))
        labels_total += len(r["labels"])
        if r["P"] is not None: Ps.add((a["T"], r["P"]))
    if corr_bad and not ctx.violations and not ctx.known_hits:
        ctx.report({"kind": "correspondence"}, "M-POOL no longer accepts the real pool's queue-operation trace: " + corr_bad[0]["why"],
                   {"correspondence": "M-POOL accepts(trace) / final state", "theorem": "Sedpack.Pool.C13_exactly_once / C13_deadlock_free",
                    "cases": corr_bad[:3]}, name="corr", nofail=True)
    bad_P = [tp for tp in Ps if tp[1] < tp[0]]
    if bad_P and not ctx.violations:
        ctx.report({"kind": "hypothesis"}, f"measured prefill count P < T: {bad_P} (hypothesis T <= P of the C13 theorems fails)",
                   {"theorem": "Sedpack.Pool.Good", "measured": sorted(Ps)}, name="hyp", nofail=True)
    ctx.cov.update({
        "evaluations": len(results) + len(ores), "distinct_nontrivial": len({d for d in distinct if len(d[4]) > 6}),
        "traces_validated_against_impl": len(results) + len(ores) - len(corr_bad), "labels_replayed": labels_total,
        "measured_T_P": sorted(Ps), "exhaustive_enumerations": exh_info,
        "overlapped_reuse_runs": len(ores), "overlapped_reuse_runs_with_old_workers_interleaved": overlapped,
        "rule": "real LazyPool under the deterministic scheduler: T in 1..3 (1..5 thorough), n around T and 2T+2, complete passes, early exits (by `break` and by every kind of exception raised in the consumer's loop body, incl. KeyboardInterrupt/SystemExit/GeneratorExit), "
                "failing inputs, infinite sources, pool reuse (after draining, and *overlapped*: a second pass started while the abandoned pass's workers are still scheduled, replayed through M-POOL Multi); one random schedule per case (thorough: +300 random cases and exhaustive "
                "enumeration of all schedules for tiny (T,n)); distinct = distinct label traces with more than 6 labels",
        "samples": [{"case": r["case"], "labels": r["labels"][:40], "status": r["status"], "got": r["got"]} for r in results[:3]],
        "input_distribution": {"by_T": {t: sum(r["case"]["T"] == t for r in results) for t in range(1, 6)},
                               "early_exit": sum(r["case"].get("stop_after") is not None for r in results),
                               "failing": sum(bool(r["case"].get("fail")) for r in results),
                               "infinite": sum(r["case"]["n"] is None for r in results),
                               "status": {s: sum(r["status"] == s for r in results) for s in ("done", "raised", "left", "DEADLOCK")},
                               "leave_kind": {k: sum(r["case"].get("leave_kind") == k for r in results) for k in ("RuntimeError", "SystemExit", "KeyboardInterrupt", "GeneratorExit", "BaseException")}},
    })
