import sys, re, glob
out = "/verif/seeded/MATRIX.md"
pardir = sys.argv[1]
rows, header = {}, []
for l in open(out):
    m = re.match(r"\| (C\d+_\w+) \|", l)
    if m: rows[m.group(1)] = l
    elif not rows: header.append(l)
for w in sorted(glob.glob(pardir + "/*/")):
    ran = set(re.findall(r"^(C\d+_\w+) rc=", open(w + "log").read(), re.M))
    for l in open(w + "verif/seeded/MATRIX.md"):
        m = re.match(r"\| (C\d+_\w+) \|", l)
        if m and m.group(1) in ran: rows[m.group(1)] = l
tail = [l for l in open(out) if not re.match(r"\| (C\d+_\w+) \|", l) and l not in header]
open(out, "w").write("".join(header) + "".join(rows[k] for k in sorted(rows)) + "".join(tail))
print(len(rows), "rows;", sum("| caught |" in r for r in rows.values()), "caught;", [k for k, r in rows.items() if "| caught |" not in r])
