#!/bin/bash
# hwrun.sh <k> <tier> <seedname|-> <Cxx…>: run checks from the working copy /var/tmp/hw/harness on private copies of /repo (optionally with
# /verif/seeded/<seedname>/patch.diff applied) and /verif.  Logs in /var/tmp/hwr/<k>/
k="$1"; tier="$2"; seed="$3"; shift 3
W=/var/tmp/hwr/$k
rm -rf "$W"; mkdir -p "$W"
cp -a /repo "$W/repo"; cp -a /verif "$W/verif"
git -C "$W/repo" checkout -q -- . 
rsync -a --exclude __pycache__ /var/tmp/hw/harness/ "$W/verif/harness/"; [ -d /var/tmp/hw/rust_harness ] && rsync -a /var/tmp/hw/rust_harness/ "$W/verif/rust_harness/"
if [ "$seed" != "-" ]; then git -C "$W/repo" apply /verif/seeded/$seed/patch.diff || { echo "patch failed"; exit 2; }; fi
export SEDPACK_VERIF_RUSTCACHE="$W/rustcache"
unshare -m bash -c "mount --bind $W/repo /repo && mount --bind $W/verif /verif && cd /verif && for p in $*; do ./check \$p $tier > $W/\$p.log 2>&1; echo \"\$p rc=\$? \$(grep -h '^VIOLATION\|^KNOWN' $W/\$p.log | head -3 | tr '\n' ' ')\"; done" 
