import subprocess, sys, shutil, re
from pathlib import Path
old, new = Path("/tmp/rb_old"), Path("/tmp/rb_new")
fix = {  # file -> (unfixed snippet, fixed snippet)
 "src/sedpack/io/shard_file_metadata.py": ("(dataset_root_path / relative_path_self).read_text())", "(dataset_root_path /\n                 relative_path_self).read_text(encoding=\"utf-8\"))"),
 "src/sedpack/io/dataset_base.py": ("shard_list_info.shard_list_info_file.file_path).read_text())", "shard_list_info.shard_list_info_file.file_path).read_text(\n                 encoding=\"utf-8\"))"),
 "src/sedpack/io/dataset_writing.py": ("(self.path / file_path).read_text())", "(self.path / file_path).read_text(encoding=\"utf-8\"))"),
}
def sh(*a, cwd): return subprocess.run(a, cwd=cwd, capture_output=True, text=True)
for s in sys.argv[1:]:
    for w in (old, new):
        sh("git", "checkout", "-q", "--", ".", cwd=w); sh("git", "clean", "-fdq", cwd=w)
    r = sh("git", "apply", f"/verif/seeded/{s}/patch.diff", cwd=old)
    if r.returncode: print(s, "does not apply to the old tree", r.stderr[:200]); continue
    changed = sh("git", "status", "--porcelain", cwd=old).stdout.split("\n")
    files = [l[3:] for l in changed if l.strip()]
    for f in files:
        src = old / f
        if src.is_dir():
            shutil.copytree(src, new / f, dirs_exist_ok=True); continue
        txt = src.read_text()
        if f in fix:
            a, b = fix[f]
            if a in txt: txt = txt.replace(a, b)
            txt = txt.replace(".read_text())", ".read_text(encoding=\"utf-8\"))")
        (new / f).parent.mkdir(parents=True, exist_ok=True)
        (new / f).write_text(txt)
    sh("git", "add", "-N", ".", cwd=new)
    d = sh("git", "diff", "--", "src", "rust", cwd=new).stdout
    Path(f"/var/tmp/rebased_{s}.diff").write_text(d)
    print(s, "rebased", len(d.split("\n")), "lines;", "files:", files)
    sh("git", "reset", "-q", cwd=new)
