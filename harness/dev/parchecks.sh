#!/bin/bash
# parchecks.sh <k> <seed> <tier> <Cxx…>: the given checks on private copies of /repo and /verif
k="$1"; seed="$2"; tier="$3"; shift 3
W=/var/tmp/parq/$k
rm -rf "$W"; mkdir -p "$W"
cp -a /repo "$W/repo"; cp -a /verif "$W/verif"
export SEDPACK_VERIF_RUSTCACHE="$W/rustcache" VERIF_SEED="$seed"
unshare -m bash -c "mount --bind $W/repo /repo && mount --bind $W/verif /verif && cd /verif && for p in $*; do /usr/bin/time -f \"\$p %es\" -a -o $W/times ./check \$p $tier > $W/\$p.log 2>&1; echo \"\$p rc=\$? \$(grep -h '^VIOLATION\|^KNOWN' $W/\$p.log | head -3 | tr '\n' ' ' | cut -c1-200)\"; done > $W/summary 2>&1"
echo "$k: $(grep -c 'rc=0' $W/summary) ok, $(grep -vc 'rc=0' $W/summary) not ok"
