"""Deterministic scheduler for the real `LazyPool` at queue-operation granularity.

`lazy_pool.queue` is replaced by a module whose `Queue` parks the calling thread at every
`put`/`get`; `lazy_pool.Collector` by a subclass that registers with the scheduler.  A thread runs
only when granted; the grant is chosen by a PRNG (or a replay list) among the *enabled* threads
(a `get` on an empty queue is not enabled).  "All live threads parked, none enabled" is a deadlock,
decided exactly, without wall-clock time-outs.  Every operation is logged as an M-POOL label."""
from __future__ import annotations
import random, threading, time


class Deadlock(BaseException):
    pass


class Sched:
    def __init__(self, seed=0, choices=None, exhaustive=False, policy="random"):
        self.rng = random.Random(seed)
        self.exhaustive = exhaustive
        self.policy = policy            # "random" | "workers_first" | "consumer_first"
        self.choices = list(choices) if choices is not None else None   # replay: index into enabled list
        self.taken: list[int] = []          # choice made at every step (index into the sorted enabled list)
        self.branching: list[int] = []      # number of enabled threads at every step
        self.cv = threading.Condition()
        self.pending: dict[int, tuple] = {}
        self.live: set[int] = set()
        self.names: dict[int, str] = {}
        self.granted = None
        self.labels: list[str] = []
        self.dead = False
        self.holding: dict[str, bool] = {}  # worker name -> holds an item (between get and put)
        self.multiT = None                  # multi-pass mode: threads per pass (labels get a "<pass>|" prefix)
        self.max_steps = 200000             # a run that never quiesces (a retry loop around a timed-out get) is cut here
        self.timeouts = 0                   # timed `get`s that were granted on an empty queue (the time-out fired)

    def register(self, name):
        with self.cv:
            tid = threading.get_ident()
            self.live.add(tid); self.names[tid] = name

    def finish(self):
        with self.cv:
            tid = threading.get_ident()
            nm = self.names.get(tid, "?")
            if self.holding.get(nm):
                # the thread ends while holding an element: the mapped function killed it
                k = int(nm[1:])
                self.labels.append(f"wPut:{k}" if self.multiT is None else f"{k // self.multiT}|wPut:{k % self.multiT}")
                self.holding[nm] = False
            self.live.discard(tid); self.pending.pop(tid, None)
            self._dispatch(); self.cv.notify_all()

    def _enabled(self):
        # a `get` with a time-out (or non-blocking) on an empty queue is enabled too: the time-out may fire at any moment
        # … and so are queries of a queue's or a thread's state (`empty()`, `qsize()`, `is_alive()`): they never block
        return [t for t, (k, q) in self.pending.items() if k in ("put", "tget", "peek", "alive") or q.items]

    def _dispatch(self):
        if self.granted is not None or self.dead:
            return
        if set(self.pending) != self.live:
            return
        en = sorted(self._enabled(), key=lambda t: self.names[t])
        if not en or len(self.taken) > self.max_steps:
            if self.live:
                self.dead = True
            return
        if self.choices is not None and len(self.taken) < len(self.choices):
            k = self.choices[len(self.taken)] % len(en)
        elif self.choices is not None and self.exhaustive:
            k = 0                      # depth-first enumeration: first alternative beyond the forced prefix
        elif self.policy == "workers_first":
            k = len(en) - 1            # names sort as c < w0 < w1 …: the last enabled thread is a worker if any is enabled
        elif self.policy == "consumer_first":
            k = 0
        else:
            k = self.rng.randrange(len(en))
        self.taken.append(k); self.branching.append(len(en))
        self.granted = en[k]

    def point(self, kind, q, do, label):
        tid = threading.get_ident()
        with self.cv:
            self.pending[tid] = (kind, q)
            self._dispatch(); self.cv.notify_all()
            while self.granted != tid:
                if self.dead:
                    self.pending.pop(tid, None)
                    raise Deadlock()
                self.cv.wait(0.02)
            try:
                res = do()
            except BaseException:          # a timed get on an empty queue: queue.Empty goes to the caller
                del self.pending[tid]; self.granted = None
                raise
            nm = self.names[tid]
            lab = label(nm, res)
            if lab:
                self.labels.append(lab)
            del self.pending[tid]; self.granted = None
            return res

    def drain(self, limit_s=20.0):
        """Consumer is gone: keep granting until all workers finished or they are stuck."""
        t0 = time.time()
        while True:
            with self.cv:
                if not self.live or self.dead:
                    break
                self._dispatch(); self.cv.notify_all()
            if time.time() - t0 > limit_s:
                break
            time.sleep(0.0005)
        with self.cv:
            stuck = sorted(self.names[t] for t in self.live)
            self.dead = True          # release whoever is still parked
            self.cv.notify_all()
        return stuck


def install(lp, sched: Sched, state: dict):
    """Patch the module `lp` (sedpack.io.itertools.lazy_pool). `state` collects measurements."""
    import queue as realqueue

    class FakeQueue:
        n = 0
        def __class_getitem__(cls, item):
            return cls
        def __init__(self, *a, **k):
            FakeQueue.n += 1
            self.name = "toProc" if FakeQueue.n % 2 == 1 else "results"
            self.gen = (FakeQueue.n - 1) // 2
            self.items = []
            if sched.multiT is not None and self.name == "toProc":
                state["gen"] = self.gen
                if self.gen >= 1:
                    sched.labels.append("new")
        def _tag(self, lab):
            return lab if sched.multiT is None else f"{self.gen}|{lab}"
        def _w(self, nm):
            return nm[1:] if sched.multiT is None else str(int(nm[1:]) % sched.multiT)
        def put(self, x, *a, **k):
            def lab(nm, _):
                return self._tag(lab0(nm))
            def lab0(nm):
                if nm == "c":
                    if state.get("resetting"):
                        return "cReset"
                    state["cputs"] = state.get("cputs", 0) + 1
                    if not state.get("first_get"):
                        return "cPut"
                    return "cPutNext"
                sched.holding[nm] = False
                return f"wPut:{self._w(nm)}"
            sched.point("put", self, lambda: self.items.append(x), lab)
        def get_nowait(self):
            return self.get(block=False)
        def put_nowait(self, x):
            return self.put(x)
        def get(self, block=True, timeout=None):
            timed = (not block) or (timeout is not None)
            def take():
                if not self.items:
                    sched.timeouts += 1
                    raise realqueue.Empty()            # only reachable for a timed / non-blocking get
                return self.items.pop(0)
            def lab(nm, res):
                return self._tag(lab0(nm, res))
            def lab0(nm, res):
                if nm == "c":
                    if not state.get("first_get"):
                        state["first_get"] = True
                        state["P"] = state.get("cputs", 0)
                    # plain results are ints in the harness; anything else that is not the
                    # sentinel is a forwarded failure of the mapped function
                    state["err_seen"] = not isinstance(res, (int, list, lp.StopSentinel))
                    return "cGet"
                sched.holding[nm] = not isinstance(res, lp.StopSentinel)
                return f"wGet:{self._w(nm)}"
            return sched.point("tget" if timed else "get", self, take, lab)
        # queries of the queue's state are scheduling points too: whatever they report may be out of date by the time it is used
        def qsize(self):
            return sched.point("peek", self, lambda: len(self.items), lambda nm, r: None) if threading.get_ident() in sched.live else len(self.items)
        def empty(self):
            return sched.point("peek", self, lambda: not self.items, lambda nm, r: None) if threading.get_ident() in sched.live else not self.items

    class FakeQueueModule:
        Queue = FakeQueue
        Empty = realqueue.Empty

    Base = lp.Collector
    counter = {"k": 0}

    class SCollector(Base):
        def start(self):
            self._nm = f"w{counter['k']}"; counter["k"] += 1
            self._ev = threading.Event()
            threading.Thread.start(self)
            self._ev.wait()
        def run(self):
            sched.register(self._nm); self._ev.set()
            try:
                Base.run(self)
            except Deadlock:
                pass
            except BaseException:      # the mapped function raised and the worker does not catch it
                state["worker_died"] = state.get("worker_died", 0) + 1
            finally:
                sched.finish()
        def is_alive(self):
            # asked by a scheduled thread, the question is a scheduling point (the worker may finish first); the answer is the
            # scheduler's: a worker is alive until it has left `run`
            me = threading.get_ident()
            if me in sched.live and me != self.ident:
                sched.point("alive", None, lambda: None, lambda nm, r: None)
            return self.ident in sched.live

    orig_reset = lp.LazyPool.finish_and_reset

    def finish_and_reset(self):
        if self._to_process is None:
            return orig_reset(self)
        why = "err" if state.get("err_seen") else ("finish" if self._active_threads == 0 else "abandon")
        pre = "" if sched.multiT is None else f"{state.get('gen', 0)}|"
        if why == "finish":
            sched.labels.append(pre + "cFinish")
        elif why == "abandon":
            sched.labels.append(pre + "cAbandon")
        state["resetting"] = True
        state["why"] = why
        try:
            return orig_reset(self)
        finally:
            sched.labels.append(pre + "cReset")       # the k = T step: queues forgotten
            state["resetting"] = False
            state["first_get"] = False; state["cputs"] = 0; state["err_seen"] = False

    saved = (lp.queue, lp.Collector, lp.LazyPool.finish_and_reset)
    lp.queue = FakeQueueModule
    lp.Collector = SCollector
    lp.LazyPool.finish_and_reset = finish_and_reset
    FakeQueue.n = 0
    return saved


def uninstall(lp, saved):
    lp.queue, lp.Collector, lp.LazyPool.finish_and_reset = saved
