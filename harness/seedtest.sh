#!/bin/bash
# seedtest.sh <patch.diff> <tier> <Cxx> [<Cyy> ...] : apply a seeded patch to /repo, run checks, undo.
P="$1"; TIER="$2"; shift 2
cd /repo && git diff --quiet || { echo "/repo dirty"; exit 9; }
# evidence files are rewritten by every run: keep the ones from the unchanged tree and put them back afterwards
EVSAVE=$(mktemp -d /var/tmp/evsave.XXXXXX); cp -a /verif/evidence/. "$EVSAVE"/ 2>/dev/null
git -C /repo apply "$P" || { echo "patch does not apply"; exit 9; }
# on exit: undo the patch and regenerate the tables that are generated from the source (they are committed files)
trap 'git -C /repo checkout -- . ; git -C /repo status --short | grep -v "^??" ; (cd /verif && PYTHONPATH=/verif /venv/bin/python -c "from harness import extract_tables as E, extract_order as O; E.gen_c01(); E.gen_c12(); E.gen_c16(); E.gen_c19(); O.gen_src()" >/dev/null 2>&1); rm -rf /verif/evidence; mkdir -p /verif/evidence; cp -a "$EVSAVE"/. /verif/evidence/; rm -rf "$EVSAVE"' EXIT
for C in "$@"; do
  out=$(cd /verif && ./check $C $TIER 2>&1); rc=$?
  echo "== $C rc=$rc"; echo "$out" | grep -E "^VIOLATION|^KNOWN|violation:" | cut -c1-300 | head -5
done
