#!/bin/bash
# parmatrix.sh <k> <tier> <seed names…>: run seedmatrix.sh on private copies of /repo and /verif (bind-mounted over the real paths
# inside a private mount namespace), so that several workers can run side by side.  Log: /var/tmp/par/<k>/log
k="$1"; tier="$2"; shift 2
W=${PARMATRIX_DIR:-/var/tmp/par}/$k
rm -rf "$W"; mkdir -p "$W"
cp -a /repo "$W/repo"; cp -a /verif "$W/verif"
export SEDPACK_VERIF_RUSTCACHE="$W/rustcache"
unshare -m bash -c "mount --bind $W/repo /repo && mount --bind $W/verif /verif && cd /verif && harness/seedmatrix.sh $tier $* > $W/log 2>&1"
echo "worker $k done: $(grep -c 'rc=' $W/log) seeds, $(grep -c MISSED $W/log) missed, $(grep -c INFRA $W/log) infra"
