#!/bin/bash
# mkworktree.sh <dir>  — scratch worktree of /repo HEAD with the built Rust extension copied in
set -e
D="$1"
git -C /repo worktree add --detach "$D" HEAD >/dev/null 2>&1
cp /repo/src/sedpack/_sedpack_rs*.so "$D/src/sedpack/" 2>/dev/null || true
echo "$D"
