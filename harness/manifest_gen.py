"""Regenerate MANIFEST.json from the table below (kept in one place so it is always valid)."""
import json
from pathlib import Path
VERIF = Path(__file__).resolve().parents[1]
ALL = [f"C{i:02d}" for i in range(1, 21)]

CHECKS = {
 "C16": dict(
    technique="Lean 4 proof (induction on the read loop, streaming-law hypothesis) + differential correspondence of the real hash_checksums under injected short reads",
    text="Theorems C16_chunks_concat / C16_digest_is_standard / C16_order_preserved hold for every content, buffer size >= 1, "
         "short-read pattern and algorithm tuple. The model is tied to /repo by replaying the real function with a controlled readinto "
         "and recording hash objects; recorded digests of real datasets are compared with independent one-shot digests.",
    note="Digest algorithms (hashlib, xxhash) and CPython file objects are modelled, not verified; streaming law is an explicit hypothesis.",
    ref="DESIGN.md §5 C16"),
}

def main():
    checks = []
    for pid in ALL:
        if pid not in CHECKS: continue
        c = CHECKS[pid]
        checks.append({
            "property_id": pid,
            "quick_cmd": f"./check {pid} quick",
            "thorough_cmd": f"./check {pid} thorough",
            "evidence_file": f"evidence/{pid}.json",
            "replay_cmd_template": f"./check {pid} quick --replay {{path}}",
            "engine": "lean4-proof+correspondence",
            "level_claimed": {"category": "proof", "text": c["text"], "design_ref": c["ref"]},
            "level_note": c["note"],
            "technique": c["technique"],
        })
    na = [{"property_id": p, "reason": "check not built yet in this session (work in progress; see DESIGN.md §9 staging)"}
          for p in ALL if p not in CHECKS]
    m = {
        "version": 1,
        "setup_cmd": "cd lean && lake build",
        "hooks": {"guard": "SEDPACK_VERIF", "enable": "no source hooks: all instrumentation is installed from the harness by module-attribute patching, audit hooks and strace",
                  "baseline_off_cmd": "cd /repo && /venv/bin/python -m pytest -ra -q -p no:cacheprovider --timeout=900 --continue-on-collection-errors",
                  "source_commits": [], "add_only": True},
        "engines": [{"name": "lean4-proof+correspondence", "path": "lean/ harness/", "serves_properties": [c["property_id"] for c in checks],
                     "kind_free_text": "Lean 4 theorems over hand-written executable models; compiled Lean driver replays traces observed on the real code"}],
        "checks": checks,
        "not_applicable": na,
        "notes": "See DESIGN.md. Every check: lake build (no-op) + axiom audit + correspondence/oracle runs against /repo's working tree.",
    }
    (VERIF / "MANIFEST.json").write_text(json.dumps(m, indent=1) + "\n")

if __name__ == "__main__":
    main()
