"""Regenerate MANIFEST.json from the table below (kept in one place so it is always valid)."""
import json
from pathlib import Path
VERIF = Path(__file__).resolve().parents[1]
ALL = [f"C{i:02d}" for i in range(1, 21)]

CHECKS = {
 "C16": dict(
    technique="Lean 4 proof (induction on the read loop, streaming-law hypothesis) + differential correspondence of the real hash_checksums under injected short reads",
    text="Theorems C16_chunks_concat / C16_digest_is_standard / C16_order_preserved hold for every content, buffer size >= 1, "
         "short-read pattern and algorithm tuple. The model is tied to /repo by replaying the real function with a controlled readinto "
         "and recording hash objects; recorded digests of real datasets are compared with independent one-shot digests.",
    note="Digest algorithms (hashlib, xxhash) and CPython file objects are modelled, not verified; streaming law is an explicit hypothesis.",
    ref="DESIGN.md §5 C16"),
 "C10": dict(
    technique="Lean 4 proof (invariant over all op lists of the filler model M-FILL) + differential correspondence of the real DatasetFiller on generated write sequences",
    text="C10_shard_size_bounds, C10_never_close_fails, C10_nonlast_full_or_mdchange, C10_full_except_last, C10_sessions hold for every eps>=1 and every "
         "interleaving of splits, metadata values, rejected writes and sessions. M-FILL is tied to /repo by replaying the write outcomes observed on the "
         "real filler (fb/npz/tfrec) through the compiled Lean model and comparing the listing a fresh reader sees.",
    note="Shard encoders/decoders are used only to count stored examples; writers assumed atomic per example (C18 checks that).",
    ref="DESIGN.md §5 C10"),
 "C11": dict(
    technique="Lean 4 proof (label invariant of M-FILL under value semantics; reference-semantics counterexample by decide) + differential correspondence incl. in-place mutation of the caller's dict",
    text="C11_md_labels, C11_every_write_listed_once, C11_select_by_md for every write sequence; C11_alias_counterexample is the kernel-checked witness of the "
         "pinned by-reference defect (fixed in /repo). Correspondence runs mutate and reuse the caller's objects across size boundaries and splits.",
    note="Examples written with absent metadata are unconstrained (documented retroactive labelling). JSON round-trip of metadata values is C20's concern.",
    ref="DESIGN.md §5 C11"),
 "C18": dict(
    technique="Lean 4 proof (reject_no_trace as a corollary of the conservation invariant of M-FILL; pinned-order witnesses by decide) + differential correspondence with 8 kinds of invalid writes on all formats",
    text="C18_reject_no_trace, C18_counts_exclude_rejected for all prefixes/suffixes; the oracle demands: must-reject kinds raise, valid writes never fail, "
         "no orphan shard file, every listed shard decodable, read-back equals accepted writes. Writer-level atomicity is validated on the real writers, not proved.",
    note="numpy can_cast and TensorFlow feature construction are table-modelled externals; the per-format writer buffers are exercised, not modelled in Lean yet.",
    ref="DESIGN.md §5 C18"),
 "C13": dict(
    technique="Lean 4 proof (16-clause inductive invariant over all reachable states of the queue-operation LTS M-POOL; deadlock-freedom; termination measure) + trace-acceptance correspondence of the real LazyPool under a deterministic scheduler",
    text="C13_exactly_once, C13_fault_no_silent_end, C13_deadlock_free, C13_terminates, C13_early_exit_drains, C13_inflight, C13_no_duplicates for every T>=1, "
         "prefill P>=T, finite or infinite input, every failing set and every interleaving; C13_original_deadlocks is the kernel-checked stuck state of the pinned "
         "code (fixed in /repo). The real pool runs under a scheduler that owns every queue operation (deadlock decided exactly); each trace must be accepted by the "
         "compiled model with the measured P and end in a terminal model state. Thorough adds exhaustive schedule enumeration for tiny (T,n) as model validation.",
    note="CPython queue.Queue (FIFO, blocking get) and threading are the modelled boundary; abandoning is allowed at any point between two results (a superset of the yield points).",
    ref="DESIGN.md §5 C13, Appendix A.1"),
}

def main():
    checks = []
    for pid in ALL:
        if pid not in CHECKS: continue
        c = CHECKS[pid]
        checks.append({
            "property_id": pid,
            "quick_cmd": f"./check {pid} quick",
            "thorough_cmd": f"./check {pid} thorough",
            "evidence_file": f"evidence/{pid}.json",
            "replay_cmd_template": f"./check {pid} quick --replay {{path}}",
            "engine": "lean4-proof+correspondence",
            "level_claimed": {"category": "proof", "text": c["text"], "design_ref": c["ref"]},
            "level_note": c["note"],
            "technique": c["technique"],
        })
    na = [{"property_id": p, "reason": "check not built yet in this session (work in progress; see DESIGN.md §9 staging)"}
          for p in ALL if p not in CHECKS]
    m = {
        "version": 1,
        "setup_cmd": "cd lean && lake build",
        "hooks": {"guard": "SEDPACK_VERIF", "enable": "no source hooks: all instrumentation is installed from the harness by module-attribute patching, audit hooks and strace",
                  "baseline_off_cmd": "cd /repo && /venv/bin/python -m pytest -ra -q -p no:cacheprovider --timeout=900 --continue-on-collection-errors",
                  "source_commits": [], "add_only": True},
        "engines": [{"name": "lean4-proof+correspondence", "path": "lean/ harness/", "serves_properties": [c["property_id"] for c in checks],
                     "kind_free_text": "Lean 4 theorems over hand-written executable models; compiled Lean driver replays traces observed on the real code"}],
        "checks": checks,
        "not_applicable": na,
        "notes": "See DESIGN.md. Every check: lake build (no-op) + axiom audit + correspondence/oracle runs against /repo's working tree.",
    }
    (VERIF / "MANIFEST.json").write_text(json.dumps(m, indent=1) + "\n")

if __name__ == "__main__":
    main()
