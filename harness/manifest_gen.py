"""Regenerate MANIFEST.json from the table below (kept in one place so it is always valid)."""
import json
from pathlib import Path
VERIF = Path(__file__).resolve().parents[1]
ALL = [f"C{i:02d}" for i in range(1, 21)]

CHECKS = {
 "C16": dict(
    technique="Lean 4 proof (induction on the read loop, streaming-law hypothesis) + differential correspondence of the real hash_checksums under injected short reads",
    text="Theorems C16_chunks_concat / C16_digest_is_standard / C16_order_preserved hold for every content, buffer size >= 1, "
         "short-read pattern and algorithm tuple. The model is tied to /repo by replaying the real function with a controlled readinto "
         "and recording hash objects; recorded digests of real datasets are compared with independent one-shot digests."
         " Overlapping calls: six threads digest different multi-chunk files at the same time; every result must equal the one-shot digest (the model treats a call as a pure function of the file's bytes - shared state between calls would falsify that)."
         " C16Src.lean re-checks on the statement order extracted from the current source that _get_hash_function returns a freshly constructed object in every branch and stores nothing, and that hash_checksums creates, feeds and then reads the objects; every algorithm is also requested twice and three times in one call; four threads with a filler each close shards at overlapping times and every recorded digest is recomputed. C16Conc.lean (model M-HASH-CONC: any number of calls in flight, any interleaving of their read / update steps): C16_overlapping_calls_feed_their_own_file - with a buffer and a hash state per call every finished call has fed exactly its own file - and the witnesses C16_shared_buffer_breaks_it / C16_shared_hash_state_breaks_it; every read and update of three real threads hashing at once is recorded in one global order and replayed on M-HASH-CONC (driver endpoint hashconc), and every call's fed slices are compared with the chunks of its own file.",
    note="Digest algorithms (hashlib, xxhash) and CPython file objects are modelled, not verified; streaming law is an explicit hypothesis.",
    ref="DESIGN.md §5 C16"),
 "C10": dict(
    technique="Lean 4 proof (invariant over all op lists of the filler model M-FILL, carried through M-TREE to every enumerated shard after every history; roll-over test re-checked on a statement-order table generated from the source on every run) + differential correspondence of the real DatasetFiller on generated write sequences",
    text="C10_shard_size_bounds, C10_never_close_fails, C10_nonlast_full_or_mdchange, C10_full_except_last, C10_sessions, C10_shard_count_is_ceiling (C10Count.lean: with constant shard metadata the N accepted examples of a split occupy exactly ceil(N/eps) shards) hold for every eps>=1 and every "
         "interleaving of splits, metadata values, rejected writes and sessions. M-FILL is tied to /repo by replaying the write outcomes observed on the "
         "real filler (fb/npz/tfrec) through the compiled Lean model and comparing the listing a fresh reader sees."
         ' System level (SedpackProps/C10System.lean): C10_enumerated_shards_in_bounds / C10_history_in_bounds carry the bound through M-TREE to every shard a reader enumerates after any history of filler sessions; C10Src.lean re-checks the roll-over test (>=, before the write) and the exit guard (only shards with at least one example are closed) against the statement order extracted from the current source on every run.',
    note="Shard encoders/decoders are used only to count stored examples; writers assumed atomic per example (C18 checks that).",
    ref="DESIGN.md §5 C10"),
 "C11": dict(
    technique="Lean 4 proof (label invariant of M-FILL under value semantics; reference-semantics counterexample by decide; labels carried through M-TREE to every enumerated shard after every history) + differential correspondence incl. in-place mutation of the caller's dict",
    text="C11_md_labels, C11_every_write_listed_once, C11_select_by_md for every write sequence; C11_alias_counterexample is the kernel-checked witness of the "
         "pinned by-reference defect (fixed in /repo). Correspondence runs mutate and reuse the caller's objects across size boundaries and splits."
         ' System level (SedpackProps/C11System.lean): C11_enumerated_shard_origin, C11_enumerated_shards_labelled, C11_history_labelled: every shard entry a reader enumerates after any history is the record of a closed shard whose examples written under a non-empty value were written under the recorded one.'
         ' C11Src.lean re-checks on the statement order extracted from the current source that the label assigned to the open shard is the result of deepcopy, attached after the write was accepted. Directed runs keep ONE metadata object and change the distinguishing value in place inside containers of several kinds (a list held by a tuple, a set, nested tuples).',
    note="Examples written with absent metadata are unconstrained (documented retroactive labelling). JSON round-trip of metadata values is C20's concern.",
    ref="DESIGN.md §5 C11"),
 "C18": dict(
    technique="Lean 4 proof (filler level: reject_no_trace as a corollary of the conservation invariant of M-FILL; writer level: M-WRITER models of the npz / FlatBuffers / TFRecord writers with 'decoded = accepted examples' for every sequence of calls; pinned-order witnesses by decide; the model configuration re-derived from a statement-order table generated from the source on every run) + differential correspondence with 8 kinds of invalid writes on all formats and call-by-call comparison of the real writers' buffers with M-WRITER",
    text="C18_reject_no_trace, C18_counts_exclude_rejected for all prefixes/suffixes; the oracle demands: must-reject kinds raise, valid writes never fail, "
         "no orphan shard file, every listed shard decodable, read-back equals accepted writes. Writer level (SedpackProps/C18Writers.lean): C18_npz_write_atomic, C18_npz_decodes_accepted, "
         "C18_fb_decodes_accepted, C18_tfrec_decodes_accepted, C18_tfrec_no_orphan_file, witnesses C18_npz_pinned_ragged (D5b) and C18_tfrec_pinned_orphan (D4b); each real writer is driven directly "
         "with missing keys / wrong shapes / encoder refusals at the first, middle and last attribute and its buffer compared with the model after every call."
         ' C18Src.lean: the model configuration the theorems are proved for (write before metadata attach, before any counter; validation before the buffer is touched) is re-derived from the statement order of write_example / Shard.write / ShardWriterBase.write extracted from the current source on every run (C18_src_model_configuration).'
         ' C18Conc.lean (model M-PAR: components with private state side by side, any schedule; SedpackProofs/Par.lean proves non-interference - every interleaving projects to the solo runs): C18_overlapping_writers_verdict_is_the_examples - any number of writers validating an example each at overlapping times reach the verdict each example gets alone - and the witness C18_shared_mismatch_list_breaks_it; two threads writing into unrelated datasets with one validation paused in the middle exercise it on the real writers, and the recorded interleaving of their checks is replayed on the model (driver endpoint parval): verdicts = the real outcomes.',
    note="numpy can_cast and TensorFlow feature construction decide *which* values an encoder refuses (externals; the model takes that verdict as an input bit per value).",
    ref="DESIGN.md §5 C18"),
 "C13": dict(
    technique="Lean 4 proof (16-clause inductive invariant over all reachable states of the queue-operation LTS M-POOL; deadlock-freedom; termination measure) + trace-acceptance correspondence of the real LazyPool under a deterministic scheduler",
    text="C13_exactly_once, C13_fault_no_silent_end, C13_deadlock_free, C13_terminates, C13_early_exit_drains, C13_inflight, C13_no_duplicates for every T>=1, "
         "C13_reuse_is_fresh_pass / _reuse_exactly_once / _reuse_old_workers_drain (a re-used pool object is a list of independent passes: M-POOL Multi), "
         "prefill P>=T, finite or infinite input, every failing set and every interleaving; C13_original_deadlocks is the kernel-checked stuck state of the pinned "
         "code (fixed in /repo). The real pool runs under a scheduler that owns every queue operation (deadlock decided exactly); each trace must be accepted by the "
         "compiled model with the measured P and end in a terminal model state; re-use is exercised both after draining and overlapped (second pass started while the abandoned pass's workers are still scheduled). Thorough adds exhaustive schedule enumeration for tiny (T,n) as model validation."
         " C13Src.lean re-checks on the statement order extracted from the current source that __exit__ calls finish_and_reset first, once and outside any branch, and that the reset puts the sentinels before it forgets the queue, and the shapes of imap_unordered (refill put before the yield, reset before a forwarded failure is re-raised) and Collector.run (whatever the mapped function does, something is put); the consumer leaves the context by break and by exceptions of every kind (KeyboardInterrupt, SystemExit, GeneratorExit, ...).",
    note="CPython queue.Queue (FIFO, blocking get) and threading are the modelled boundary; abandoning is allowed at any point between two results (a superset of the yield points).",
    ref="DESIGN.md §5 C13, Appendix A.1"),
 "C02": dict(
    technique="Lean 4 proof (permutation theorems for the shuffle-buffer and round-robin monitors by counting invariants, lazy-pool exactly-once, batch concatenation, composed per interface; multiset equality written = enumerated through M-TREE for every history) + trace-acceptance correspondence of the real generators and end-to-end multiset comparison through all five interfaces",
    text="C02_shuffle_buffer_perm, C02_round_robin_perm, C02_round_robin_opens_all, C02_pool_perm, C02_batches_concat and their compositions "
         "C02_exactly_once_sync/_concurrent/_async: every complete run of an interface yields a permutation of (selected shards' examples).map g, for every shuffle size, "
         "file_parallelism>=1 and schedule; C02Mid.lean: C02_shuffle_buffer_conserves / C02_round_robin_conserves / C02_shuffle_buffer_partial (at every reachable state of a pass, i.e. for every early stop, pulled = yielded + held as multisets). The monitors are tied to /repo by replaying boundary traces of the real shuffle_buffer/round_robin (sync and async); "
         "datasets are read through sync/concurrent/async/rust/tf.data and compared as multisets with process_record call counts."
         ' System level (SedpackProps/C02System.lean): C02_session_examples_perm / C02_history_examples_perm / C02_written_is_enumerated (the examples enumerated for a split after any history of sessions with fresh shard names are, as a multiset, exactly the examples the sessions stored for it) and C02_end_to_end (composed with the pipeline theorems: one pass of the synchronous, concurrent or asyncio interface or of the Rust reader (C02_exactly_once_rust over M-PMAP) - any shuffle size, parallelism and schedule - delivers a permutation of everything written).'
         ' C02Src.lean re-checks on the statement order extracted from the current source that no reading-side function stores anything on the dataset object and that every pass starts from shard_info_iterator (a pass is a function of the description as it is now).',
    note="tf.data operators and the Rust reader's timing are specified externals (outputs compared). Which shards are selected is C12/C04.",
    ref="DESIGN.md §5 C02"),
 "C03": dict(
    technique="Lean 4 proof (unshuffled output equals a function of the on-disk state for every file_parallelism; session write order from the M-FILL conservation invariant; composed end to end M-FILL -> M-TREE -> M-PIPE: after a filler session every unshuffled reader yields the previous examples followed by the accepted writes in write order) + end-to-end sequence comparison across passes, reopen, parallelism and delays; batch-structure correspondence",
    text="C03_sync/_concurrent/_async_unshuffled_eq, C03_interfaces_agree, C03_session_order; SedpackProps/C03System.lean: C03_filler_session_end_to_end, C03_enumeration_of_flat_split, C03_reader_sees_write_order "
         "(the three models composed: write_example ... write_config ... as_numpy_iterator*, for every operation sequence, history, shard size and read parallelism). The real interfaces are run with shuffle=0 over two passes and a reopened handle, "
         "file_parallelism 1..#shards+2 and seeded loader delays; sequences must equal the write order; the executor batches are compared with Iter.batches."
         " SedpackProps/C03Rust.lean: C03_rust_unshuffled_eq - the Rust reader (shard list -> full pass of M-PMAP with any thread count and interleaving -> each shard's examples in order) yields the same list."
         " C03Src.lean re-checks on the statement order extracted from the current source the shape M-PIPE gives the unshuffled pipelines (batches by islice, ordered map, chain; nothing compared or filtered) and that the reading side keeps no state on the handle.",
    note="Executor.map ordering, tf.data deterministic interleave and the Rust channel order are specified externals; the shard enumeration order of nested lists is proved with M-TREE (C04 file).",
    ref="DESIGN.md §5 C03"),
 "C14": dict(
    technique="Lean 4 proof (read-ahead inequalities as invariants over every reachable monitor / LTS state; productivity) + measured read-ahead of the real generators, LazyPool and interfaces on finite and infinite sources",
    text="C14_shuffle_buffer_readahead (<= b+1, <= b between nexts), C14_shuffle_buffer_prefill, C14_round_robin_readahead (<= b open), C14_pool_inflight (<= 2T+2), "
         "C14_batches_bounded, C14_shuffle_buffer_productive. Measured pulled-yielded of the real code equals the monitor's value on the same trace; LazyPool read-ahead "
         "is checked to be independent of the input length; shard opens for k examples of a repeating stream are bounded independently of the dataset size."
         ' Rust reader (SedpackProps/C14Rust.lean): C14_rust_total_read_ahead - in every reachable state of M-PMAP, also after drop, the items taken from the input are at most the results returned plus the worker count; the cargo harness measures exactly that on the real parallel_map (instrumented input iterator: pulled for k results, and by the time the iterator is dropped) and the recorded channel operations must contain no next() after drop.'
         ' C14Src.lean re-checks on the statement order extracted from the current source that the four stage generators contain no comparison (they never look at the elements they move), pull once per iteration and yield before they overwrite a slot; streams of None / falsy / unhashable / array elements are run through the three stages; sized containers as pool input, a buffer size of None, a slow head-of-line shard.',
    note="Memory inside TensorFlow / the Rust extension is out of scope; the shard-path shuffle buffer holds path strings only.",
    ref="DESIGN.md §5 C14"),
 "C19": dict(
    technique="Lean 4 proof (cycle periodicity, repeated one-pass stream, no finish without end-of-source, yielded ⊆ pulled, Rust epoch permutation) + end-to-end prefixes of several epochs through every interface",
    text="C19_cycle_periodic, C19_unshuffled_stream, C19_shuffle_buffer_never_ends, C19_only_pulled(_rr), C19_rust_epoch. The first m*N+r elements of every interface with "
         "repeat=True are compared with onepass[k mod N] (unshuffled), checked for membership and non-termination (shuffled) and per-epoch permutation (Rust)."
         " C19Repeat.lean (over C19Gen.lean, a table of every read of the repeat flag generated from dataset_iteration.py on every run): the flag is only truth-tested, forwarded under its own name or stored for a later truth test, defaults to on in every interface, and tf.data's repeat is called without a count; C19Src.lean: the path list is cycled (itertools.cycle) before the shard-level shuffle. repeat is spelled True / default / numpy.True_ / 1 in rotation.",
    note="tf.data.repeat is a specified external.",
    ref="DESIGN.md §5 C19"),
 "C04": dict(
    technique="Lean 4 proof (merge_spec by induction on the recursion with frame lemmas, for every tree depth; exactness of every split after every history of sessions; recorded totals = enumeration totals) + differential correspondence of the shards_list.json documents after every session of generated histories, and an independent recount oracle",
    text="C04_merge_exact, C04_session_exact, C04_history_exact, C04_touched_split_recorded, C04_counts, C04_written_listed, C04_no_shard_listed_twice (no file name is enumerated twice after any history of sessions with freshly named shards), C04_every_written_shard_is_enumerated (+ C03_iter_order, C03_merge_keeps_update_order). "
         "Histories over root / fresh / reused / nested sub-directory fillers and multi-writer calls are executed on the real API; after every session the canonicalised list "
         "documents must equal the model's store, and the tree is recounted from disk (decode every shard, no file listed twice or unlisted, handle == fresh open, check() passes)."
         " C04Src.lean re-checks on the statement order extracted from the current source that write_config has no branch after the validation of the split names (no update bypasses merge_shard_infos) and writes the description last; histories include shards of thousands of examples and sessions nested in time on one handle.",
    note="Per-shard counts come from M-FILL (C10). pydantic (de)serialisation and the shard decoders are modelled-not-verified; multi-writer calls run single_process here (real processes: C09).",
    ref="DESIGN.md §5 C04, Appendix A.2"),
 "C08": dict(
    technique="Lean 4 proof (merge never changes any list's shard files, keeps reachable directories reachable, reaches every update, makes nothing else reachable; enumeration = shard entries of the reachable lists; a session adds exactly the shards it closed, for every history of completed sessions) + per-split before/after multiset comparison on generated histories; create-refused check",
    text="C08_merge_keeps_files, C08_merge_keeps_reachable, C08_session_append_only, C08_untouched_dirs_unchanged, C08_session_adds_exactly (iff, in terms of what the depth-first walk enumerates), "
         "C08_history_invariant (exactness and absence of unlinked lists after every history from the empty dataset), C08_enumeration_is_reachable_lists, C08_create_refused. After every session of a generated history the "
         "examples reachable per split are exactly previous + newly written; Dataset.create on an existing dataset raises and leaves all files byte-identical."
         " C08Src.lean re-checks on the statement order extracted from the current source that create tests and refuses before it creates anything and that a commit never takes the description file away (one atomic replace of a temp file written beforehand); create is also tried on a copy of the directory taken at every file-system effect of another handle's commit, sessions are continued by a process with another locale, and several held-back fillers are committed by one write_config.",
    note="Same model and externals as C04.",
    ref="DESIGN.md §5 C08"),
 "C05": dict(
    technique="Lean 4 proof (check completeness on exact trees; detection of any altered/removed/replaced list or shard file by induction along the check's two passes, under a per-pair no-collision premise; theorems over a statement-order table of Dataset.check generated from the source on every run) + fault enumeration against the real Dataset.check",
    text="C05_check_complete, C05_check_after_history, C05_detects_list_file, C05_detects_shard_file, C05_root_checksum. Faults (bit flips, truncation, extension, deletion, sibling swap, "
         "roll-back to an older committed version, description flip with expected checksums, in-place flip with size and mtime preserved) are planted on every sampled reachable file of "
         "committed flat and nested datasets with 1..13 algorithms; the real check must raise for each and pass on the untouched dataset."
         ' C05Src.lean re-checks, on the statement order extracted from the current source on every run, that _check_shard_list_info hashes and compares (!=, raise) before it parses and recurses, and that check() verifies description, lists, shards in that order with a raise after each inequality.'
         ' C05_merge_restores_exactness: one merge re-establishes exactness of the whole split from any well-formed store (held-back infos, crashed sessions); oracles for held-back infos and for a handle whose previous check failed.',
    note="Hash functions are external; detection is stated for modifications whose new digest differs from the recorded one (checked by the harness for every planted fault).",
    ref="DESIGN.md §5 C05"),
 "C06": dict(
    technique="Lean 4 proof (invariants over every reachable state of the file-system-effect LTS M-CRASH: listed => closed, children first, description last, monotone reachability; every prefix of an accepted trace is a state; refinement of the code-shaped merge to an effect-emitting model whose install sequence is proved valid, so every prefix is sandwiched between the committed and the final store; theorems over statement-order tables generated from the source on every run) + install order and crash states of the real session = the model's + acceptance of the real code's audit-hook effect trace + recovery oracle on a snapshot at every effect boundary incl. torn variants",
    text="C06_invariant, C06_reachable_complete, C06_committed_kept, C06_children_first, C06_closed_stays, C06_every_prefix_is_a_state, C06_partial_writes_invisible. Real sessions (first/continued, root/sub/nested, "
         "multi-writer) run under an audit hook; the directory is snapshotted before every open/rename/mkdir/remove, after every rename and after every write_example; every snapshot (and torn variants) is reopened: "
         "metadata parse, reachable shards complete and matching checksums, committed examples present, only whole written examples."
         " Code-shaped crash model (SedpackModel/TreeCrash.lean, SedpackProofs/TreeCrash.lean, SedpackProps/C06Tree.lean): sessionE is M-TREE's session emitting every list document it installs in program order; C06_effects_refine_session (same dataset, installs reproduce the store), C06_session_installs_valid (children first, every document well formed, documents only grow - M-CRASH's install guards derived rather than observed), C06_session_crash_points / C06_history_crash_points (after ANY prefix of the installs of a session continuing ANY history: no dangling record, every committed shard still enumerated in list order, nothing enumerated that was not committed or closed by the session). Second correspondence: the documents and the order the real session renames into place = sessionE's installs, and the reader's enumeration of every after-rename snapshot = the model's crash state. C06Src.lean re-checks the effect order (write-then-rename, close-then-hash-then-list, children before parent, lists before description) against the statement order extracted from the current source on every run."
         ' C06_multiwriter_crash_points / C06_concurrent_writers_crash_points (any number of fillers; worker processes under ANY schedule of their effects), C06_code_shaped_trace_accepted_by_M_CRASH and C06_description_install_accepted (the code-shaped model refines M-CRASH), C06_next_session_heals / C06_crash_then_session_heals (from any crash state, every split a later completed session touches is exact again; sampled on real crash snapshots: heal session + check()). Further oracles: writer dying of ENOSPC on its k-th metadata temp file; a long-lived writer process and a second process taking turns.',
    note="Atomic rename, 'a process crash loses no completed write', fresh uuid names are assumptions; TensorFlow's native writes are observed via results; concurrent reader = a crash state.",
    ref="DESIGN.md §5 C06, Appendix A.4"),
 "C09": dict(
    technique="Lean 4 proof (the store after any interleaving of writers with disjoint directories equals the sequential run: locality of append effects + projection argument) + real multi-process runs under strace compared with the single-process run, M-TREE and the recount oracle",
    text="C09_interleaving_eq_sequential, C09_writer_footprint, C09_multiwriter_eq_sequential, C09_no_shared_file. write_multiprocessing runs with real worker processes (1-4 and cpu_count+2 writers, uneven loads, "
         "idle writers, seeded delays); result must equal the single_process run, be exact (recount, check()), keep each writer's order, return values in argument order; strace -f gives per-process write sets "
         "which must be pairwise disjoint and inside the writer's own directory."
         " C09Src.lean re-checks on the statement order extracted from the current source that the writers' directory names come from uuid4 (not from a process id, counter, core count or clock), that every returned filler's infos are collected without a comparison in between and merged by one write_config; one run makes every pool worker but the first slow to start, so that one process runs several writers in turn.",
    note="multiprocessing.Pool (ordered imap, pickling) is a specified external; relative speeds are perturbed by delays, not controlled.",
    ref="DESIGN.md §5 C09"),
 "C12": dict(
    technique="Lean 4 proof (sublist / first-k / filter / per-metadata-limit / empty-is-error theorems about the selection routine) + a theorem over a wiring table regenerated from the source by an ast translator on every run + differential and end-to-end comparison across all interfaces and formats",
    text="C12_select_sublist, _firstk, _filter, _limit, _empty_is_error, _nonempty, C12_select_combined / _combined_sub (C12Combined.lean: all three options given together, closed form and per-metadata-value content), and C12_every_interface_forwards (decide over SedpackProps/C12Gen.lean, regenerated from dataset_iteration.py "
         "before every build: a dropped option breaks the proof obligation directly). The model's selection is compared with the real shard_paths_dataset; every interface that accepts an option "
         "is run on fb/npz/tfrec datasets with contiguous and interleaved metadata groups (flat and nested values) and must yield exactly the selected shards' examples."
         " C12Src.lean re-checks on the statement order extracted from the current source that the selection is recomputed from shard_info_iterator on every call (nothing stored on the handle) and applies predicate, emptiness test, per-metadata limit in that order; the limits are also given as NumPy integer scalars.",
    note="Grouping key = equality of the metadata value. Once the shard list is fixed, delivery is C02. The ast extractor is trusted code.",
    ref="DESIGN.md §5 C12"),
 "C17": dict(
    technique="Lean 4 proof (for every path string the repaired validators accept, root/path normalises to root ++ components; everything outside is rejected; pinned-validator counterexample by decide) + grammar-generated strings through pathlib and the real validators, crafted hostile datasets with every file open recorded",
    text="C17_validator_contains, C17_rejects_outside, C17_list_and_subdir_validators, C17_list_name, C17_reads_inside, C17_absolute_counterexample. M-PATH's parser/join/validators are compared with "
         "pathlib, FileInfo, ShardsList, ShardListInfo and the filler guard on hundreds (thorough: thousands) of grammar strings; datasets whose shard / child-list / self paths point outside "
         "the root (absolute, relative, via ..) are opened, checked, iterated and written: nothing outside may be opened or created."
         " C17Src.lean re-checks on the statement order extracted from the current source that the filler context only stores its arguments after its two guards (nothing transforms the sub-directory between check and use) and that every shard location goes through the validating FileInfo constructor; sub-directories holding $VAR / ${VAR} / ~ are written with the variables set to values that lead outside; hostile strings are validated in a loop while another thread commits sessions; iterators started before a chdir are consumed after it.",
    note="No symlinks inside the dataset directory; pathlib's parser is modelled (and compared). Native readers' opens are seen through their results (a recognisable example id) and the audit hook.",
    ref="DESIGN.md §5 C17"),
 "C20": dict(
    technique="Lean 4 proof (version gate characterised for all triples; dump-without-defaults/load-with-defaults identity for every document; relocation invariance from C17's containment) + differential runs of the gate and of pydantic's exclude_defaults, generated descriptions and relocated datasets",
    text="C20_gate, C20_same_or_older_loads, C20_defaults_roundtrip, C20_relocation_invariant. Version triples around the running version (incl. multi-digit components) are stamped into real datasets and "
         "the verdict compared with Ver.loads and with numeric tuple comparison; random ShardsList documents go through model_dump_json(exclude_defaults)/validate and the model's dump/load; descriptions with "
         "unicode and nested JSON metadata at dataset/attribute/shard level are reopened and compared; copies/moves (nested, unicode, blank, cwd-relative) are opened, checked, iterated and written to."
         " C20Src.lean re-checks on the statement order extracted from the current source that DatasetBase.__init__ resolves the root after and outside the try around expanduser and stores the resolved path last. The create / reopen / check / continue cycle is repeated in a child process whose default text encoding is ASCII (found D16), and a dataset and its copy are opened and checked by two threads at once.",
    note="pydantic-core's JSON text layer and semver's parser are externals (partial: exercised, not proved).",
    ref="DESIGN.md §5 C20"),
 "C15": dict(
    technique="Lean 4 proof (per-worker pipeline invariant of the channel-operation LTS M-PMAP in (round, slot) coordinates: output = input order, completeness at the end, one outstanding task per worker, deadlock freedom, drop lets workers exit, termination) + trace-level correspondence: the order of channel operations recorded under real thread interleavings by an env-guarded hook in parallel_map.rs is accepted by M-PMAP and reproduces the real output + output-level correspondence: cargo integration test of parallel_map and the rebuilt extension vs the Python reader C15Reg.lean (model M-REG: the keyed registry of native iterators with client handles): C15_fresh_keys_isolate_iterators - for every history of creations, reads and exits of any number of handles, if every new iterator is registered under a key not in the map at that moment, each handle is handed a prefix of its own examples - with the witnesses C15_key_from_map_size_crosses_streams / _then_panics; the staggered-lifetime history of three real Rust iterators is replayed on M-REG (driver endpoint reg), one iterator is kept open across 10300 others, and a straggling item in the cargo harness.",
    text="C15_output_in_input_order, C15_only_items, C15_complete_at_end, C15_full_pass_is_the_input (a full pass returns exactly the input positions 0..n-1 in order), C15_terminates, C15_one_outstanding, C15_deadlock_free, C15_drop_lets_workers_exit for every worker count, input length and interleaving; SedpackProps/C15Drop.lean: C15_any_prefix_is_input_prefix (at every moment, dropped or not, the returned items are input positions 0..k-1 in order), C15_schedule_independent and C15_shorter_run_is_prefix (two executions under any two schedules and drop positions agree on their common prefix), C15_never_twice (no item is ever returned two times); C15DropShards.lean: C15_early_drop_is_python_prefix / C15_early_drop_prefix_of_full (the examples delivered up to any early drop are a prefix of the unshuffled Python output). "
         "parallel_map is driven by a cargo test (item-dependent delays, stalling consumer, early drops with /proc/self/task thread counts); the extension rebuilt from /repo/rust is compared with "
         "as_numpy_iterator for threads <,=,> #shards, all supported compressions, uneven shards, early close; the model's outputs under pseudo-random schedules are compared with both. With SEDPACK_VERIF=1 the hook records every worker recv / worker send / consumer next / drop in a global order consistent with the channel synchronisation; every recorded trace (three mapped functions with different delay profiles, 1..128 threads, full passes and early drops) must be accepted by M-PMAP step by step and leave the model with the output the iterator really produced."
         ' SedpackProps/C15Python.lean: C15_rust_equals_python - composed with the pipeline model of the Python interfaces, the unshuffled Rust reader and the synchronous / concurrent Python readers yield the same list for every thread count of either and every timing.',
    note="Rust thread interleavings are observed (hook) but not controlled: the schedules exercised are those the OS produces under three delay profiles, the theorems cover all of them; after `drop` the recorded trace is cut (whether a pending send still succeeds is a race) and thread exit is decided by /proc/self/task counts; worker panics (C07) are tied at output level only; std::sync::mpsc FIFO/disconnect semantics are a specified external.",
    ref="DESIGN.md §5 C15, Appendix A.3"),
 "C01": dict(
    technique="Lean 4 proof (little-endian element round trip for every width and bit pattern; byte-order decision for every tag x host; C-order flatten/reshape for every rank, shape and memory layout; whole-attribute round trip; two's complement and safe integer widening; theorems over tables generated from the source: TFRecord encode/decode per dtype, compress/decompress/Rust decoder arms) + byte-level correspondence of stored FlatBuffers vectors with the model + bit-exact end-to-end runs over formats x compressions x dtypes x shapes x presentations x readers",
    text="C01_le_roundtrip, C01_le_injective, C01_stored_is_little_endian, C01_swaps_iff_memory_big_endian, C01_flatten_reshape, C01_c_order_bijection, C01_attribute_roundtrip, C01_zero_width_stores_nothing, "
         "C01_int_pattern_roundtrip, C01_safe_int_casts_preserve_value, C01_tfrec_ints_widen_exactly, C01_tfrec_float_is_float32, C01_codecs_paired, C01_pipeline. "
         "What is sedpack's own in the write->read path is proved for all inputs; the containers and codecs are external laws (hypotheses of C01_pipeline) exercised end to end on every run: "
         "every element's bit pattern is compared after a round trip through every reader; for FlatBuffers the byte vector found in the shard by an independent walk must equal the model's encodeAttr.",
    note="PARTIAL in the sense that FlatBuffers / numpy / TensorFlow / compression libraries are specified externals, validated by the end-to-end runs but not proved. Two known findings (npz trailing NULs, tfrec float32 signalling NaNs) are listed in known_findings.json.",
    ref="DESIGN.md §5 C01"),
 "C07": dict(
    technique="Lean 4 proof (corollaries of exactly-once: a complete pass delivers every source element; lazy pool with a failing input: no normal end, no deadlock, finite schedules, terminal state = re-raised; Rust: dead worker reported, pinned semantics' truncation witnessed by decide) + fault planting under a watchdog over every interface, and scheduler-controlled pool runs",
    text="C07_pool_fault_raises, C07_complete_pass_delivers_everything, C07_round_robin_delivers_everything, C07_rust_dead_worker_is_reported, C07_fstep_eq_step, C07_rust_original_truncates / _repaired_raises. "
         "Shards are deleted / emptied / overwritten with garbage / truncated at the first, middle and last position; every interface x shuffle on/off x file_parallelism runs under a 60 s alarm and must raise; "
         "a damage counts only if the format library itself (flatbuffers / numpy / TFRecord reader, independent of sedpack's iteration code) rejects the file. The lazy pool with a failing loader runs under the deterministic scheduler."
         " Rust worker panics: the cargo harness runs parallel_map with a function panicking on one item (every position x 1/2/3/8 threads); the pass must raise with exactly the results before that item; the channel operations recorded by the SEDPACK_VERIF hook, plus the consumer's failing next(), are replayed on M-PMAP's fault-aware step (pmapfault endpoint) and must leave the model failed with the same output (C07_rust_dead_worker_is_reported)."
         " C07Src.lean re-checks on the statement order extracted from the current source that no iteration interface contains an exception handler at all, that the pool's consumer re-raises (after the reset) and that the worker forwards what it caught; damage kinds include zero-filled and 0xFF-filled files, with the weaker demand (every example of the undamaged shards) when the format library reads the damaged file without complaint.",
    note="Executor / asyncio / tf.data error propagation and Rust panic unwinding are specified externals; bounded time is a watchdog at run time and a step bound (mu) in the model.",
    ref="DESIGN.md §5 C07"),
}

def main():
    checks = []
    for pid in ALL:
        if pid not in CHECKS: continue
        c = CHECKS[pid]
        checks.append({
            "property_id": pid,
            "quick_cmd": f"./check {pid} quick",
            "thorough_cmd": f"./check {pid} thorough",
            "evidence_file": f"evidence/{pid}.json",
            "replay_cmd_template": f"./check {pid} quick --replay {{path}}",
            "engine": "lean4-proof+correspondence",
            "level_claimed": {"category": "proof", "text": c["text"], "design_ref": c["ref"]},
            "level_note": c["note"],
            "technique": c["technique"],
        })
    na = [{"property_id": p, "reason": "check not built yet in this session (work in progress; see DESIGN.md §9 staging)"}
          for p in ALL if p not in CHECKS]
    m = {
        "version": 1,
        "setup_cmd": "cd lean && lake build",
        "hooks": {"guard": "SEDPACK_VERIF", "enable": "one source hook (rust/src/parallel_map.rs, module `verif`): with the environment variable SEDPACK_VERIF=1 the order of parallel_map's channel operations is recorded in memory for the cargo harness of C15 (harness/checks/c15.py sets the variable for that test binary only); everything else is installed from the harness by module-attribute patching, audit hooks and strace",
                  "baseline_off_cmd": "cd /repo && /venv/bin/python -m pytest -ra -q -p no:cacheprovider --timeout=900 --continue-on-collection-errors",
                  "source_commits": ["49e3a68"], "add_only": True},
        "engines": [{"name": "lean4-proof+correspondence", "path": "lean/ harness/", "serves_properties": [c["property_id"] for c in checks],
                     "kind_free_text": "Lean 4 theorems over hand-written executable models; compiled Lean driver replays traces observed on the real code"}],
        "checks": checks,
        "not_applicable": na,
        "notes": "See DESIGN.md. Every check: lake build (no-op) + axiom audit + correspondence/oracle runs against /repo's working tree.",
    }
    (VERIF / "MANIFEST.json").write_text(json.dumps(m, indent=1) + "\n")

if __name__ == "__main__":
    main()
