#!/bin/bash
# confirm_seed.sh <worktree> <seedname>: re-verify a sub-agent's seeded change, store it under /verif/seeded/<seedname>/
WT="$1"; NAME="$2"; OUT=/verif/seeded/$NAME
set -u
cd "$WT" || exit 9
export PYTHONPATH=$WT/src TF_CPP_MIN_LOG_LEVEL=3 CUDA_VISIBLE_DEVICES=""
git -C "$WT" diff -- src rust > /var/tmp/$NAME.patch
[ -s /var/tmp/$NAME.patch ] || { echo "no source diff in $WT"; exit 9; }
RUST=0; grep -q "^diff --git a/rust/" /var/tmp/$NAME.patch && RUST=1
rebuild() {  # rebuild the extension of the worktree from its current rust sources
  (cd "$WT/rust" && CARGO_NET_OFFLINE=true PYO3_PYTHON=/venv/bin/python cargo build --release --offline --features pyo3/extension-module --target-dir /var/tmp/$NAME.target >/dev/null 2>&1 \
    && cp /var/tmp/$NAME.target/release/libsedpack_rs.so "$WT/src/sedpack/_sedpack_rs.cpython-312-x86_64-linux-gnu.so")
}
[ $RUST = 1 ] && rebuild
# 1. demo fails with the patch
timeout 300 /venv/bin/python _seed/demo.py > /var/tmp/$NAME.demo_with.log 2>&1; rc_with=$?
# 2. demo passes without
git -C "$WT" apply -R /var/tmp/$NAME.patch   # (never `git stash`: the stash is shared by all worktrees)
[ $RUST = 1 ] && rebuild
timeout 300 /venv/bin/python _seed/demo.py > /var/tmp/$NAME.demo_without.log 2>&1; rc_without=$?
git -C "$WT" apply /var/tmp/$NAME.patch
[ $RUST = 1 ] && rebuild
# 3. test-suite passes with the patch (rust changes need a rebuild: done by the caller beforehand)
timeout 1500 /venv/bin/python -m pytest -q -p no:cacheprovider --timeout=900 tests > /var/tmp/$NAME.tests.log 2>&1; rc_tests=$?
summary=$(tail -1 /var/tmp/$NAME.tests.log)
rm -rf /var/tmp/$NAME.target
echo "$NAME demo_with=$rc_with demo_without=$rc_without tests=$rc_tests ($summary)"
if [ $rc_with -ne 0 ] && [ $rc_without -eq 0 ] && [ $rc_tests -eq 0 ]; then
  mkdir -p $OUT
  cp /var/tmp/$NAME.patch $OUT/patch.diff
  cp _seed/demo.py $OUT/demo.py
  /venv/bin/python - "$OUT" "$WT" "$rc_with" "$rc_without" "$summary" <<'PY'
import json, sys
out, wt, rc_with, rc_without, summary = sys.argv[1:6]
try: meta = json.load(open(f"{wt}/_seed/meta.json"))
except Exception: meta = {}
meta["confirmed"] = {"demo_exit_with_patch": int(rc_with), "demo_exit_without_patch": int(rc_without),
                     "test_suite_with_patch": summary,
                     "ran": ["PYTHONPATH=<wt>/src python _seed/demo.py (with patch, then with the patch stashed)",
                             "PYTHONPATH=<wt>/src python -m pytest -q -p no:cacheprovider --timeout=900 tests (with patch)"]}
json.dump(meta, open(f"{out}/meta.json", "w"), indent=1)
PY
  echo "CONFIRMED -> $OUT"
else
  echo "NOT CONFIRMED"; tail -5 /var/tmp/$NAME.demo_with.log /var/tmp/$NAME.demo_without.log
fi
