import SedpackModel.Hash
import SedpackModel.Filler
