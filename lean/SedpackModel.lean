import SedpackModel.Hash
import SedpackModel.Filler
import SedpackModel.Pool
