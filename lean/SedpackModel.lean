import SedpackModel.Hash
import SedpackModel.Filler
import SedpackModel.Pool
import SedpackModel.Iter
import SedpackModel.Pipeline
import SedpackModel.Tree
import SedpackModel.Crash
import SedpackModel.Select
