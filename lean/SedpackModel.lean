import SedpackModel.Hash
