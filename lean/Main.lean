import SedpackDriver
open Lean Sedpack.Drv

/-- One JSON object per line in, one per line out.  Unknown or malformed input never defaults:
it produces `{"error": …}`. -/
def handle (line : String) : Json :=
  match Json.parse line with
  | .error e => Json.mkObj [("error", Json.str s!"bad-json: {e}")]
  | .ok j =>
    match getStr j "m" with
    | .error e => Json.mkObj [("error", Json.str s!"no model: {e}")]
    | .ok m =>
      match dispatch m j with
      | .ok r => r
      | .error e => Json.mkObj [("error", Json.str e)]

partial def loop (hin : IO.FS.Stream) (hout : IO.FS.Stream) : IO Unit := do
  let line ← hin.getLine
  if line.isEmpty then return ()
  hout.putStrLn (handle line).compress
  loop hin hout

def main : IO Unit := do
  let hin ← IO.getStdin
  let hout ← IO.getStdout
  loop hin hout
  hout.flush
