import SedpackProps.C16
