import SedpackProps.C10
import SedpackProps.C11
import SedpackProps.C16
import SedpackProps.C18
import SedpackProps.C13
