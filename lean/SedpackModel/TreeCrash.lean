import SedpackModel.Tree
/-!
# M-TREE with effects — the order in which a writing session replaces list documents

`Tree.lean` computes the *store* a session leaves behind.  Here the same functions additionally emit, in program order, every
`ShardsList.write_config` they perform (one atomic rename of a complete document over `d/shards_list.json`,
utils.py:93-134): the filler's list after every closed shard (`close_shard` with `write_updates`, dataset_filler.py:190-212) and once more on exit (`_update_infos`), then, split by split, the
documents `merge_shard_infos` rewrites — children inside the dictionary comprehension, the parent after them
(merge_shard_infos.py:98-117).  A *crash state* of the metadata is the store after any prefix of that sequence.
-/
namespace Sedpack.Tree

abbrev Install := Dir × SList

def applyInstalls (fs : FS) (ins : List Install) : FS := ins.foldl (fun f i => f.set i.1 i.2) fs

/-- the fold over the groups, threading the installs -/
def foldMergeE (M : FS → Dir → List Kid → (FS × Kid) × List Install) (d : Dir) :
    List (Nat × List Kid) → (FS × List Kid) × List Install → (FS × List Kid) × List Install
  | [], acc => acc
  | g :: gs, acc =>
    let m := M acc.1.1 (d ++ [g.1]) g.2
    foldMergeE M d gs ((m.1.1, acc.1.2 ++ [m.1.2]), acc.2 ++ m.2)

/-- `merge` together with the documents it installs, in order -/
def mergeE (H : SList → Nat) : (fuel : Nat) → FS → Dir → List Kid → (FS × Kid) × List Install
  | 0, fs, d, _ => ((fs, { dir := d, n := 0, shards := 0, hash := 0 }), [])
  | fuel+1, fs, d, updates =>
    let root : SList := (fs d).getD {}
    let deeper := updates.filter (fun u => u.dir.length > d.length) ++ root.kids
    let r := foldMergeE (mergeE H fuel) d (groupBy d.length deeper) ((fs, []), [])
    let doc : SList := { root with n := (root.n - sumN root.kids) + sumN r.1.2, kids := r.1.2 }
    (writeConfig H r.1.1 d doc, r.2 ++ [(d, doc)])

/-- the document `close_shard` builds in memory for directory `d` -/
def leafDoc (fs : FS) (d : Dir) (new : List Shard) : SList :=
  let l : SList := (fs d).getD {}
  { l with files := l.files ++ new, n := l.n + sumF new }

def applyWritesE : FS → Session → FS × List Install
  | fs, [] => (fs, [])
  | fs, w :: rest =>
    let r := applyWritesE (appendShards fs w.1 w.2) rest
    (r.1, (w.1, leafDoc fs w.1 w.2) :: r.2)

def mergeSplitsE (H : SList → Nat) (fuel : Nat) (dirs : List Dir) : List Nat → DS → DS × List Install
  | [], ds => (ds, [])
  | s :: ss, ds =>
    let m := mergeE H fuel ds.fs [s] (updatesOf dirs s)
    let r := mergeSplitsE H fuel dirs ss { fs := m.1.1, splits := fun x => if x = s then some m.1.2 else ds.splits x }
    (r.1, m.2 ++ r.2)

/-- keys of a `dict` filled in a loop: first-occurrence order, no repetitions -/
def dedupDirs : List Dir → List Dir
  | [] => []
  | a :: as => a :: (dedupDirs as).filter (· ≠ a)

/-- `DatasetFiller._update_infos`: every list the filler extended is written once more (now with its checksums computed),
in the order in which the lists were first used; the documents are the ones already on disk -/
def reinstalls (fs : FS) (dirs : List Dir) : List Install := (dedupDirs dirs).map (fun d => (d, (fs d).getD {}))

/-- the fillers of one writing call, one after the other (a multi-writer call with `single_process`; a plain filler session
is the case of one filler): with `write_updates` (the default) a filler rewrites its list after every closed shard — one
session entry per closed shard —, and once more on exit (`_update_infos`) -/
def fillersE : FS → List Session → FS × List Install
  | fs, [] => (fs, [])
  | fs, f :: rest =>
    let a := applyWritesE fs f
    let r := fillersE a.1 rest
    (r.1, a.2 ++ reinstalls a.1 (f.map (·.1)) ++ r.2)

/-- every list document a writing call installs, in program order (the description is installed after all of them): the
fillers, then the merges of `write_config` over all their updates -/
def multiSessionE (H : SList → Nat) (fuel : Nat) (ds : DS) (fillers : List Session) : DS × List Install :=
  let dirs := fillers.flatten.map (·.1)
  let a := fillersE ds.fs fillers
  let m := mergeSplitsE H fuel dirs (dedup (dirs.map (fun d => d.headD 0))) { ds with fs := a.1 }
  (m.1, a.2 ++ m.2)

def sessionE (H : SList → Nat) (fuel : Nat) (ds : DS) (se : Session) : DS × List Install := multiSessionE H fuel ds [se]

/-! ## Any schedule of concurrent writers

With worker *processes* the fillers of a multi-writer call run concurrently: what reaches the disk is some interleaving of their
effects.  A worker effect is a closed shard (its list is rewritten at once, `write_updates`) or a rewrite of a list as it
stands (`_update_infos`). -/

inductive WEff
  | close (d : Dir) (sh : Shard)
  | rewrite (d : Dir)
deriving DecidableEq, Repr

def closesOf : List WEff → Session
  | [] => []
  | .close d sh :: r => (d, [sh]) :: closesOf r
  | .rewrite _ :: r => closesOf r

def workersE : FS → List WEff → FS × List Install
  | fs, [] => (fs, [])
  | fs, .close d sh :: r =>
    let x := workersE (appendShards fs d [sh]) r
    (x.1, (d, leafDoc fs d [sh]) :: x.2)
  | fs, .rewrite d :: r =>
    let l : SList := (fs d).getD {}
    let x := workersE (fs.set d l) r
    (x.1, (d, l) :: x.2)

/-- a multi-writer call under an arbitrary schedule `ws` of its workers' effects, then the parent's merges -/
def concurrentCallE (H : SList → Nat) (fuel : Nat) (ds : DS) (ws : List WEff) : DS × List Install :=
  let dirs := (closesOf ws).map (·.1)
  let a := workersE ds.fs ws
  let m := mergeSplitsE H fuel dirs (dedup (dirs.map (fun d => d.headD 0))) { ds with fs := a.1 }
  (m.1, a.2 ++ m.2)

end Sedpack.Tree
