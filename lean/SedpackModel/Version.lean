/-!
# M-VER — the version gate of `DatasetBase._load` and dump-without-defaults / load-with-defaults
(src/sedpack/io/dataset_base.py:61-90, shard_file_metadata.py:162-167,178-200).

```python
if semver.Version.parse(dataset_info.metadata.sedpack_version).compare(sedpack.__version__) > 0:
    raise ValueError("Dataset-lib module is outdated …")
```
`semver` compares MAJOR.MINOR.PATCH numerically, component by component.
-/
namespace Sedpack.Ver

structure V where
  major : Nat
  minor : Nat
  patch : Nat
deriving DecidableEq, Repr

/-- `Version.compare`: -1, 0, 1 -/
def cmp (a b : V) : Int :=
  if a.major < b.major then -1 else if a.major > b.major then 1
  else if a.minor < b.minor then -1 else if a.minor > b.minor then 1
  else if a.patch < b.patch then -1 else if a.patch > b.patch then 1 else 0

/-- does a dataset recorded by `recorded` load under the library version `running`? -/
def loads (recorded running : V) : Bool := !(cmp recorded running > 0)

/-- `recorded` is a strictly newer version than `running` -/
def newer (recorded running : V) : Prop :=
  recorded.major > running.major ∨ (recorded.major = running.major ∧
    (recorded.minor > running.minor ∨ (recorded.minor = running.minor ∧ recorded.patch > running.patch)))

/-! ## `model_dump_json(exclude_defaults=True)` / `model_validate_json`

A document is a list of (field, value); `dflt f` is the schema default of field `f`. -/

/-- a field is written iff its value differs from the schema default -/
def dump (dflt : Nat → Nat) : List (Nat × Nat) → List (Nat × Nat)
  | [] => []
  | p :: ps => if p.2 = dflt p.1 then dump dflt ps else p :: dump dflt ps

def lookup : List (Nat × Nat) → Nat → Option Nat
  | [], _ => none
  | p :: ps, f => if p.1 = f then some p.2 else lookup ps f

/-- validation fills every absent field with the schema default -/
def load (dflt : Nat → Nat) (fields : List Nat) (json : List (Nat × Nat)) : List (Nat × Nat) :=
  fields.map (fun f => (f, (lookup json f).getD (dflt f)))

end Sedpack.Ver
