/-!
# M-WRITER — the three shard writers at the granularity of "what is buffered / on disk after a call"
(src/sedpack/io/shard/shard_writer_base.py:51-72, shard_writer_np.py:53-70, shard_writer_flatbuffer.py:62-99,
shard_writer_tfrec.py:60-88, tfrec/tfdata.py:106-168).

An example, as the caller hands it over, is one entry per *declared* attribute in declaration
order: `none` when the key is missing, otherwise a value of which the model only keeps whether its
shape is the declared one (`shapeOk`), whether the format's own encoder accepts it (`encOk`: the safe
cast of FlatBuffers, the feature construction of TFRecord) and a payload number standing for the
content.  `variable` marks the attributes `has_variable_size()` exempts from the shape check.
M-FILL treats a writer as an oracle that either takes an example or rejects it *without a trace*;
this file is where that atomicity is derived from the shape of the writers' code.
-/
namespace Sedpack.Writer

structure Val where
  shapeOk : Bool
  encOk : Bool
  payload : Nat
deriving DecidableEq, Repr

abbrev Ex := List (Option Val)
abbrev Attrs := List Bool          -- per declared attribute: has_variable_size()

inductive Out | ok | keyError (j : Nat) | shapeError (j : Nat) | encError (j : Nat)
deriving DecidableEq, Repr

/-- `ShardWriterBase.write`: the loop over the declared attributes that runs *before* `_write`:
`values[attribute.name]` (KeyError) and the shape comparison, skipping variable-size attributes -/
def baseCheck : Attrs → Ex → Nat → Option Out
  | [], _, _ => none
  | _ :: _, [], j => some (.keyError j)          -- (an example shorter than the declaration: all further keys missing)
  | isVar :: as, v :: vs, j =>
    if isVar then baseCheck as vs (j + 1)
    else match v with
      | none => some (.keyError j)
      | some x => if x.shapeOk then baseCheck as vs (j + 1) else some (.shapeError j)

def payloads (ex : Ex) : List Nat := ex.map (fun v => (v.map (·.payload)).getD 0)

/-! ### npz: `self._buffer: dict[str, list]`, one column per declared attribute -/

abbrev NpzSt := List (List Nat)      -- columns, in declaration order (a dict key not yet present = an empty column)

/-- first missing key among the declared attributes (`values[attribute.name]` in the dict comprehension) -/
def firstMissing : Ex → Nat → Option Nat
  | [], _ => none
  | none :: _, j => some j
  | some _ :: vs, j => firstMissing vs (j + 1)

/-- repaired `_write`: copy *all* declared attributes first, then append to every column -/
def npzWrite (cols : NpzSt) (ex : Ex) : NpzSt × Out :=
  match firstMissing ex 0 with
  | some j => (cols, .keyError j)
  | none => (List.zipWith (fun c p => c ++ [p]) cols (payloads ex), .ok)

/-- pinned `_write` (D5b): `for name, value in values.items(): self._buffer[name].append(copy)` over the
caller's keys, failing at the first problem *after* the earlier columns were extended -/
def npzWritePinned : NpzSt → Ex → Nat → NpzSt × Out
  | cols, [], _ => (cols, .ok)
  | [], _ :: _, _ => ([], .ok)
  | c :: cs, none :: _, j => (c :: cs, .keyError j)
  | c :: cs, some v :: vs, j =>
    let r := npzWritePinned cs vs (j + 1)
    ((c ++ [v.payload]) :: r.1, r.2)

/-- all columns as long as the first one (otherwise `value[i]` raises IndexError: the shard is undecodable) -/
def rect : NpzSt → Bool
  | [] => true
  | c :: cs => cs.all (fun x => x.length == c.length)

/-- rows a reader gets back: `elements = len(first column)`, row `i` = `value[i]` of every column -/
def rows : NpzSt → List (List Nat)
  | [] => []
  | c :: cs => (List.range c.length).map (fun i => (c :: cs).map (fun col => col.getD i 0))

def npzDecode (cols : NpzSt) : Option (List (List Nat)) := if rect cols then some (rows cols) else none

/-- the columns that hold the rows `acc` (each of width `k`) -/
def colsOf (k : Nat) (acc : List (List Nat)) : NpzSt := (List.range k).map (fun j => acc.map (fun row => row.getD j 0))

/-! ### FlatBuffers: the builder receives attribute vectors as they are built; an example is recorded
(`self._examples.append`) only after all of them were -/

structure FbSt where
  garbage : Nat                    -- attribute vectors left in the builder by rejected examples (unreferenced bytes)
  examples : List (List Nat)
deriving DecidableEq, Repr

def fbLoop : Ex → Nat → Nat × Option Out      -- (vectors written, error)
  | [], j => (j, none)
  | none :: _, j => (j, some (.keyError j))
  | some v :: vs, j => if v.encOk then fbLoop vs (j + 1) else (j, some (.encError j))

def fbWrite (s : FbSt) (ex : Ex) : FbSt × Out :=
  match fbLoop ex 0 with
  | (_, none) => ({ s with examples := s.examples ++ [payloads ex] }, .ok)
  | (k, some e) => ({ s with garbage := s.garbage + k }, e)

/-! ### TFRecord: the record is built completely (`to_tfrecord`) before the file is opened and written -/

structure TfSt where
  opened : Bool                    -- `self._tf_shard_writer` exists (the shard file exists on disk)
  records : List (List Nat)
deriving DecidableEq, Repr

/-- `to_tfrecord`: name checks, then per attribute shape check and feature construction -/
def tfBuild : Ex → Nat → Option Out
  | [], _ => none
  | none :: _, j => some (.keyError j)
  | some v :: vs, j => if ¬ v.shapeOk then some (.shapeError j) else if ¬ v.encOk then some (.encError j) else tfBuild vs (j + 1)

def tfWrite (s : TfSt) (ex : Ex) : TfSt × Out :=
  match firstMissing ex 0 with
  | some j => (s, .keyError j)
  | none =>
    match tfBuild ex 0 with
    | some e => (s, e)
    | none => ({ opened := true, records := s.records ++ [payloads ex] }, .ok)

/-- pinned `_write` (D4b): the writer (and with it the file) was created before `to_tfrecord` ran -/
def tfWritePinned (s : TfSt) (ex : Ex) : TfSt × Out :=
  match tfBuild ex 0 with
  | some e => ({ s with opened := true }, e)
  | none => ({ opened := true, records := s.records ++ [payloads ex] }, .ok)

/-! ### `write` = base check, then the format's `_write` -/

def write {S : Type} (w : S → Ex → S × Out) (attrs : Attrs) (s : S) (ex : Ex) : S × Out :=
  match baseCheck attrs ex 0 with
  | some e => (s, e)
  | none => w s ex

/-- a sequence of `write` calls; returns the final state and the outcomes -/
def runW {S : Type} (w : S → Ex → S × Out) (attrs : Attrs) : S → List Ex → S × List Out
  | s, [] => (s, [])
  | s, ex :: rest =>
    let r := write w attrs s ex
    let r' := runW w attrs r.1 rest
    (r'.1, r.2 :: r'.2)

/-- the payload rows of the examples a sequence of outcomes accepted -/
def accepted : List Ex → List Out → List (List Nat)
  | ex :: es, .ok :: os => payloads ex :: accepted es os
  | _ :: es, _ :: os => accepted es os
  | _, _ => []

end Sedpack.Writer
