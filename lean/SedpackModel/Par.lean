/-!
# M-PAR — components with private state, side by side

Several things of the same kind are in flight in one process at the same time — `hash_checksums` calls of different threads, shard
writers of unrelated datasets validating an example each, iterators with a state record each — and their steps interleave
arbitrarily.  The model: a list of component states, one deterministic partial step function that only ever looks at the state of
the component whose turn it is, and schedules as lists of `(component, label)`.
-/
namespace Sedpack.Par

/-- a component: a deterministic, partial step function on its own state -/
structure Comp (σ : Type) (lbl : Type) where
  step : σ → lbl → Option σ

variable {σ lbl : Type}

def runSolo (C : Comp σ lbl) : σ → List lbl → Option σ
  | s, [] => some s
  | s, l :: ls => (C.step s l).bind (fun s' => runSolo C s' ls)

/-- `n` components side by side, each with its own state; a schedule says whose step comes next.  No step reads or writes another
component's state. -/
def stepPar (C : Comp σ lbl) (cs : List σ) (x : Nat × lbl) : Option (List σ) :=
  match cs[x.1]? with
  | some c => (C.step c x.2).map (fun c' => cs.set x.1 c')
  | none => none

def runPar (C : Comp σ lbl) : List σ → List (Nat × lbl) → Option (List σ)
  | cs, [] => some cs
  | cs, x :: xs => (stepPar C cs x).bind (fun cs' => runPar C cs' xs)

/-- the steps of component `i` in a schedule, in order -/
def proj (sched : List (Nat × lbl)) (i : Nat) : List lbl := (sched.filter (fun x => x.1 == i)).map (·.2)

/-! ## instance: the validation phase of `ShardWriterBase.write` -/

/-- one `write` call in its validation phase: the fixed-size attributes still to be checked (does the value's shape match?),
whether everything checked so far matched, the verdict once reached (`some true` = handed to `_write`) -/
structure Val where
  todo : List Bool
  okSoFar : Bool := true
  verdict : Option Bool := none
deriving Repr, DecidableEq

inductive VLbl | check | decide
deriving Repr, DecidableEq

def valComp : Comp Val VLbl where
  step s l :=
    match l, s.verdict with
    | .check, none =>
      match s.todo with
      | b :: rest => some { s with todo := rest, okSoFar := s.okSoFar && b }
      | [] => none
    -- the verdict is reached when every attribute was checked — or at the first mismatch (the code raises right there)
    | .decide, none => if s.todo = [] ∨ s.okSoFar = false then some { s with verdict := some s.okSoFar } else none
    | _, _ => none


/-! ## Witness: one process-wide list of mismatches, cleared by every call on entry -/

structure SharedErrs where
  todo : List (List Bool)        -- per call: attributes still to check
  started : List Bool
  verdict : List (Option Bool)
  errs : Nat := 0                -- the shared list (its length)
deriving Repr, DecidableEq

inductive SLbl | enter (i : Nat) | check (i : Nat) | decide (i : Nat)
deriving Repr, DecidableEq

def stepS (s : SharedErrs) : SLbl → Option SharedErrs
  | .enter i => if s.started[i]? = some false then some { s with started := s.started.set i true, errs := 0 } else none
  | .check i =>
    match s.todo[i]? with
    | some (b :: rest) => some { s with todo := s.todo.set i rest, errs := s.errs + (if b then 0 else 1) }
    | _ => none
  | .decide i =>
    match s.todo[i]? with
    | some [] => some { s with verdict := s.verdict.set i (some (s.errs == 0)) }
    | _ => none

def runS : SharedErrs → List SLbl → Option SharedErrs
  | s, [] => some s
  | s, l :: ls => (stepS s l).bind (fun s' => runS s' ls)


end Sedpack.Par
