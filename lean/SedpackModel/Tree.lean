/-!
# M-TREE — shard-list tree: `ShardsList.load_or_create / write_config`, `merge_shard_infos`,
`DatasetWriting.write_config`, `_shard_info_iterator`, `check`
(src/sedpack/io/shard_file_metadata.py:148-200, merge_shard_infos.py:24-117,
dataset_writing.py:158-273, dataset_base.py:131-165).

A directory is the list of path components from the dataset root to the directory holding a
`shards_list.json` (`["train"]`, `["train","a","y"]`; components are numbers here, the first one
is the split).  The store maps a directory to the list document saved there.  A `Kid` is a
`ShardListInfo` (what a parent records about a child list), a `Shard` a `ShardInfo`.  `H` is the
digest of a list document, a parameter.
-/
namespace Sedpack.Tree

abbrev Dir := List Nat

structure Shard where
  file : Nat                -- file name inside the list's directory (a fresh uuid in the code)
  n : Nat                   -- recorded number_of_examples
  exs : List Nat := []      -- ghost: the examples actually stored in the file
  md : Nat := 0             -- custom metadata code
  hash : Nat := 0           -- recorded digest of the file
deriving DecidableEq, Repr

structure Kid where
  dir : Dir
  n : Nat
  shards : Nat
  hash : Nat
deriving DecidableEq, Repr

structure SList where
  n : Nat := 0
  files : List Shard := []
  kids : List Kid := []
deriving DecidableEq, Repr

abbrev FS := Dir → Option SList

def FS.set (fs : FS) (d : Dir) (l : SList) : FS := fun x => if x = d then some l else fs x

def sumN (ks : List Kid) : Nat := (ks.map (·.n)).sum
def sumS (ks : List Kid) : Nat := (ks.map (·.shards)).sum
def sumF (fs : List Shard) : Nat := (fs.map (·.n)).sum

/-- `ShardsList.write_config`: save the document, return its `ShardListInfo`
(`number_of_shards = len(shard_files) + sum(child.number_of_shards)`) -/
def writeConfig (H : SList → Nat) (fs : FS) (d : Dir) (l : SList) : FS × Kid :=
  (fs.set d l, { dir := d, n := l.n, shards := l.files.length + sumS l.kids, hash := H l })

/-- `defaultdict(list)` filled in a loop: keys in first-insertion order, values in insertion order -/
def insertGroup : List (Nat × List Kid) → Nat → Kid → List (Nat × List Kid)
  | [], key, u => [(key, [u])]
  | (k, us) :: rest, key, u =>
    if k = key then (k, us ++ [u]) :: rest else (k, us) :: insertGroup rest key u

def groupBy (depth : Nat) (us : List Kid) : List (Nat × List Kid) :=
  us.foldl (fun g u => insertGroup g (u.dir.getD depth 0) u) []

/-- `merge_shard_infos(updates, dataset_root, common = |d|, hashes)` with the repaired treatment of
several updates for the current level (they all name the file that was just loaded).

```python
root_shard_list = ShardsList.load_or_create(...)                       # the list at d, or an empty one
deeper_updates = [u for u in updates if len(parts) > common + 1]
for child in root_shard_list.children_shard_lists:
    root_shard_list.number_of_examples -= child.number_of_examples
    deeper_updates.append(child)
root_shard_list.children_shard_lists = []
recursively_update = defaultdict(list)                                  # by parts[common]
merged = {directory: merge_shard_infos(us, common + 1) for directory, us in recursively_update.items()}
for child in merged.values():
    root_shard_list.number_of_examples += child.number_of_examples
    root_shard_list.children_shard_lists.append(child)
return root_shard_list.write_config(...)
```
-/
def merge (H : SList → Nat) : (fuel : Nat) → FS → Dir → List Kid → FS × Kid
  | 0, fs, d, _ => (fs, { dir := d, n := 0, shards := 0, hash := 0 })
  | fuel+1, fs, d, updates =>
    let root : SList := (fs d).getD {}
    let deeper := updates.filter (fun u => u.dir.length > d.length) ++ root.kids
    let base := root.n - sumN root.kids
    let r := (groupBy d.length deeper).foldl
      (fun (acc : FS × List Kid) g =>
        let m := merge H fuel acc.1 (d ++ [g.1]) g.2
        (m.1, acc.2 ++ [m.2])) (fs, [])
    writeConfig H r.1 d { root with n := base + sumN r.2, kids := r.2 }

/-- `_DatasetFillerContext.close_shard` for all shards a session closes in directory `d`:
the list is loaded (or created) once and extended (`shard_files.append`, `number_of_examples +=`) -/
def appendShards (fs : FS) (d : Dir) (new : List Shard) : FS :=
  let l : SList := (fs d).getD {}
  fs.set d { l with files := l.files ++ new, n := l.n + sumF new }

/-- `_shard_info_iterator`: own shard files in list order, then children depth-first -/
def shardsOf : (fuel : Nat) → FS → Dir → List Shard
  | 0, _, _ => []
  | fuel+1, fs, d =>
    match fs d with
    | none => []
    | some l => l.files ++ l.kids.flatMap (fun c => shardsOf fuel fs c.dir)

end Sedpack.Tree

namespace Sedpack.Tree

/-- the dataset: the store of list documents plus the split table of `dataset_info.json` -/
structure DS where
  fs : FS
  splits : Nat → Option Kid

/-- one completed writing session (a filler context, or one multi-writer call): for every
directory it wrote into, the shards it closed there, in closing order.  The first component of a
directory is the split. -/
abbrev Session := List (Dir × List Shard)

def applyWrites (fs : FS) (se : Session) : FS := se.foldl (fun fs w => appendShards fs w.1 w.2) fs

/-- the `ShardListInfo`s a filler hands to `write_config` (only their paths matter to the merge) -/
def updatesOf (dirs : List Dir) (s : Nat) : List Kid :=
  (dirs.filter (fun d => d.headD 0 = s)).map (fun d => { dir := d, n := 0, shards := 0, hash := 0 })

/-- `DatasetWriting.write_config`: for every split named by an update (first-occurrence order),
merge that split's updates and store the returned info in the split table -/
def mergeSplits (H : SList → Nat) (fuel : Nat) (dirs : List Dir) : List Nat → DS → DS
  | [], ds => ds
  | s :: ss, ds =>
    let m := merge H fuel ds.fs [s] (updatesOf dirs s)
    mergeSplits H fuel dirs ss { fs := m.1, splits := fun x => if x = s then some m.2 else ds.splits x }

/-- keys of a `defaultdict` filled in a loop: first-occurrence order, no repetitions -/
def dedup : List Nat → List Nat
  | [] => []
  | a :: as => a :: (dedup as).filter (· ≠ a)

def session (H : SList → Nat) (fuel : Nat) (ds : DS) (se : Session) : DS :=
  let dirs := se.map (·.1)
  mergeSplits H fuel dirs (dedup (dirs.map (fun d => d.headD 0))) { ds with fs := applyWrites ds.fs se }

/-- `Dataset.create`: refused when a description already exists, and then nothing is changed -/
def create (exists_ : Bool) (ds : DS) : Option DS × DS :=
  if exists_ then (none, ds) else (some { fs := ds.fs, splits := fun _ => none }, { fs := ds.fs, splits := fun _ => none })

end Sedpack.Tree

namespace Sedpack.Tree

/-! ## `Dataset.check` (dataset_writing.py:201-273)

Pass 1 (`_check_shard_list_info`) verifies every shard-list file against the digest recorded by
its parent *before* parsing it, then recurses into the children named by the parsed document.
Pass 2 verifies every shard file returned by `shard_info_iterator`.  A missing file raises.
`files` maps a (directory, file name) to the content of that shard file, `Hf` is its digest. -/

abbrev Files := Dir → Nat → Option Nat      -- content of the shard file `name` in directory `dir`

def checkLists (H : SList → Nat) : (fuel : Nat) → FS → Kid → Bool
  | 0, _, _ => false
  | fuel+1, fs, k =>
    match fs k.dir with
    | none => false                                  -- FileNotFoundError
    | some l => H l == k.hash && l.kids.all (fun c => checkLists H fuel fs c)

def checkShards (Hf : Nat → Nat) : (fuel : Nat) → FS → Files → Dir → Bool
  | 0, _, _, _ => false
  | fuel+1, fs, files, d =>
    match fs d with
    | none => false
    | some l =>
      l.files.all (fun s => match files d s.file with
        | none => false
        | some c => Hf c == s.hash) &&
      l.kids.all (fun c => checkShards Hf fuel fs files c.dir)

/-- `Dataset.check` for the splits `ss` of the description `splits` -/
def check (H : SList → Nat) (Hf : Nat → Nat) (fuel : Nat) (fs : FS) (files : Files) (infos : List Kid) : Bool :=
  infos.all (fun k => checkLists H fuel fs k) && infos.all (fun k => checkShards Hf fuel fs files k.dir)

end Sedpack.Tree
