/-!
# M-PATH — `PurePosixPath` parsing / joining and sedpack's path validators
(src/sedpack/io/file_info.py:36-54, shard_file_metadata.py:72-90,123-146,
dataset_filler.py:77-83; joins at dataset_base.py:135-137, dataset_iteration.py:119-122,
dataset_writing.py:205-218,265-268).

A POSIX path string parses to `(absolute?, components)`: split at `/`, drop empty components and
`.`; it is absolute iff it starts with `/`.  `PurePosixPath.parts` is the components, preceded by
the root when absolute — so `".." in parts` iff `".."` is a component.  `a / b` is `b` when `b` is
absolute and the concatenation otherwise.
-/
namespace Sedpack.Path

structure P where
  abs : Bool
  comps : List String
deriving DecidableEq, Repr

def parse (s : String) : P :=
  { abs := s.startsWith "/",
    comps := (s.splitOn "/").filter (fun c => c ≠ "" ∧ c ≠ ".") }

/-- `a / b` -/
def join (a b : P) : P := if b.abs then b else { abs := a.abs, comps := a.comps ++ b.comps }

/-- `PurePosixPath.name`: the last component ("" when there is none) -/
def name (p : P) : String := p.comps.getLast?.getD ""

/-- lexical normalisation (what the file system does with `..` in the absence of symlinks) -/
def normComps : List String → List String → List String
  | acc, [] => acc.reverse
  | acc, c :: cs => if c = ".." then normComps acc.tail cs else normComps (c :: acc) cs

def normalize (p : P) : List String := normComps [] p.comps

/-- is `q` (an absolute, normalised location) inside the directory `root`? -/
def under (root q : List String) : Bool := root.isPrefixOf q

structure Cfg where
  rejectAbsolute : Bool       -- the repaired validators also reject absolute paths

/-- `FileInfo.no_directory_traversal` -/
def acceptsFileInfo (c : Cfg) (p : P) : Bool := !(p.comps.contains "..") && !(c.rejectAbsolute && p.abs)

/-- `ShardsList.check_is_shards_list` / `ShardListInfo.check_is_shards_list` -/
def acceptsListPath (c : Cfg) (p : P) : Bool := name p == "shards_list.json" && acceptsFileInfo c p

/-- `_DatasetFillerContext.__init__` guard on `relative_path_from_split` -/
def acceptsSubdir (c : Cfg) (p : P) : Bool := acceptsFileInfo c p

end Sedpack.Path
