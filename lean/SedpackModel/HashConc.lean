/-!
# M-HASH-CONC — several `hash_checksums` calls of one process in flight at the same time

`hash_checksums` (src/sedpack/io/utils.py:63-90) allocates its read buffer and its hash objects per call.  Threads that close shards
or check datasets at overlapping times interleave their `readinto` / `update` steps arbitrarily (both release the GIL).  The model:
each call reads its file chunk by chunk into *its* buffer and feeds *its* hash object; a schedule is any list of `read i` / `feed i`
labels.  Two variants model what a shared buffer or a shared hash state would do.
-/
namespace Sedpack.HashConc

abbrev Chunk := List Nat

/-- one `hash_checksums` call in flight: the chunks its file still holds, what its read buffer holds and has not been fed yet,
everything fed to its hash object so far -/
structure Call where
  todo : List Chunk
  buf  : Option Chunk := none
  acc  : List Nat := []
deriving Repr, DecidableEq

inductive Lbl
  | read (i : Nat)     -- call i: `readinto(buffer)` returned the next chunk
  | feed (i : Nat)     -- call i: `hash.update(buffer[:n])`
deriving Repr, DecidableEq

def Call.content (c : Call) : List Nat := c.acc ++ (c.buf.getD []) ++ c.todo.flatten
def Call.finished (c : Call) : Prop := c.todo = [] ∧ c.buf = none

/-- every call has its own buffer and its own hash object (the code as it is) -/
def stepP (cs : List Call) : Lbl → Option (List Call)
  | .read i =>
    match cs[i]? with
    | some c =>
      match c.buf, c.todo with
      | none, ch :: rest => some (cs.set i { c with todo := rest, buf := some ch })
      | _, _ => none
    | none => none
  | .feed i =>
    match cs[i]? with
    | some c =>
      match c.buf with
      | some ch => some (cs.set i { c with buf := none, acc := c.acc ++ ch })
      | none => none
    | none => none

def runP : List Call → List Lbl → Option (List Call)
  | cs, [] => some cs
  | cs, l :: ls => (stepP cs l).bind (fun cs' => runP cs' ls)

def start (files : List (List Chunk)) : List Call := files.map (fun f => { todo := f })

/-! ## the two sharings that a process-wide "optimisation" introduces -/

/-- ONE read buffer for all calls (a module- or class-level `memoryview`): `read i` overwrites it, `feed i` feeds whatever it holds now -/
structure SharedBuf where
  calls : List Call          -- (`buf` of a call is only a flag here: some [] = "has read, not fed yet")
  buffer : Chunk := []
deriving Repr, DecidableEq

def stepB (s : SharedBuf) : Lbl → Option SharedBuf
  | .read i =>
    match s.calls[i]? with
    | some c =>
      match c.buf, c.todo with
      | none, ch :: rest => some { calls := s.calls.set i { c with todo := rest, buf := some [] }, buffer := ch }
      | _, _ => none
    | none => none
  | .feed i =>
    match s.calls[i]? with
    | some c =>
      match c.buf with
      | some _ => some { s with calls := s.calls.set i { c with buf := none, acc := c.acc ++ s.buffer } }
      | none => none
    | none => none

def runB : SharedBuf → List Lbl → Option SharedBuf
  | s, [] => some s
  | s, l :: ls => (stepB s l).bind (fun s' => runB s' ls)

/-- ONE hash object per algorithm for all calls (reset when a call starts): every `feed` lands in the same accumulator -/
structure SharedHash where
  calls : List Call
  state : List Nat := []
deriving Repr, DecidableEq

def stepH (s : SharedHash) : Lbl → Option SharedHash
  | .read i =>
    match s.calls[i]? with
    | some c =>
      match c.buf, c.todo with
      | none, ch :: rest => some { s with calls := s.calls.set i { c with todo := rest, buf := some ch } }
      | _, _ => none
    | none => none
  | .feed i =>
    match s.calls[i]? with
    | some c =>
      match c.buf with
      | some ch => some { calls := s.calls.set i { c with buf := none }, state := s.state ++ ch }
      | none => none
    | none => none

def runH : SharedHash → List Lbl → Option SharedHash
  | s, [] => some s
  | s, l :: ls => (stepH s l).bind (fun s' => runH s' ls)

end Sedpack.HashConc
