/-!
# M-ITER — `shuffle_buffer[_async]`, `round_robin[_async]`, the `islice` batching of the
unshuffled concurrent path, `itertools.cycle` (src/sedpack/io/itertools/itertools.py:54-223,
src/sedpack/io/dataset_iteration.py:464-475,576-592).

Both generators are modelled as *monitors*: labelled transition systems whose labels are what can
be observed at the generator's boundary — an element pulled from its source (`pull`), an element
handed to its consumer (`yield`) — and whose nondeterminism covers every value the random state
may take (`i = r % len(buffer)`: any buffer position; `random.shuffle`: any order).  Elements carry
unique identifiers (`Nat`).  The sync and async versions are the same algorithm line for line and
share the model.
-/
namespace Sedpack.Iter

/-! ## shuffle buffer

```python
buffer = []
for _, item in zip(range(buffer_size), iterable): buffer.append(item)   # pulls min(b, len) elements
r = initial_random_state()
while True:
    try: new_element = next(iterable)
    except StopIteration: break
    i = r % len(buffer)            # fails when the buffer is empty (buffer_size = 0)
    yield buffer[i]
    buffer[i] = new_element
    r = next_random_state(r)
random.shuffle(buffer)
yield from buffer
```
-/

inductive SBPhase | fill | main | flush | done | failed
deriving DecidableEq, Repr

structure SB where
  b : Nat
  buf : List Nat := []
  pend : Option Nat := none      -- `new_element` pulled but not yet stored
  phase : SBPhase := .fill
  pulled : List Nat := []        -- ghost: everything pulled from the source, in order
  out : List Nat := []           -- ghost: everything yielded, in order
deriving Repr

inductive SBLbl
  | pull (x : Option Nat)        -- `next(iterable)`: an element or StopIteration
  | yield (x : Nat)
  | finish                       -- the generator returns
deriving DecidableEq, Repr

def SB.init (b : Nat) : SB := { b := b, phase := if b = 0 then .main else .fill }

/-- replace the first occurrence of `x` by `y` (`buffer[i] = new_element` where `buffer[i] = x`) -/
def replaceFirst (x y : Nat) : List Nat → List Nat
  | [] => []
  | a :: as => if a = x then y :: as else a :: replaceFirst x y as

def SB.step (s : SB) : SBLbl → Option SB
  | .pull (some x) =>
    match s.phase with
    | .fill => some { s with buf := s.buf ++ [x], pulled := s.pulled ++ [x],
                             phase := if s.buf.length + 1 ≥ s.b then .main else .fill }
    | .main =>
      if s.pend.isSome then none
      else if s.buf = [] then some { s with phase := .failed }   -- `r % 0` raises (buffer_size = 0)
      else some { s with pend := some x, pulled := s.pulled ++ [x] }
    | _ => none
  | .pull none =>
    match s.phase with
    | .fill => some { s with phase := .flush }
    | .main => if s.pend.isSome then none else some { s with phase := .flush }
    | .flush => some s              -- an exhausted source may be asked again
    | _ => none
  | .yield x =>
    match s.phase, s.pend with
    | .main, some y => if x ∈ s.buf then some { s with buf := replaceFirst x y s.buf, pend := none, out := s.out ++ [x] } else none
    | .flush, none => if x ∈ s.buf then some { s with buf := s.buf.erase x, out := s.out ++ [x] } else none
    | _, _ => none
  | .finish => if s.phase = .flush ∧ s.buf = [] then some { s with phase := .done } else none

def SB.accepts : SB → List SBLbl → Option SB
  | s, [] => some s
  | s, l :: ls => (SB.step s l).bind (fun s' => SB.accepts s' ls)

/-! ## round robin

```python
buffer = []
for _, i in zip(range(buffer_size), iterables): buffer.append(iter(i))
r = initial_random_state()
while buffer:
    pos = r % len(buffer); r = next_random_state(r)
    try: yield next(buffer[pos])
    except StopIteration:
        try: buffer[pos] = iter(next(iterables))
        except StopIteration:
            buffer[pos] = buffer[-1]; del buffer[-1]
```
An inner iterable is identified by its index in the outer stream and carries its remaining elements.
-/

structure RR where
  b : Nat
  open_ : List (Nat × List Nat) := []   -- inner iterators in the buffer: (id, remaining elements)
  filling : Bool := true                 -- still in the initial fill loop
  refill : Bool := false                 -- an inner iterator just ended: `next(iterables)` comes next
  outerDone : Bool := false              -- the outer stream has raised StopIteration
  opened : Nat := 0                      -- ghost: inner iterables taken from the outer stream
  closed : Nat := 0                      -- ghost: inner iterators dropped after exhaustion
  pulledAll : List Nat := []             -- ghost: the elements of all opened inner iterables
  out : List Nat := []
  finished : Bool := false
deriving Repr

inductive RRLbl
  | openInner (id : Nat) (elems : List Nat)   -- `next(iterables)` returned a new inner iterable
  | outerEnd                                  -- `next(iterables)` raised StopIteration
  | yield (id : Nat) (x : Nat)                -- `next(buffer[pos])` returned x (pos holds inner `id`)
  | innerEnd (id : Nat)                       -- `next(buffer[pos])` raised StopIteration
  | finish
deriving DecidableEq, Repr

def RR.init (b : Nat) : RR := { b := b, filling := decide (0 < b) }

def RR.step (s : RR) : RRLbl → Option RR
  | .openInner id es =>
    if s.finished ∨ id ≠ s.opened then none      -- inner iterables are numbered in the order they are opened
    else if s.filling then
      -- `for _, i in zip(range(buffer_size), iterables)`: stops asking once `b` are open
      some { s with open_ := s.open_ ++ [(id, es)], opened := s.opened + 1, pulledAll := s.pulledAll ++ es,
                    filling := decide (s.open_.length + 1 < s.b) }
    else if s.refill then
      some { s with open_ := s.open_ ++ [(id, es)], opened := s.opened + 1, pulledAll := s.pulledAll ++ es,
                    refill := false }
    else none
  | .outerEnd =>
    if s.finished then none
    else if s.filling then some { s with filling := false, outerDone := true }
    else if s.refill then some { s with refill := false, outerDone := true }
    else none
  | .yield id x =>
    if s.finished ∨ s.filling ∨ s.refill then none else
    match s.open_.find? (·.1 = id) with
    | some (_, y :: rest) =>
      if x = y then some { s with open_ := s.open_.map (fun p => if p.1 = id then (id, rest) else p), out := s.out ++ [x] }
      else none
    | _ => none
  | .innerEnd id =>
    if s.finished ∨ s.filling ∨ s.refill then none else
    match s.open_.find? (·.1 = id) with
    | some (_, []) => some { s with open_ := s.open_.filter (·.1 ≠ id), closed := s.closed + 1, refill := true }
    | _ => none
  | .finish =>
    if ¬ s.filling ∧ ¬ s.refill ∧ s.open_ = [] ∧ ¬ s.finished then some { s with finished := true } else none

def RR.accepts : RR → List RRLbl → Option RR
  | s, [] => some s
  | s, l :: ls => (RR.step s l).bind (fun s' => RR.accepts s' ls)

/-! ## batching of the unshuffled concurrent path

```python
batch = list(itertools.islice(shard_paths_iterator, file_parallelism))
while batch:
    yield from itertools.chain.from_iterable(executor.map(process_and_list, batch))
    batch = list(itertools.islice(shard_paths_iterator, file_parallelism))
```
-/
def batches (T : Nat) : (fuel : Nat) → List α → List (List α)
  | 0, _ => []
  | fuel+1, xs =>
    let batch := xs.take T
    if batch = [] then [] else batch :: batches T fuel (xs.drop T)

/-- `itertools.cycle(xs)` as an index-addressed stream -/
def cycle (xs : List α) (k : Nat) : Option α := if xs.length = 0 then none else xs[k % xs.length]?

end Sedpack.Iter
