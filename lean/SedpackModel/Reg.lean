/-!
# M-REG — the keyed registry of native iterators (rust/src/lib.rs:60-153)

Every Python `RustIter` handle registers its native state in a process-wide map under a key, looks the key up on every `__next__`
and removes it on `__exit__`.  `HashMap::insert` replaces silently.  The model keeps, per handle, what it was created over and what
it has been handed, so that "handle h reads its own data" can be stated.
-/
namespace Sedpack.Reg

/-- the registry of live native iterators: key ↦ what that iterator still has to deliver -/
abbrev Store := Nat → Option (List Nat)
def Store.set (r : Store) (k : Nat) (v : Option (List Nat)) : Store := fun j => if j = k then v else r j

/-- client-side events: handle `h` is a Python `RustIter` object -/
inductive Lbl
  | new (h k : Nat) (items : List Nat)   -- `RustIter::new`: the state is registered under key k (`HashMap::insert`: whatever was there is dropped)
  | next (h : Nat)                       -- `__next__`: looks its key up in the registry
  | exit (h : Nat)                       -- `__exit__`: removes its key from the registry
deriving Repr, DecidableEq

structure St where
  reg : Store := fun _ => none
  key : Nat → Option Nat := fun _ => none        -- the key a live handle holds
  items : Nat → List Nat := fun _ => []          -- what a handle was created over
  got : Nat → List Nat := fun _ => []            -- what it has been handed so far

def step (s : St) : Lbl → Option St
  | .new h k its =>
    some { reg := s.reg.set k (some its), key := fun j => if j = h then some k else s.key j,
           items := fun j => if j = h then its else s.items j, got := fun j => if j = h then [] else s.got j }
  | .next h =>
    match s.key h with
    | none => none
    | some k =>
      match s.reg k with
      | some (x :: r) => some { s with reg := s.reg.set k (some r), got := fun j => if j = h then s.got h ++ [x] else s.got j }
      | some [] => some s
      | none => none            -- "The static_index was not found among the STATIC_ITERATORS": panic
  | .exit h =>
    match s.key h with
    | none => none
    | some k => some { s with reg := s.reg.set k none, key := fun j => if j = h then none else s.key j }

def run : St → List Lbl → Option St
  | s, [] => some s
  | s, l :: ls => (step s l).bind (fun s' => run s' ls)

/-- every `new` is by a new handle and uses a key that is not in the registry at that moment (what a random 64-bit key gives, up to
collisions) -/
def Fresh : St → List Lbl → Prop
  | _, [] => True
  | s, l :: ls =>
    (match l with | .new h k _ => s.reg k = none ∧ s.key h = none ∧ s.got h = [] ∧ s.items h = [] | _ => True) ∧
    (match step s l with | some s' => Fresh s' ls | none => True)

end Sedpack.Reg
