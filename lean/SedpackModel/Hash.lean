/-!
# M-HASH — `sedpack.io.utils.hash_checksums` (src/sedpack/io/utils.py:63-90)

```python
hash_functions = tuple(_get_hash_function(hash_name) for hash_name in hashes)
memory_view = memoryview(bytearray(128 * 1024))
with open(file_path, "rb", buffering=0) as hashed_file:
    for i in iter(lambda: hashed_file.readinto(memory_view), 0):
        for hash_function in hash_functions:
            hash_function.update(memory_view[:i])
return tuple(hash_function.hexdigest() for hash_function in hash_functions)
```

The model is parametric in the buffer size `B` (128 KiB in the code, measured on the run) and in
the *short-read pattern* of the operating system: the `k`-th `readinto` call asks the oracle
`want k` how many bytes it would like to deliver; the OS delivers at least one byte and at most
`B` bytes while data remain, and `0` exactly at end of file.
-/
namespace Sedpack.Hash

abbrev Byte := Nat

/-- Number of bytes the `k`-th `readinto` returns at position `pos`. -/
def readinto (B : Nat) (len pos want : Nat) : Nat :=
  min (min (max 1 want) B) (len - pos)

/-- The `for i in iter(readinto, 0)` loop: returns the list of slices `memory_view[:i]` that were
fed to *every* hash object, in order.  `fuel` bounds the number of iterations. -/
def chunks (B : Nat) (content : List Byte) (want : Nat → Nat) : (fuel k pos : Nat) → List (List Byte)
  | 0, _, _ => []
  | fuel+1, k, pos =>
    let i := readinto B content.length pos (want k)
    if i = 0 then []                        -- sentinel 0 ends `iter(callable, 0)`
    else (content.drop pos).take i :: chunks B content want fuel (k+1) (pos + i)

/-- A streaming hash object: `update` folds chunks into a state, `hexdigest` reads it out. -/
structure Algo (σ : Type) where
  init : σ
  update : σ → List Byte → σ
  hexdigest : σ → String

/-- One hash object fed with the chunk list. -/
def feed {σ} (a : Algo σ) (cs : List (List Byte)) : σ := cs.foldl a.update a.init

/-- `hash_checksums`: the tuple of digests, one per configured name, in the configured order. -/
def hashChecksums {σ} (algo : String → Algo σ) (names : List String) (B : Nat) (content : List Byte)
    (want : Nat → Nat) : List String :=
  let cs := chunks B content want (content.length + 1) 0 0
  -- two comprehensions over the same tuple `hashes`
  let hfs := names.map algo
  hfs.map (fun a => a.hexdigest (feed a cs))

/-- The standard digest: the algorithm applied to the whole content in one `update`. -/
def standard {σ} (a : Algo σ) (content : List Byte) : String := a.hexdigest (a.update a.init content)

end Sedpack.Hash
