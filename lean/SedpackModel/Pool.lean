/-!
# M-POOL — `LazyPool.imap_unordered`, `Collector.run`, `finish_and_reset`
(src/sedpack/io/itertools/lazy_pool.py:75-163,198-219) at queue-operation granularity.

One label = one operation on one of the two `queue.Queue`s (or the consumer's decision to
finish / abandon), so an interleaving of the `T` worker threads and the consumer is exactly a list
of labels.  `queue.Queue` is an unbounded FIFO whose `get` blocks while the queue is empty: a `get`
label is simply not enabled then.

Parameters (`Cfg`): `T` worker threads; `P` the number of inputs put before the first result is
awaited (`2T+2` in the code — measured on the run; the theorems need only `T ≤ P`); `n` the
length of the input (`none` = infinite, the `repeat=True` case); `fails i` whether the mapped
function raises on input `i`; `forward` whether a worker forwards that exception to the consumer
(the repaired code) or dies with it (the pinned code).

Messages carry the *index* of the input they stem from, so that "exactly once" is a statement
about indices; the real values are `func(input i)`.
-/
namespace Sedpack.Pool

inductive Msg | item (i : Nat) | stop
deriving DecidableEq, Repr
inductive Res | val (i : Nat) | err (i : Nat) | stop
deriving DecidableEq, Repr
/-- a `Collector` thread: about to `get`, holding an element (about to `put`), returned, or killed
by an exception of the mapped function (pinned code only) -/
inductive W | idle | hold (m : Msg) | stopped | dead
deriving DecidableEq, Repr
/-- consumer (`imap_unordered` generator + `finish_and_reset`).
`why`: 0 = normal end, 1 = re-raised a forwarded failure, 2 = abandoned by its caller -/
inductive Ph | prefill | waiting | got (i : Nat) | resetting (k why : Nat) | fin (why : Nat)
deriving DecidableEq, Repr

structure Cfg where
  T : Nat
  P : Nat
  n : Option Nat
  fails : Nat → Bool
  forward : Bool

structure St where
  toProc : List Msg        -- `self._to_process`
  results : List Res       -- `self._results`
  ws : List W
  ph : Ph
  p : Nat                  -- elements of `iterator_with_stops` consumed (= puts of chain elements)
  q : Nat                  -- ghost: number of `get`s the workers have done
  active : Nat             -- `self._active_threads`
  out : List Nat           -- indices yielded so far
deriving Repr

/-- `itertools.chain(iterable, itertools.cycle([StopSentinel()]))` -/
def chain (c : Cfg) (k : Nat) : Msg :=
  match c.n with
  | none => .item k
  | some n => if k < n then .item k else .stop

def init (c : Cfg) : St :=
  { toProc := [], results := [], ws := List.replicate c.T .idle, ph := .prefill,
    p := 0, q := 0, active := c.T, out := [] }

inductive Lbl
  | cPut | cGet | cPutNext | cFinish | cAbandon | cReset
  | wGet (w : Nat) | wPut (w : Nat)
deriving DecidableEq, Repr

def step (c : Cfg) (s : St) : Lbl → Option St
  | .cPut =>            -- prefill loop body: `self._to_process.put(element)`; leave after P puts
    if s.ph = .prefill then
      some { s with toProc := s.toProc ++ [chain c s.p], p := s.p + 1,
                    ph := if s.p + 1 ≥ c.P then .waiting else .prefill }
    else none
  | .cGet =>            -- `next_result = self._results.get()` under `while self._active_threads > 0`
    if s.ph = .waiting ∧ s.active > 0 then
      match s.results with
      | [] => none                                  -- blocked
      | .stop :: rs => some { s with results := rs, active := s.active - 1 }
      | .val i :: rs => some { s with results := rs, ph := .got i }
      | .err _ :: rs => some { s with results := rs, ph := .resetting 0 1 }
    else none
  | .cPutNext =>        -- `self._to_process.put(next(iterator_with_stops)); yield next_result`
    match s.ph with
    | .got i => some { s with toProc := s.toProc ++ [chain c s.p], p := s.p + 1,
                              out := s.out ++ [i], ph := .waiting }
    | _ => none
  | .cFinish => if s.ph = .waiting ∧ s.active = 0 then some { s with ph := .resetting 0 0 } else none
  | .cAbandon => if s.ph = .waiting then some { s with ph := .resetting 0 2 } else none
  | .cReset =>          -- `finish_and_reset`: one sentinel per worker, then forget the queues
    match s.ph with
    | .resetting k why =>
      if k < c.T then some { s with toProc := s.toProc ++ [.stop], ph := .resetting (k+1) why }
      else some { s with ph := .fin why, active := 0 }
    | _ => none
  | .wGet w =>          -- `element = self._to_process.get()`
    match s.ws[w]?, s.toProc with
    | some .idle, m :: rest => some { s with toProc := rest, ws := s.ws.set w (.hold m), q := s.q + 1 }
    | _, _ => none
  | .wPut w =>          -- forward the sentinel and return / put `func(element)`
    match s.ws[w]? with
    | some (.hold .stop) => some { s with results := s.results ++ [.stop], ws := s.ws.set w .stopped }
    | some (.hold (.item i)) =>
      if c.fails i then
        if c.forward then some { s with results := s.results ++ [.err i], ws := s.ws.set w .idle }
        else some { s with ws := s.ws.set w .dead }
      else some { s with results := s.results ++ [.val i], ws := s.ws.set w .idle }
    | _ => none

inductive Reach (c : Cfg) : St → Prop
  | init : Reach c (init c)
  | step {s s' l} : Reach c s → step c s l = some s' → Reach c s'

/-- replay a label list (the trace observed on the real pool) -/
def accepts (c : Cfg) : St → List Lbl → Option St
  | s, [] => some s
  | s, l :: ls => (step c s l).bind (fun s' => accepts c s' ls)

/-- index of the first label the model refuses (for diagnostics) -/
def firstRefused (c : Cfg) : St → List Lbl → Nat → Option Nat
  | _, [], _ => none
  | s, l :: ls, k => match step c s l with
    | none => some k
    | some s' => firstRefused c s' ls (k+1)

/-- every label enabled in `s` (workers range over `0..T-1`) -/
def enabled (c : Cfg) (s : St) : List Lbl :=
  ([Lbl.cPut, .cGet, .cPutNext, .cFinish, .cAbandon, .cReset] ++
    (List.range c.T).flatMap (fun w => [Lbl.wGet w, Lbl.wPut w])).filter (fun l => (step c s l).isSome)

/-- the pass is over and every thread has returned -/
def terminal (s : St) : Prop := (∃ why, s.ph = .fin why) ∧ ∀ w ∈ s.ws, w = .stopped

end Sedpack.Pool

namespace Sedpack.Pool

/-! ## Re-using the pool object

`finish_and_reset` forgets both queues (`self._to_process = None`, `self._results = None`) and the
next `imap_unordered` creates fresh queues and fresh `Collector` threads, while threads of earlier
passes may still be draining *their* queues.  A pool object over its life time is therefore a list
of independent passes: the current one, on which consumer and workers act, and earlier ones, on
which only their own workers still act.  Pass `g` runs with configuration `cs g` (its own input
and mapped function; the thread count is the pool's). -/
structure Multi where
  past : List St
  cur : St
deriving Repr

inductive MLbl | cur (l : Lbl) | old (g : Nat) (l : Lbl) | newPass
deriving DecidableEq, Repr

def isWorker : Lbl → Bool
  | .wGet _ => true | .wPut _ => true | _ => false

def minit (cs : Nat → Cfg) : Multi := { past := [], cur := init (cs 0) }

def mstep (cs : Nat → Cfg) (m : Multi) : MLbl → Option Multi
  | .cur l => (step (cs m.past.length) m.cur l).map (fun s => { m with cur := s })
  | .old g l =>
    match m.past[g]? with
    | some s => if isWorker l then (step (cs g) s l).map (fun s' => { m with past := m.past.set g s' }) else none
    | none => none
  | .newPass =>          -- `imap_unordered` asserts `_active_threads <= 0` and both queues forgotten
    match m.cur.ph with
    | .fin _ => some { past := m.past ++ [m.cur], cur := init (cs (m.past.length + 1)) }
    | _ => none

inductive MReach (cs : Nat → Cfg) : Multi → Prop
  | init : MReach cs (minit cs)
  | step {m m' l} : MReach cs m → mstep cs m l = some m' → MReach cs m'

def maccepts (cs : Nat → Cfg) : Multi → List MLbl → Option Multi
  | m, [] => some m
  | m, l :: ls => (mstep cs m l).bind (fun m' => maccepts cs m' ls)

def mfirstRefused (cs : Nat → Cfg) : Multi → List MLbl → Nat → Option Nat
  | _, [], _ => none
  | m, l :: ls, k => match mstep cs m l with
    | none => some k
    | some m' => mfirstRefused cs m' ls (k+1)

end Sedpack.Pool
