/-!
# M-CODEC — sedpack's own value conversions
(src/sedpack/io/shard/shard_writer_flatbuffer.py:101-200 `save_numpy_vector_as_bytearray`,
flatbuffer/iterate.py:79-115 `decode_array`, tfrec/tfdata.py:106-168 widening).

* an element of a fixed-width dtype is a natural number below `256^k` (its bit pattern; NaN
  payloads, signed zeros, subnormals are just patterns), stored as `k` bytes;
* `encodeLE` / `decodeLE`: little-endian byte split / join;
* the byte-order decision of the writer (`value_np.dtype.byteorder`, `sys.byteorder`);
* C-order flattening of an arbitrary memory layout and reshape on the reader's side;
* integer widening (TFRecord stores int64; FlatBuffers accepts safely castable narrower dtypes).
-/
namespace Sedpack.Codec

/-- `k` little-endian bytes of `v` -/
def encodeLE : Nat → Nat → List Nat
  | 0, _ => []
  | k+1, v => (v % 256) :: encodeLE k (v / 256)

def decodeLE : List Nat → Nat
  | [] => 0
  | b :: bs => b + 256 * decodeLE bs

/-- numpy byte-order tags -/
inductive Tag | native | big | little | na
deriving DecidableEq, Repr
inductive Host | bigEndian | littleEndian
deriving DecidableEq, Repr

/-- the in-memory bytes of an element with bit pattern `v` under (tag, host) -/
def memBytes (t : Tag) (h : Host) (k v : Nat) : List Nat :=
  let le := encodeLE k v
  match t, h with
  | .native, .bigEndian => le.reverse
  | .native, .littleEndian => le
  | .big, _ => le.reverse
  | .little, _ => le
  | .na, _ => le

/-- the writer's decision: `byteswap` iff native-on-big-endian or explicitly big endian -/
def writerSwaps (t : Tag) (h : Host) : Bool :=
  match t, h with
  | .native, .bigEndian => true
  | .big, _ => true
  | _, _ => false

/-- bytes the writer stores for one element: optional byteswap, then `tobytes` -/
def storedBytes (t : Tag) (h : Host) (k v : Nat) : List Nat :=
  if writerSwaps t h then (memBytes t h k v).reverse else memBytes t h k v

/-! ### C-order flattening -/

def size : List Nat → Nat
  | [] => 1
  | d :: ds => d * size ds

/-- position of a multi-index in C order (`np.ravel_multi_index`) -/
def ravel : List Nat → List Nat → Nat
  | _ :: ds, i :: is => i * size ds + ravel ds is
  | _, _ => 0

/-- multi-index at position `n` in C order (`np.unravel_index`) -/
def unravel : List Nat → Nat → List Nat
  | [], _ => []
  | _ :: ds, n => (n / size ds) :: unravel ds (n % size ds)

/-- `idx` is a valid multi-index of `shape` -/
def InBounds : List Nat → List Nat → Prop
  | [], [] => True
  | d :: ds, i :: is => i < d ∧ InBounds ds is
  | _, _ => False

instance decInBounds : (shape idx : List Nat) → Decidable (InBounds shape idx)
  | [], [] => isTrue trivial
  | [], _ :: _ => isFalse (by simp [InBounds])
  | _ :: _, [] => isFalse (by simp [InBounds])
  | d :: ds, i :: is =>
    match decInBounds ds is with
    | isTrue h => if hi : i < d then isTrue ⟨hi, h⟩ else isFalse (fun hh => hi hh.1)
    | isFalse h => isFalse (fun hh => h hh.2)

/-- all multi-indices of `shape` in C (row-major) order -/
def indices (shape : List Nat) : List (List Nat) := (List.range (size shape)).map (unravel shape)

/-- `np.copy(value).flatten()`: the logical elements in C order, whatever the memory layout
(`elem` maps a multi-index to the element: strides, F order, negative strides are all inside `elem`) -/
def flattenC (shape : List Nat) (elem : List Nat → Nat) : List Nat := (indices shape).map elem

/-- `np.frombuffer(...).reshape(shape)`: element at a multi-index of the C-order data -/
def reshapeGet (shape : List Nat) (flat : List Nat) (idx : List Nat) : Option Nat := flat[ravel shape idx]?

/-! ### integer kinds -/

structure IntKind where
  bits : Nat
  signed : Bool
deriving DecidableEq, Repr

def IntKind.lo (k : IntKind) : Int := if k.signed then -(2 ^ (k.bits - 1) : Nat) else 0
def IntKind.hi (k : IntKind) : Int := if k.signed then (2 ^ (k.bits - 1) : Nat) - 1 else (2 ^ k.bits : Nat) - 1
def IntKind.holds (k : IntKind) (v : Int) : Prop := k.lo ≤ v ∧ v ≤ k.hi

instance (k : IntKind) (v : Int) : Decidable (k.holds v) := by unfold IntKind.holds; exact inferInstance

/-- two's complement bit pattern of `v` in `k.bits` bits -/
def toPattern (k : IntKind) (v : Int) : Nat := (v % (2 ^ k.bits : Nat)).toNat
/-- value of a bit pattern -/
def ofPattern (k : IntKind) (p : Nat) : Int :=
  if k.signed ∧ p ≥ 2 ^ (k.bits - 1) then (p : Int) - (2 ^ k.bits : Nat) else p

end Sedpack.Codec

namespace Sedpack.Codec

/-! ### a whole attribute (FlatBuffers byte vector) -/

/-- split a byte list into `n` groups of `k` bytes (`np.frombuffer` with an itemsize-`k` dtype) -/
def groups (k : Nat) : Nat → List Nat → List (List Nat)
  | 0, _ => []
  | n+1, bs => bs.take k :: groups k n (bs.drop k)

/-- the byte vector stored for one attribute: C-order elements, `k` little-endian bytes each -/
def encodeAttr (t : Tag) (h : Host) (k : Nat) (shape : List Nat) (elem : List Nat → Nat) : List Nat :=
  (flattenC shape elem).flatMap (storedBytes t h k)

/-- `decode_array`: `np.frombuffer(bytes, dtype '<')` then `reshape(shape)` -/
def decodeAttr (k : Nat) (shape : List Nat) (bytes : List Nat) (idx : List Nat) : Option Nat :=
  reshapeGet shape ((groups k (size shape) bytes).map decodeLE) idx

/-! ### the TFRecord feature table (kinds only; the wire format is TensorFlow's) -/

def int64 : IntKind := ⟨64, true⟩

/-- integer kind of a numpy dtype name -/
def intKindOf : String → Option IntKind
  | "int8" => some ⟨8, true⟩ | "int16" => some ⟨16, true⟩ | "int32" => some ⟨32, true⟩ | "int64" => some ⟨64, true⟩
  | "uint8" => some ⟨8, false⟩ | "uint16" => some ⟨16, false⟩ | "uint32" => some ⟨32, false⟩ | "uint64" => some ⟨64, false⟩
  | _ => none

/-- `np.can_cast(src, dst, "safe")` restricted to integer kinds, as a range inclusion -/
def rangeIncl (src dst : IntKind) : Bool := decide (dst.lo ≤ src.lo ∧ src.hi ≤ dst.hi)

end Sedpack.Codec
