/-!
# M-PMAP — Rust `parallel_map`, `ParallelMap::next`, `Drop` (rust/src/parallel_map.rs:49-145)

`m = min(threads, #items)` worker threads, each with a private FIFO channel pair.  The consumer's
`next()` receives from worker `now`, hands that worker the iterator's next item (or `None`), and
moves on to worker `(now + 1) % m`.

Items are named by their coordinates `(round, slot)`: the `k`-th element of the input iterator is
`(k / m, k % m)`, so the input order is the lexicographic order of the coordinates and worker `w`
only ever sees items of slot `w`.  The input has `nq` full rounds and `nr < m` further items.
A worker's private channels are FIFO, so they are represented by counters over the worker's
pipeline `(0,w), (1,w), …`: `pipeLen w` items handed to it, `posIn w` received by the thread,
`posW w` results sent back, `posOut w` results consumed by `next()`.
-/
namespace Sedpack.PMap

structure Cfg where
  m : Nat          -- worker threads actually started (min threads #items)
  nq : Nat         -- full rounds of m items
  nr : Nat         -- items in the last, partial round (nr < m)

def Cfg.has (c : Cfg) (a b : Nat) : Prop := b < c.m ∧ (a < c.nq ∨ (a = c.nq ∧ b < c.nr))
instance (c : Cfg) (a b : Nat) : Decidable (c.has a b) := by unfold Cfg.has; infer_instance

structure St where
  pipeLen : Nat → Nat      -- items handed to worker w so far
  fin : Nat → Bool         -- `None` has been sent to worker w ("no more work")
  posIn : Nat → Nat        -- tasks worker w has received
  posW : Nat → Nat         -- results worker w has sent
  posOut : Nat → Nat       -- results the consumer has taken from worker w
  exited : Nat → Bool      -- worker thread w has returned
  q : Nat                  -- consumer: round of the next call
  now : Nat                -- consumer: worker of the next call
  out : List (Nat × Nat)   -- items returned by `next()` so far, in order
  ended : Bool             -- `next()` has returned None
  dropped : Bool           -- the ParallelMap has been dropped

def init (c : Cfg) : St :=
  { pipeLen := fun w => if w < c.m then 1 else 0, fin := fun _ => false, posIn := fun _ => 0, posW := fun _ => 0,
    posOut := fun _ => 0, exited := fun _ => false, q := 0, now := 0, out := [], ended := false, dropped := false }

inductive Lbl
  | wRecv (w : Nat)     -- `thread.receive.recv()`
  | wSend (w : Nat)     -- `thread.send.send(Some(fun(task)))`
  | cNext               -- `ParallelMap::next`
  | cDrop               -- `Drop`: send None to everybody
deriving DecidableEq, Repr

def upd (f : Nat → α) (w : Nat) (v : α) : Nat → α := fun x => if x = w then v else f x

def step (c : Cfg) (s : St) : Lbl → Option St
  | .wRecv w =>
    if w < c.m ∧ s.exited w = false ∧ s.posIn w = s.posW w then
      if s.posIn w < s.pipeLen w then some { s with posIn := upd s.posIn w (s.posIn w + 1) }       -- Ok(Some(task))
      else if s.fin w ∨ s.dropped then some { s with exited := upd s.exited w true }                -- Ok(None) / Err: leave the loop
      else none                                                                                     -- blocked
    else none
  | .wSend w =>
    if w < c.m ∧ s.exited w = false ∧ s.posIn w = s.posW w + 1 then
      if s.dropped then some { s with exited := upd s.exited w true }      -- the receiver is gone: `Err(_) => return`
      else some { s with posW := upd s.posW w (s.posW w + 1) }
    else none
  | .cNext =>
    if s.ended ∨ s.dropped then none
    else if c.m = 0 then some { s with ended := true }                   -- no worker was started: None at once
    else
      let w := s.now
      if s.posOut w < s.posW w then
        -- a result is waiting: take it, hand the worker the next item (round q+1 of its slot) or None
        let s1 := { s with posOut := upd s.posOut w (s.posOut w + 1), out := s.out ++ [(s.posOut w, w)] }
        let s2 := if c.has (s.q + 1) w then { s1 with pipeLen := upd s.pipeLen w (s.pipeLen w + 1) }
                  else { s1 with fin := upd s.fin w true }
        some (if w + 1 < c.m then { s2 with now := w + 1 } else { s2 with now := 0, q := s.q + 1 })
      else if s.exited w then some { s with ended := true }               -- recv() fails: unwrap_or_default = None
      else none                                                           -- blocked in recv()
  | .cDrop =>
    if s.dropped then none else some { s with dropped := true, fin := fun _ => true }

inductive Reach (c : Cfg) : St → Prop
  | init : Reach c (init c)
  | step {s s' l} : Reach c s → step c s l = some s' → Reach c s'

def accepts (c : Cfg) : St → List Lbl → Option St
  | s, [] => some s
  | s, l :: ls => (step c s l).bind (fun s' => accepts c s' ls)

/-- the input order: all items before coordinates `(q, now)` -/
def enumTo (m q now : Nat) : List (Nat × Nat) :=
  (List.range q).flatMap (fun a => (List.range m).map (fun b => (a, b))) ++ (List.range now).map (fun b => (q, b))

end Sedpack.PMap

namespace Sedpack.PMap

/-! ## Worker failure (a shard that cannot be read makes the worker's function panic)

`fails a b` says whether the function panics on item `(a, b)`.  A panicking worker thread dies
without sending anything.  `propagate = false` is the pinned `ParallelMap::next`
(`recv().unwrap_or_default()`: a receive error is the end of the iteration); `propagate = true`
is the repaired one (a receive error from a worker that was not told to finish is a failure). -/

structure FCfg where
  c : Cfg
  fails : Nat → Nat → Bool
  propagate : Bool

structure FSt where
  s : St
  died : Nat → Bool       -- worker w was killed by a panic of its function
  failed : Bool           -- `next()` raised

def finit (f : FCfg) : FSt := { s := init f.c, died := fun _ => false, failed := false }

def fstep (f : FCfg) (t : FSt) : Lbl → Option FSt
  | .wSend w =>
    -- the item being processed is the (posIn w - 1)-th of slot w
    if w < f.c.m ∧ t.s.exited w = false ∧ t.s.posIn w = t.s.posW w + 1 ∧ f.fails (t.s.posW w) w = true then
      some { t with s := { t.s with exited := upd t.s.exited w true }, died := upd t.died w true }
    else (step f.c t.s (.wSend w)).map (fun s' => { t with s := s' })
  | .cNext =>
    if t.failed then none
    else if f.c.m ≠ 0 ∧ ¬ (t.s.ended ∨ t.s.dropped) ∧ ¬ (t.s.posOut t.s.now < t.s.posW t.s.now) ∧ t.s.exited t.s.now = true ∧
        t.s.fin t.s.now = false ∧ f.propagate then
      some { t with failed := true }          -- the worker died without having been told to finish
    else (step f.c t.s .cNext).map (fun s' => { t with s := s' })
  | l => (step f.c t.s l).map (fun s' => { t with s := s' })

def faccepts (f : FCfg) : FSt → List Lbl → Option FSt
  | t, [] => some t
  | t, l :: ls => (fstep f t l).bind (fun t' => faccepts f t' ls)

end Sedpack.PMap
