/-!
# M-SEL — `DatasetIteration.shard_paths_dataset` (src/sedpack/io/dataset_iteration.py:52-124)

```python
shards_list = list(self.shard_info_iterator(split=split))
if shard_filter is not None: shards_list = list(filter(shard_filter, shards_list))
if not shards_list: raise ValueError("The list of shards is empty. …")
if shards: shards_list = shards_list[:shards]
if custom_metadata_type_limit:
    counts = {}
    for shard_info in old_shards_list:
        k = <hashable key of shard_info.custom_metadata>
        counts[k] = counts.get(k, 0) + 1
        if counts[k] <= custom_metadata_type_limit: shards_list.append(shard_info)
```
A shard is `(id, md)` where `md` is a code for its custom-metadata *value* (equal values, equal codes).
-/
namespace Sedpack.Sel

structure ShardI where
  id : Nat
  md : Nat
deriving DecidableEq, Repr

/-- Python `xs[:k]` for an `int` k (negative k counts from the end) -/
def pySliceTo (xs : List α) (k : Int) : List α :=
  if k ≥ 0 then xs.take k.toNat else xs.take (xs.length - (-k).toNat)

/-- the per-metadata counter loop -/
def limitLoop (n : Nat) : List ShardI → (Nat → Nat) → List ShardI
  | [], _ => []
  | s :: rest, counts =>
    let c := counts s.md + 1
    let counts' := fun m => if m = s.md then c else counts m
    if c ≤ n then s :: limitLoop n rest counts' else limitLoop n rest counts'

inductive Err | emptySelection
deriving DecidableEq, Repr

/-- `filter(shard_filter, shards_list)` when a predicate is given -/
def stageFilter (infos : List ShardI) : Option (ShardI → Bool) → List ShardI
  | none => infos
  | some p => infos.filter p

/-- `if shards: shards_list = shards_list[:shards]` (falsy for `None` and `0`) -/
def stageFirstK (l : List ShardI) : Option Int → List ShardI
  | none => l
  | some k => if k = 0 then l else pySliceTo l k

/-- `if custom_metadata_type_limit: …` (falsy for `None` and `0`) -/
def stageLimit (l : List ShardI) : Option Nat → List ShardI
  | none => l
  | some n => if n = 0 then l else limitLoop n l (fun _ => 0)

def select (infos : List ShardI) (filter : Option (ShardI → Bool)) (k : Option Int) (limit : Option Nat) :
    Except Err (List ShardI) :=
  if stageFilter infos filter = [] then .error .emptySelection
  else .ok (stageLimit (stageFirstK (stageFilter infos filter) k) limit)

end Sedpack.Sel
