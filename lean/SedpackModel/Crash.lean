/-!
# M-CRASH — the file-system effects of a writing session, one label per effect
(src/sedpack/io/utils.py:93-134 `safe_update_file`, dataset_filler.py:180-202,274-291,
merge_shard_infos.py:98-117, dataset_writing.py:182-199, the three shard writers).

The state is what is on disk; a *crash state* is the state after any prefix of a session's effect
sequence (a process crash loses nothing that was completed; `rename` is atomic).  The guards of
`install` / `installInfo` are the writer's discipline: a list document may only name shards that
are already closed (complete and hashed) and children whose own document is already installed,
and it extends the document it replaces; the description is installed after the lists it names.
The harness checks that the *observed* effect order of the real code satisfies these guards
(the trace is accepted); the theorems then give the crash-consistency facts for every prefix.
-/
namespace Sedpack.Crash

abbrev Dir := List Nat

structure Doc where
  files : List Nat          -- shard files named by the list document
  kids : List Dir           -- directories of the child lists it names
deriving DecidableEq, Repr

structure St where
  closed : List Nat                 -- shard files completely written and hashed
  opened : List Nat                 -- shard files being written (possibly torn)
  docs : Dir → Option Doc           -- installed `shards_list.json` documents
  roots : List Dir                  -- list documents named by the installed `dataset_info.json`
  tmps : Nat                        -- temp files written so far (never referenced by anything)

inductive Lbl
  | shardBegin (f : Nat)            -- a new shard file appears under a fresh name
  | shardAppend (f : Nat)           -- (partial) data written to an open shard file
  | shardClose (f : Nat)            -- writer closed the file; its digest has been computed
  | tmpWrite (d : Dir)              -- (partial) write of `update_<time>_<uuid>_of_shards_list.json`
  | install (d : Dir) (doc : Doc)   -- rename of the temp file over `d/shards_list.json`
  | installInfo (roots : List Dir)  -- rename of the temp file over `dataset_info.json`
deriving DecidableEq, Repr

/-- is `f` mentioned by no installed document and no file on disk? -/
def fresh (s : St) (f : Nat) : Prop := f ∉ s.closed ∧ f ∉ s.opened

def sub (a b : List α) [DecidableEq α] : Bool := a.all (fun x => b.contains x)

def step (s : St) : Lbl → Option St
  | .shardBegin f => if f ∈ s.closed ∨ f ∈ s.opened then none else some { s with opened := f :: s.opened }
  | .shardAppend f => if f ∈ s.opened then some s else none
  | .shardClose f => if f ∈ s.opened then some { s with opened := s.opened.erase f, closed := f :: s.closed } else none
  | .tmpWrite _ => some { s with tmps := s.tmps + 1 }
  | .install d doc =>
    let old : Doc := (s.docs d).getD { files := [], kids := [] }
    if doc.files.all (fun f => s.closed.contains f) ∧ doc.kids.all (fun c => (s.docs c).isSome) ∧
        sub old.files doc.files ∧ sub old.kids doc.kids ∧ doc.kids.all (fun c => c.length = d.length + 1) then
      some { s with docs := fun x => if x = d then some doc else s.docs x }
    else none
  | .installInfo roots =>
    if roots.all (fun r => (s.docs r).isSome) ∧ sub s.roots roots then some { s with roots := roots } else none

def accepts : St → List Lbl → Option St
  | s, [] => some s
  | s, l :: ls => (step s l).bind (fun s' => accepts s' ls)

def firstRefused : St → List Lbl → Nat → Option Nat
  | _, [], _ => none
  | s, l :: ls, k => match step s l with
    | none => some k
    | some s' => firstRefused s' ls (k+1)

/-- shard file `f` is reachable from the description through list documents starting at `d` -/
inductive ReachFrom (s : St) : Dir → Nat → Prop
  | direct {d doc f} : s.docs d = some doc → f ∈ doc.files → ReachFrom s d f
  | viaKid {d doc c f} : s.docs d = some doc → c ∈ doc.kids → ReachFrom s c f → ReachFrom s d f

def Reachable (s : St) (f : Nat) : Prop := ∃ r ∈ s.roots, ReachFrom s r f

end Sedpack.Crash
