/-!
# M-FILL — `_DatasetFillerContext.write_example / close_shard`, `DatasetFiller.__exit__`,
`Shard.write / close` (src/sedpack/io/dataset_filler.py:121-202,258-291, shard/shard.py:54-80)

The filler keeps, per split, one open shard (`ShardProgress`) and the list of shards it has closed
in this session.  Everything the code does on `write_example(values, split, custom_metadata)` touches
only the entry of `split`, so the state is a function from splits to per-split states; the statement
order inside one call follows the code line by line:

```python
if split not in self._current_shards_progress: ... = ShardProgress(self._get_new_shard(split))
current_progress = self._current_shards_progress[split]
previous_metadata = current_progress.shard.shard_info.custom_metadata
metadata_changed = all((custom_metadata, previous_metadata, custom_metadata != previous_metadata))
if current_progress.written_examples >= self._examples_per_shard or metadata_changed:
    self.close_shard(shard=current_progress.shard, split=split)
    current_progress.shard = self._get_new_shard(split=split)
    current_progress.written_examples = 0
current_progress.shard.write(values=values)          # may raise: validation
if custom_metadata:                                  # (attached before the write in the pinned code)
    current_progress.shard.shard_info.custom_metadata = copy.deepcopy(custom_metadata)
current_progress.written_examples += 1
```

Metadata values are a finite alphabet (`Nat`) of pairwise different metadata values, `0` standing for the falsy
ones (`None`, `{}`).  An op carries the *value* the caller's object had at the time of the call.
`attachFirst = true` reproduces the pinned code's order (metadata attached before the write).
-/
namespace Sedpack.Fill

-- metadata values, example ids and splits are natural numbers (plain `Nat` so that `omega` sees them)

/-- The open shard: `shard_info` fields + the writer's buffer.  The second component of `exs` is a
ghost: the metadata argument of the write that stored the example. -/
structure Open where
  md : Nat := 0
  n : Nat := 0
  exs : List (Nat × Nat) := []
deriving Repr, DecidableEq

inductive Why | full | mdChange | exit
deriving Repr, DecidableEq

/-- A shard appended to the split's `ShardsList.shard_files` (closing order). -/
structure Closed where
  md : Nat
  n : Nat
  exs : List (Nat × Nat)
  why : Why
deriving Repr, DecidableEq

structure Prog where
  shard : Open := {}
  written : Nat := 0
deriving Repr, DecidableEq

structure SplitSt where
  prog : Option Prog := none
  closed : List Closed := []
deriving Repr, DecidableEq

inductive Out | ok | rejected | closeFailed
deriving Repr, DecidableEq

structure Cfg where
  eps : Nat
  attachFirst : Bool := false
deriving Repr

/-- `close_shard`: `Shard.close()` raises when nothing was ever written into the shard (no file to
hash for fb/npz, writer never opened for tfrec); otherwise the info is appended to the list. -/
def closeShard (ss : SplitSt) (sh : Open) (why : Why) : Option SplitSt :=
  if sh.exs = [] then none
  else some { ss with closed := ss.closed ++ [{ md := sh.md, n := sh.n, exs := sh.exs, why := why }] }

/-- One `write_example` restricted to the split it names.  `ok` is the verdict of the writer's
validation for these values (M-CODEC computes it); a rejected write raises out of `Shard.write`
before any counter moves. -/
def writeSplit (c : Cfg) (ss : SplitSt) (md : Nat) (ex : Nat) (ok : Bool) : SplitSt × Out :=
  -- get or create
  let cur : Prog := ss.prog.getD {}
  let ss : SplitSt := { ss with prog := some cur }
  let prev := cur.shard.md
  -- roll over (`metadata_changed = all((custom_metadata, previous_metadata, custom_metadata != previous_metadata))`)
  let rolled : Option (SplitSt × Prog) :=
    if cur.written ≥ c.eps ∨ (md ≠ 0 ∧ prev ≠ 0 ∧ md ≠ prev) then
      match closeShard ss cur.shard (if cur.written ≥ c.eps then .full else .mdChange) with
      | none => none
      | some ss' => some (ss', {})
    else some (ss, cur)
  match rolled with
  | none => (ss, .closeFailed)                       -- the exception leaves the progress as it was
  | some (ss, cur) =>
    let attach (sh : Open) : Open := if md = 0 then sh else { sh with md := md }
    if c.attachFirst then
      let sh := attach cur.shard
      if ok then
        ({ ss with prog := some { shard := { sh with n := sh.n + 1, exs := sh.exs ++ [(ex, md)] },
                                  written := cur.written + 1 } }, .ok)
      else ({ ss with prog := some { cur with shard := sh } }, .rejected)
    else
      if ok then
        let sh := attach cur.shard
        ({ ss with prog := some { shard := { sh with n := sh.n + 1, exs := sh.exs ++ [(ex, md)] },
                                  written := cur.written + 1 } }, .ok)
      else ({ ss with prog := some cur }, .rejected)

/-- `DatasetFiller.__exit__` for one split: close the open shard iff something was written. -/
def exitSplit (ss : SplitSt) : Option SplitSt :=
  match ss.prog with
  | none => some ss
  | some p =>
    if p.written > 0 then (closeShard ss p.shard .exit).map (fun s => { s with prog := none })
    else some { ss with prog := none }

inductive Op
  | write (split : Nat) (md : Nat) (ex : Nat) (ok : Bool)
deriving Repr, DecidableEq

abbrev St := Nat → SplitSt

def St.init : St := fun _ => {}

def step (c : Cfg) (s : St) : Op → St × Out
  | .write sp md ex ok =>
    let r := writeSplit c (s sp) md ex ok
    (fun x => if x = sp then r.1 else s x, r.2)

/-- Run a session's writes; returns the state and the outcome of every write. -/
def run (c : Cfg) : St → List Op → St × List Out
  | s, [] => (s, [])
  | s, op :: ops =>
    let r := step c s op
    let r' := run c r.1 ops
    (r'.1, r.2 :: r'.2)

/-- What a reader of the dataset can see of one split after the session has been closed:
for each listed shard (in list order) its metadata, recorded count and stored examples. -/
def view (ss : SplitSt) : Option (List (Nat × Nat × List Nat)) :=
  (exitSplit ss).map (fun s => s.closed.map (fun c => (c.md, c.n, c.exs.map (·.1))))

/-- A whole session from a given state: writes, then `__exit__` on every split. -/
def session (c : Cfg) (s : St) (ops : List Op) (sp : Nat) : Option (List (Nat × Nat × List Nat)) × List Out :=
  let r := run c s ops
  (view (r.1 sp), r.2)

end Sedpack.Fill
