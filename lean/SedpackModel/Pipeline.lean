import SedpackModel.Iter
import SedpackModel.Pool
/-!
# M-PIPE — the public iteration interfaces as compositions of the pieces
(src/sedpack/io/dataset_iteration.py:418-475 `as_numpy_common`, :594-686 `as_numpy_iterator`,
:477-592 `as_numpy_iterator_concurrent`, :323-416 `as_numpy_iterator_async`, :688-912 Rust).

A dataset split is abstracted to its selected shard list `paths : List Nat` (shard ids in
enumeration order) and `ex : Nat → List Nat`, the example ids stored in each shard, in file order;
`g` is the caller's `process_record`.  Each stage is a *relation* between its input list and the
list it yields, defined by complete runs of the corresponding monitor / LTS, so that a statement
about `out` covers every random state, schedule and timing.
-/
namespace Sedpack.Pipe
open Sedpack.Iter

/-- a complete run of the shuffle buffer of size `b` over the finite source `xs` yielding `out` -/
def SBRun (b : Nat) (xs out : List Nat) : Prop :=
  ∃ tr s, SB.accepts (SB.init b) tr = some s ∧ s.phase = .done ∧ s.pulled = xs ∧ s.out = out

/-- a complete run of round robin with buffer size `b` over the inner lists `ls` (inner `i` is
`ls[i]`) yielding `out`, having seen the end of the outer stream -/
def RRRun (b : Nat) (ls : List (List Nat)) (out : List Nat) : Prop :=
  ∃ tr s, RR.accepts (RR.init b) tr = some s ∧ s.finished = true ∧ s.outerDone = true ∧
    s.pulledAll = ls.flatten ∧ s.out = out

/-- a complete, normally ended pass of the lazy pool over `n` inputs: the order in which the
results came out (a list of input indices) -/
def PoolRun (T : Nat) (n : Nat) (order : List Nat) : Prop :=
  ∃ (c : Pool.Cfg) (s : Pool.St), c.T = max 1 T ∧ c.P = 2 * c.T + 2 ∧ c.n = some n ∧ c.forward = true ∧
    (∀ i, c.fails i = false) ∧ Pool.Reach c s ∧ ((∃ k, s.ph = .resetting k 0) ∨ s.ph = .fin 0) ∧ s.out = order

/-- `as_numpy_common`: the shard path stream for one pass (`repeat=False`) -/
def PathsRun (shuffle : Nat) (paths ps : List Nat) : Prop :=
  if shuffle = 0 then ps = paths else SBRun paths.length paths ps

/-- `as_numpy_iterator(repeat=False)` -/
def SyncRun (shuffle : Nat) (paths : List Nat) (ex : Nat → List Nat) (g : Nat → Nat) (out : List Nat) : Prop :=
  ∃ ps, PathsRun shuffle paths ps ∧
    let examples := (ps.flatMap ex).map g          -- chain.from_iterable(map(iterate_shard, ps)), then map(g)
    if shuffle = 0 then out = examples else SBRun shuffle examples out

/-- `as_numpy_iterator_concurrent(repeat=False)` -/
def ConcurrentRun (shuffle T : Nat) (paths : List Nat) (ex : Nat → List Nat) (g : Nat → Nat) (out : List Nat) : Prop :=
  ∃ ps, PathsRun shuffle paths ps ∧
    if shuffle = 0 then
      -- batches of `file_parallelism` shards, ordered executor map, chained
      out = (batches T (ps.length + 1) ps).flatMap (fun batch => batch.flatMap (fun p => (ex p).map g))
    else
      ∃ order, PoolRun T ps.length order ∧
        RRRun T (order.map (fun i => ((ex (ps.getD i 0)).map g))) out

/-- `as_numpy_iterator_async(repeat=False)` (fb / npz) -/
def AsyncRun (shuffle T : Nat) (paths : List Nat) (ex : Nat → List Nat) (g : Nat → Nat) (out : List Nat) : Prop :=
  ∃ ps, PathsRun shuffle paths ps ∧ ∃ mid,
    (if shuffle = 0 then mid = ps.flatMap ex else RRRun T (ps.map ex) mid) ∧ out = mid.map g

end Sedpack.Pipe
