import SedpackDriver.Util
import SedpackModel.Writer
open Lean
namespace Sedpack.Drv
open Sedpack.Writer

def parseEx (j : Json) : Except String Ex := do
  let a ← (fromJson? j : Except String (Array Json))
  a.toList.mapM (fun v => match v with
    | Json.null => pure none
    | _ => do
      let t ← (fromJson? v : Except String (Array Json))
      match t.toList with
      | [s, e, p] => do
        pure (some { shapeOk := ← (fromJson? s : Except String Bool), encOk := ← (fromJson? e : Except String Bool),
                     payload := ← (fromJson? p : Except String Nat) })
      | _ => throw "bad value")

def wOutStr : Out → String
  | .ok => "ok" | .keyError j => s!"key:{j}" | .shapeError j => s!"shape:{j}" | .encError j => s!"enc:{j}"

def rowsJ (r : List (List Nat)) : Json := Json.arr (r.map natList).toArray

/-- `{"m":"writer","fmt":"npz"|"fb"|"tfrec","attrs":[bool…],"exs":[[null | [shapeOk,encOk,payload]…]…]}` →
per call: outcome and a summary of the writer's state; at the end what a reader decodes -/
def writerJ (j : Json) : Except String Json := do
  let fmt ← getStr j "fmt"
  let attrs ← j.getObjValAs? (List Bool) "attrs"
  let exsJ ← getArr j "exs"
  let exs ← exsJ.toList.mapM parseEx
  match fmt with
  | "npz" =>
    let step := fun (acc : NpzSt × List Json) ex =>
      let r := write npzWrite attrs acc.1 ex
      (r.1, acc.2 ++ [Json.mkObj [("out", Json.str (wOutStr r.2)), ("cols", natList (r.1.map (·.length)))]])
    let r := exs.foldl step (colsOf attrs.length [], [])
    return Json.mkObj [("steps", Json.arr r.2.toArray), ("decoded", match npzDecode r.1 with | some rows => rowsJ rows | none => Json.null)]
  | "fb" =>
    let step := fun (acc : FbSt × List Json) ex =>
      let r := write fbWrite attrs acc.1 ex
      (r.1, acc.2 ++ [Json.mkObj [("out", Json.str (wOutStr r.2)), ("examples", toJson r.1.examples.length)]])
    let r := exs.foldl step (⟨0, []⟩, [])
    return Json.mkObj [("steps", Json.arr r.2.toArray), ("decoded", rowsJ r.1.examples)]
  | "tfrec" =>
    let step := fun (acc : TfSt × List Json) ex =>
      let r := write tfWrite attrs acc.1 ex
      (r.1, acc.2 ++ [Json.mkObj [("out", Json.str (wOutStr r.2)), ("opened", Json.bool r.1.opened), ("records", toJson r.1.records.length)]])
    let r := exs.foldl step (⟨false, []⟩, [])
    return Json.mkObj [("steps", Json.arr r.2.toArray), ("decoded", rowsJ r.1.records)]
  | _ => throw s!"bad fmt {fmt}"

end Sedpack.Drv
