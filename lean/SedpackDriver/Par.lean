import SedpackDriver.Util
import SedpackModel.Par
open Lean
namespace Sedpack.Drv
open Sedpack.Par

/-- `{"m":"parval","exs":[[shapeOk…],…],"sched":[[i,"check"] | [i,"decide"], …]}` → is the observed interleaving of the writers'
validation steps a run of M-PAR's validation component, and the verdict each call reached -/
def parValJ (j : Json) : Except String Json := do
  let exs ← j.getObjValAs? (List (List Bool)) "exs"
  let sched ← j.getObjValAs? (Array Json) "sched"
  let mut cs : List Val := exs.map (fun e => { todo := e })
  let mut idx := 0
  for e in sched do
    let a ← e.getArr?
    let i ← (a[0]?.getD Json.null).getNat?
    let tag ← (a[1]?.getD Json.null).getStr?
    let lbl ← match tag with
      | "check" => pure VLbl.check
      | "decide" => pure VLbl.decide
      | _ => throw s!"bad label {tag}"
    match stepPar valComp cs (i, lbl) with
    | some cs' => cs := cs'
    | none => return Json.mkObj [("ok", Json.bool false), ("at", toJson idx)]
    idx := idx + 1
  return Json.mkObj [("ok", Json.bool true), ("verdicts", toJson (cs.map (·.verdict)))]

end Sedpack.Drv
