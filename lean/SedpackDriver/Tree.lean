import SedpackDriver.Util
import SedpackModel.Tree
import SedpackModel.TreeCrash
open Lean
namespace Sedpack.Drv
open Sedpack.Tree

/-- a structural stand-in for the digest of a list document (only compared with itself) -/
def Hdrv (l : SList) : Nat :=
  (l.files.foldl (fun a s => (a * 31 + s.file * 7 + s.n) % 1000003) (l.n + 17)) +
  (l.kids.foldl (fun a c => (a * 37 + c.n * 3 + c.shards + c.hash) % 1000003) 5)

def parseDir (j : Json) : Except String Dir := (fromJson? j : Except String (List Nat))

def parseSession (j : Json) : Except String Session := do
  let ws ← (fromJson? j : Except String (Array Json))
  ws.toList.mapM (fun w => do
    let pr ← (fromJson? w : Except String (Array Json))
    match pr.toList with
    | [d, shs] => do
      let dir ← parseDir d
      let ss ← (fromJson? shs : Except String (List (List Nat)))
      let shards ← ss.mapM (fun s => match s with
        | [f, n] => pure ({ file := f, n := n } : Shard)
        | _ => throw "bad shard")
      pure (dir, shards)
    | _ => throw "bad write")

def kidJ (c : Kid) : Json := Json.arr #[toJson c.dir, toJson c.n, toJson c.shards]

/-- all non-empty prefixes of the directories the sessions write into: the only places where the model ever creates a
list document (`Post.existNew`) -/
def touchedDirs (sessions : List Session) : List Dir :=
  (sessions.flatMap (fun se => se.flatMap (fun w => (List.range (w.1.length + 1)).map (fun k => w.1.take k)))).eraseDups

/-- a store given by a table (an evaluation device of the driver: the model's store is a chain of function updates whose
look-ups get slower with every session; after each session the store is tabulated over the touched directories) -/
def ofTable (tbl : List (Dir × Option SList)) : FS := fun x => (tbl.lookup x).join

def runSessions (H : SList → Nat) (fuel : Nat) (sessions : List Session) : DS :=
  let ds := touchedDirs sessions
  sessions.foldl (fun acc se =>
      let r := session H fuel acc se
      let tbl := ds.map (fun d => (d, r.fs d))
      { r with fs := ofTable tbl })
    { fs := fun _ => none, splits := fun _ => none }

/-- `{"m":"tree","fuel":f,"sessions":[ [[dir,[[file,n],…]],…], … ],"dirs":[dir,…]}` →
split infos, the list documents at the requested directories, and the enumeration per split -/
def tree (j : Json) : Except String Json := do
  let fuel ← getNat j "fuel"
  let ssJ ← getArr j "sessions"
  let sessions ← ssJ.toList.mapM parseSession
  let dirsJ ← getArr j "dirs"
  let dirs ← dirsJ.toList.mapM parseDir
  let ds := runSessions Hdrv fuel sessions
  let splitJ (s : Nat) : Json := match ds.splits s with
    | none => Json.null
    | some k => kidJ k
  let listJ (d : Dir) : Json := match ds.fs d with
    | none => Json.null
    | some l => Json.mkObj [("n", toJson l.n),
        ("files", Json.arr (l.files.map (fun s => Json.arr #[toJson s.file, toJson s.n])).toArray),
        ("kids", Json.arr (l.kids.map kidJ).toArray)]
  let enumJ (s : Nat) : Json := natList ((shardsOf fuel ds.fs [s]).map (·.file))
  return Json.mkObj [("splits", Json.arr #[splitJ 0, splitJ 1, splitJ 2]),
    ("lists", Json.arr (dirs.map listJ).toArray),
    ("enum", Json.arr #[enumJ 0, enumJ 1, enumJ 2])]

end Sedpack.Drv

namespace Sedpack.Drv
open Sedpack.Tree

/-- `{"m":"check","fuel":f,"sessions":[…],"fault":{"kind":"none"|"list"|"shard","dir":[…],"file":id,"how":"remove"|"alter"|"swap","with":id}}`
Shard `file` has content `1000+file` and recorded digest `1000+file` (`Hf = id`). -/
def checkJ (j : Json) : Except String Json := do
  let fuel ← getNat j "fuel"
  let ssJ ← getArr j "sessions"
  let sessions0 ← ssJ.toList.mapM parseSession
  let sessions : List Session := sessions0.map (fun se => se.map (fun w => (w.1, w.2.map (fun s => { s with hash := 1000 + s.file }))))
  let ds := runSessions Hdrv fuel sessions
  let infos := [0, 1, 2].filterMap ds.splits
  let files0 : Files := fun d f => match ds.fs d with
    | some l => if l.files.any (·.file == f) then some (1000 + f) else none
    | none => none
  let fault ← j.getObjVal? "fault"
  let kind ← getStr fault "kind"
  let dir := (fault.getObjValAs? (List Nat) "dir").toOption.getD []
  let file := (fault.getObjValAs? Nat "file").toOption.getD 0
  let how := (fault.getObjValAs? String "how").toOption.getD "alter"
  let other := (fault.getObjValAs? Nat "with").toOption.getD 0
  let fs' : FS := if kind == "list" then
      (fun x => if x = dir then
        (if how == "remove" then none else (ds.fs x).map (fun l => { l with n := l.n + 1 })) else ds.fs x)
    else ds.fs
  let files' : Files := if kind == "shard" then
      (fun d f => if d = dir ∧ f = file then
        (if how == "remove" then none else if how == "swap" then files0 d other else some 0) else files0 d f)
    else files0
  return Json.mkObj [("ok", Json.bool (check Hdrv id fuel fs' files' infos))]

end Sedpack.Drv

namespace Sedpack.Drv
open Sedpack.Tree

/-- `{"m":"installs","fuel":f,"sessions":[…completed sessions…],"fillers":[session,…]}` → the list documents the writing call
made of `fillers` (one filler: a plain session; several: a multi-writer call) installs after the completed `sessions`, in program
order (`multiSessionE`), each as `[dir, [file ids], [child dirs]]`; `refines` says whether the installs reproduce `session`'s
store on every touched directory; every prefix is a crash state, `crash_enum[k]` is what a reader enumerates per split after `k`
installs. -/
def installsJ (j : Json) : Except String Json := do
  let fuel ← getNat j "fuel"
  let ssJ ← getArr j "sessions"
  let pre ← ssJ.toList.mapM parseSession
  let flJ ← getArr j "fillers"
  let fillers ← flJ.toList.mapM parseSession
  let ds := runSessions Hdrv fuel pre
  let r := multiSessionE Hdrv fuel ds fillers
  let touched := touchedDirs (pre ++ fillers)
  let post := session Hdrv fuel ds fillers.flatten
  let viaInstalls := applyInstalls ds.fs r.2
  let same := touched.all (fun d => decide (viaInstalls d = post.fs d) && decide (r.1.fs d = post.fs d))
  let insJ := r.2.map (fun i => Json.arr #[toJson i.1, natList (i.2.files.map (·.file)), Json.arr (i.2.kids.map (fun c => toJson c.dir)).toArray])
  let enumAt (k : Nat) : Json :=
    let c := applyInstalls ds.fs (r.2.take k)
    Json.arr #[natList ((shardsOf fuel c [0]).map (·.file)), natList ((shardsOf fuel c [1]).map (·.file)), natList ((shardsOf fuel c [2]).map (·.file))]
  return Json.mkObj [("installs", Json.arr insJ.toArray), ("refines", Json.bool same),
    ("crash_enum", Json.arr ((List.range (r.2.length + 1)).map enumAt).toArray)]

end Sedpack.Drv
