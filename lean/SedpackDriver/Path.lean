import SedpackDriver.Util
import SedpackModel.Path
open Lean
namespace Sedpack.Drv
open Sedpack.Path

/-- `{"m":"path","root":"/data/ds","s":"…","fixed":bool}` -/
def pathJ (j : Json) : Except String Json := do
  let root ← getStr j "root"
  let s ← getStr j "s"
  let fx := (getBool j "fixed").toOption.getD true
  let c : Cfg := { rejectAbsolute := fx }
  let p := parse s
  let r := parse root
  let jn := join r p
  return Json.mkObj [("abs", Json.bool p.abs), ("comps", strList p.comps), ("name", Json.str (name p)),
    ("accepts_file", Json.bool (acceptsFileInfo c p)), ("accepts_list", Json.bool (acceptsListPath c p)),
    ("accepts_subdir", Json.bool (acceptsSubdir c p)),
    ("join_abs", Json.bool jn.abs), ("join_comps", strList jn.comps),
    ("norm", strList (normalize jn)), ("under", Json.bool (under (normalize r) (normalize jn)))]

end Sedpack.Drv
