import SedpackDriver.Util
import SedpackModel.Crash
open Lean
namespace Sedpack.Drv
open Sedpack.Crash

def parseCrashLbl (j : Json) : Except String Lbl := do
  let a ← (fromJson? j : Except String (Array Json))
  match a.toList with
  | [Json.str "shardBegin", f] => do pure (.shardBegin (← fromJson? f))
  | [Json.str "shardAppend", f] => do pure (.shardAppend (← fromJson? f))
  | [Json.str "shardClose", f] => do pure (.shardClose (← fromJson? f))
  | [Json.str "tmpWrite", d] => do pure (.tmpWrite (← fromJson? d))
  | [Json.str "install", d, fs, ks] => do
    pure (.install (← fromJson? d) { files := (← fromJson? fs), kids := (← fromJson? ks) })
  | [Json.str "installInfo", rs] => do pure (.installInfo (← fromJson? rs))
  | _ => throw s!"bad crash label {j}"

/-- `{"m":"crash","closed":[…],"docs":[[dir,[files],[kids]],…],"roots":[dir,…],"trace":[labels]}` -/
def crash (j : Json) : Except String Json := do
  let closed ← getNatList j "closed"
  let docsJ ← getArr j "docs"
  let docs ← docsJ.toList.mapM (fun d => do
    let a ← (fromJson? d : Except String (Array Json))
    match a.toList with
    | [dir, fs, ks] => do
      let dd : Dir ← fromJson? dir
      let ff : List Nat ← fromJson? fs
      let kk : List Dir ← fromJson? ks
      pure (dd, ({ files := ff, kids := kk } : Doc))
    | _ => throw "bad doc")
  let roots : List Dir ← j.getObjValAs? (List Dir) "roots"
  let trJ ← getArr j "trace"
  let tr ← trJ.toList.mapM parseCrashLbl
  let s0 : St := { closed := closed, opened := [], docs := fun x => (docs.find? (·.1 = x)).map (·.2), roots := roots, tmps := 0 }
  match firstRefused s0 tr 0 with
  | some k => return Json.mkObj [("ok", Json.bool false), ("at", toJson k)]
  | none =>
    match accepts s0 tr with
    | none => throw "inconsistent"
    | some s => return Json.mkObj [("ok", Json.bool true), ("closed", natList s.closed), ("open", natList s.opened),
        ("roots", toJson s.roots), ("tmps", toJson s.tmps)]

end Sedpack.Drv
