import SedpackDriver.Util
import SedpackModel.Pool
open Lean
namespace Sedpack.Drv
open Sedpack.Pool

def parseLbl (s : String) : Except String Lbl :=
  match s.splitOn ":" with
  | ["cPut"] => pure .cPut | ["cGet"] => pure .cGet | ["cPutNext"] => pure .cPutNext
  | ["cFinish"] => pure .cFinish | ["cAbandon"] => pure .cAbandon | ["cReset"] => pure .cReset
  | ["wGet", w] => match w.toNat? with | some k => pure (.wGet k) | none => throw s!"bad label {s}"
  | ["wPut", w] => match w.toNat? with | some k => pure (.wPut k) | none => throw s!"bad label {s}"
  | _ => throw s!"bad label {s}"

def lblStr : Lbl → String
  | .cPut => "cPut" | .cGet => "cGet" | .cPutNext => "cPutNext" | .cFinish => "cFinish"
  | .cAbandon => "cAbandon" | .cReset => "cReset" | .wGet w => s!"wGet:{w}" | .wPut w => s!"wPut:{w}"

def phStr : Ph → String
  | .prefill => "prefill" | .waiting => "waiting" | .got i => s!"got:{i}"
  | .resetting k w => s!"resetting:{k}:{w}" | .fin w => s!"fin:{w}"

def wStr : W → String
  | .idle => "idle" | .hold (.item i) => s!"hold:{i}" | .hold .stop => "holdStop" | .stopped => "stopped" | .dead => "dead"

/-- `{"m":"pool","T":t,"P":p,"n":k|null,"fails":[…],"forward":b,"trace":[labels]}` →
acceptance, final state, enabled labels in the final state. -/
def pool (j : Json) : Except String Json := do
  let T ← getNat j "T"
  let P ← getNat j "P"
  let n := optNat j "n"
  let fails ← getNatList j "fails"
  let fw := (getBool j "forward").toOption.getD true
  let tr ← getStrList j "trace"
  let lbls ← tr.mapM parseLbl
  let c : Cfg := { T := T, P := P, n := n, fails := fun i => fails.contains i, forward := fw }
  let s0 := init c
  match firstRefused c s0 lbls 0 with
  | some k => return Json.mkObj [("ok", Json.bool false), ("at", toJson k), ("label", Json.str (tr.getD k "?"))]
  | none =>
    match accepts c s0 lbls with
    | none => throw "inconsistent accepts"
    | some s =>
      let allStopped := s.ws.all (· == .stopped)
      let isFin := match s.ph with | .fin _ => true | _ => false
      return Json.mkObj [("ok", Json.bool true), ("ph", Json.str (phStr s.ph)), ("out", natList s.out),
        ("ws", strList (s.ws.map wStr)), ("active", toJson s.active), ("p", toJson s.p),
        ("toProc", toJson s.toProc.length), ("results", toJson s.results.length),
        ("terminal", Json.bool (isFin && allStopped)),
        ("enabled", strList ((enabled c s).map lblStr))]

end Sedpack.Drv
