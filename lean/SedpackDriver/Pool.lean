import SedpackDriver.Util
import SedpackModel.Pool
open Lean
namespace Sedpack.Drv
open Sedpack.Pool

def parseLbl (s : String) : Except String Lbl :=
  match s.splitOn ":" with
  | ["cPut"] => pure .cPut | ["cGet"] => pure .cGet | ["cPutNext"] => pure .cPutNext
  | ["cFinish"] => pure .cFinish | ["cAbandon"] => pure .cAbandon | ["cReset"] => pure .cReset
  | ["wGet", w] => match w.toNat? with | some k => pure (.wGet k) | none => throw s!"bad label {s}"
  | ["wPut", w] => match w.toNat? with | some k => pure (.wPut k) | none => throw s!"bad label {s}"
  | _ => throw s!"bad label {s}"

def lblStr : Lbl → String
  | .cPut => "cPut" | .cGet => "cGet" | .cPutNext => "cPutNext" | .cFinish => "cFinish"
  | .cAbandon => "cAbandon" | .cReset => "cReset" | .wGet w => s!"wGet:{w}" | .wPut w => s!"wPut:{w}"

def phStr : Ph → String
  | .prefill => "prefill" | .waiting => "waiting" | .got i => s!"got:{i}"
  | .resetting k w => s!"resetting:{k}:{w}" | .fin w => s!"fin:{w}"

def wStr : W → String
  | .idle => "idle" | .hold (.item i) => s!"hold:{i}" | .hold .stop => "holdStop" | .stopped => "stopped" | .dead => "dead"

/-- `{"m":"pool","T":t,"P":p,"n":k|null,"fails":[…],"forward":b,"trace":[labels]}` →
acceptance, final state, enabled labels in the final state. -/
def pool (j : Json) : Except String Json := do
  let T ← getNat j "T"
  let P ← getNat j "P"
  let n := optNat j "n"
  let fails ← getNatList j "fails"
  let fw := (getBool j "forward").toOption.getD true
  let tr ← getStrList j "trace"
  let lbls ← tr.mapM parseLbl
  let c : Cfg := { T := T, P := P, n := n, fails := fun i => fails.contains i, forward := fw }
  let s0 := init c
  match firstRefused c s0 lbls 0 with
  | some k => return Json.mkObj [("ok", Json.bool false), ("at", toJson k), ("label", Json.str (tr.getD k "?"))]
  | none =>
    match accepts c s0 lbls with
    | none => throw "inconsistent accepts"
    | some s =>
      let allStopped := s.ws.all (· == .stopped)
      let isFin := match s.ph with | .fin _ => true | _ => false
      return Json.mkObj [("ok", Json.bool true), ("ph", Json.str (phStr s.ph)), ("out", natList s.out),
        ("ws", strList (s.ws.map wStr)), ("active", toJson s.active), ("p", toJson s.p),
        ("toProc", toJson s.toProc.length), ("results", toJson s.results.length),
        ("terminal", Json.bool (isFin && allStopped)),
        ("enabled", strList ((enabled c s).map lblStr))]

/-- `{"m":"mpool","T","P","passes":[{"n":k|null,"fails":[…]},…],"trace":["cur:cPut","old:0:wGet:1","new",…]}`:
the pool object over several passes (`Multi`). -/
def mpool (j : Json) : Except String Json := do
  let T ← getNat j "T"
  let P ← getNat j "P"
  let ps ← getArr j "passes"
  let cfgs ← ps.toList.mapM (fun pj => do
    let fails ← getNatList pj "fails"
    pure ({ T := T, P := P, n := optNat pj "n", fails := fun i => fails.contains i, forward := true } : Cfg))
  let dflt : Cfg := { T := T, P := P, n := some 0, fails := fun _ => false, forward := true }
  let cs : Nat → Cfg := fun g => cfgs.getD g dflt
  let tr ← getStrList j "trace"
  let lbls ← tr.mapM (fun s =>
    match s.splitOn ":" with
    | ["new"] => pure MLbl.newPass
    | "cur" :: rest => do pure (MLbl.cur (← parseLbl (":".intercalate rest)))
    | "old" :: g :: rest => match g.toNat? with
      | some k => do pure (MLbl.old k (← parseLbl (":".intercalate rest)))
      | none => throw s!"bad label {s}"
    | _ => throw s!"bad label {s}")
  let m0 := minit cs
  match mfirstRefused cs m0 lbls 0 with
  | some k => return Json.mkObj [("ok", Json.bool false), ("at", toJson k), ("label", Json.str (tr.getD k "?"))]
  | none =>
    match maccepts cs m0 lbls with
    | none => throw "inconsistent maccepts"
    | some m =>
      let fin (s : St) := (match s.ph with | .fin _ => true | _ => false) && s.ws.all (· == .stopped)
      return Json.mkObj [("ok", Json.bool true), ("passes", toJson (m.past.length + 1)),
        ("outs", Json.arr ((m.past ++ [m.cur]).map (fun s => natList s.out)).toArray),
        ("phs", strList ((m.past ++ [m.cur]).map (fun s => phStr s.ph))),
        ("terminal", Json.arr ((m.past ++ [m.cur]).map (fun s => Json.bool (fin s))).toArray)]

end Sedpack.Drv
