import SedpackDriver.Util
import SedpackModel.Version
open Lean
namespace Sedpack.Drv
open Sedpack.Ver

/-- `{"m":"ver","recorded":[a,b,c],"running":[a,b,c]}` -/
def verJ (j : Json) : Except String Json := do
  let r ← getNatList j "recorded"
  let u ← getNatList j "running"
  match r, u with
  | [a, b, c], [x, y, z] => return Json.mkObj [("loads", Json.bool (loads ⟨a, b, c⟩ ⟨x, y, z⟩))]
  | _, _ => throw "bad version"

/-- `{"m":"defaults","dflt":[[field,default],…],"doc":[[field,value],…]}` → dump and load(dump) -/
def defaultsJ (j : Json) : Except String Json := do
  let d ← j.getObjValAs? (List (List Nat)) "dflt"
  let doc ← j.getObjValAs? (List (List Nat)) "doc"
  let pairs (l : List (List Nat)) : List (Nat × Nat) := l.filterMap (fun p => match p with | [a, b] => some (a, b) | _ => none)
  let dfl := fun f => ((pairs d).find? (·.1 = f)).map (·.2) |>.getD 0
  let dumped := dump dfl (pairs doc)
  let loaded := load dfl ((pairs d).map (·.1)) dumped
  let enc (l : List (Nat × Nat)) : Json := Json.arr (l.map (fun p => Json.arr #[toJson p.1, toJson p.2])).toArray
  return Json.mkObj [("dump", enc dumped), ("load", enc loaded)]

end Sedpack.Drv
