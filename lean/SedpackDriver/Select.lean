import SedpackDriver.Util
import SedpackModel.Select
open Lean
namespace Sedpack.Drv
open Sedpack.Sel

/-- `{"m":"select","infos":[[id,md],…],"keep":[ids the predicate accepts]|null,"k":int|null,"limit":nat|null}` -/
def selectJ (j : Json) : Except String Json := do
  let infosJ ← (j.getObjValAs? (List (List Nat)) "infos")
  let infos ← infosJ.mapM (fun p => match p with | [i, m] => pure ({ id := i, md := m } : ShardI) | _ => throw "bad info")
  let keep : Option (List Nat) := (j.getObjValAs? (List Nat) "keep").toOption
  let k := optInt j "k"
  let limit := optNat j "limit"
  let f : Option (ShardI → Bool) := keep.map (fun ks => fun s => ks.contains s.id)
  match select infos f k limit with
  | .error _ => return Json.mkObj [("error", Json.str "emptySelection")]
  | .ok out => return Json.mkObj [("ids", natList (out.map (·.id)))]

end Sedpack.Drv
