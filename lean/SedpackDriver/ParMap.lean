import SedpackDriver.Util
import SedpackModel.ParMap
open Lean
namespace Sedpack.Drv
open Sedpack.PMap

def pmLabels (c : Cfg) : List Lbl :=
  (List.range c.m).flatMap (fun w => [Lbl.wRecv w, Lbl.wSend w]) ++ [Lbl.cNext]

/-- run the model under a pseudo-random schedule (LCG on `seed`) until `next()` returns None,
optionally dropping after `dropAfter` results -/
def pmRun (c : Cfg) (dropAfter : Option Nat) : (fuel : Nat) → St → Nat → Nat → St × Nat
  | 0, s, _, steps => (s, steps)
  | fuel+1, s, seed, steps =>
    if s.ended then (s, steps)
    else
      let s := match dropAfter with
        | some k => if s.out.length ≥ k ∧ ¬ s.dropped then (step c s .cDrop).getD s else s
        | none => s
      let en := (pmLabels c).filter (fun l => (step c s l).isSome)
      match en with
      | [] => (s, steps)
      | _ =>
        let seed' := (seed * 1664525 + 1013904223) % 4294967296
        let l := en.getD ((seed' / 65536) % en.length) .cNext
        pmRun c dropAfter fuel ((step c s l).getD s) seed' (steps + 1)

/-- `{"m":"pmap","threads":T,"n":n,"seed":k,"drop_after":k|null}` → the order in which the model's
`next()` returns the items (as input indices), whether it ended, how many workers are still running -/
def pmapJ (j : Json) : Except String Json := do
  let T ← getNat j "threads"
  let n ← getNat j "n"
  let seed := (optNat j "seed").getD 1
  let da := optNat j "drop_after"
  let m := min T n
  let c : Cfg := { m := m, nq := if m = 0 then 0 else n / m, nr := if m = 0 then 0 else n % m }
  let (s, steps) := pmRun c da (20 * (n + T) + 50) (init c) seed 0
  let alive := ((List.range m).filter (fun w => !(s.exited w))).length
  return Json.mkObj [("out", natList (s.out.map (fun p => p.1 * m + p.2))), ("ended", Json.bool s.ended),
    ("dropped", Json.bool s.dropped), ("alive", toJson alive), ("steps", toJson steps), ("workers", toJson m)]

def pmFirstRefused (c : Cfg) : St → List Lbl → Nat → St × Option Nat
  | s, [], _ => (s, none)
  | s, l :: ls, k => match step c s l with
    | none => (s, some k)
    | some s' => pmFirstRefused c s' ls (k + 1)

def parsePmLbl (j : Json) : Except String Lbl := do
  let a ← (fromJson? j : Except String (Array Json))
  match a.toList with
  | [k] => do
    let ks ← (fromJson? k : Except String String)
    if ks == "n" then pure .cNext else if ks == "d" then pure .cDrop else throw s!"bad label {ks}"
  | [k, w] => do
    let ks ← (fromJson? k : Except String String)
    let wn ← (fromJson? w : Except String Nat)
    if ks == "r" then pure (.wRecv wn) else if ks == "s" then pure (.wSend wn) else throw s!"bad label {ks}"
  | _ => throw "bad label"

/-- `{"m":"pmaptrace","threads":T,"n":n,"trace":[["r",w]|["s",w]|["n"]|["d"],…]}` → does M-PMAP accept the observed order of
channel operations; where it refuses; the items `next()` has returned in the model after the trace -/
def pmapTraceJ (j : Json) : Except String Json := do
  let T ← getNat j "threads"
  let n ← getNat j "n"
  let trJ ← getArr j "trace"
  let tr ← trJ.toList.mapM parsePmLbl
  let m := min T n
  let c : Cfg := { m := m, nq := if m = 0 then 0 else n / m, nr := if m = 0 then 0 else n % m }
  let (s, at_) := pmFirstRefused c (init c) tr 0
  let alive := ((List.range m).filter (fun w => !(s.exited w))).length
  return Json.mkObj [("ok", Json.bool at_.isNone), ("at", toJson (at_.getD tr.length)),
    ("out", natList (s.out.map (fun p => p.1 * m + p.2))), ("ended", Json.bool s.ended), ("alive", toJson alive)]

def pmFaultRefused (f : FCfg) : FSt → List Lbl → Nat → FSt × Option Nat
  | t, [], _ => (t, none)
  | t, l :: ls, k => match fstep f t l with
    | none => (t, some k)
    | some t' => pmFaultRefused f t' ls (k + 1)

/-- `{"m":"pmapfault","threads":T,"n":n,"fails":[item,…],"trace":[…]}` → replay of a recorded order of channel operations in
which the mapped function panics on the items `fails` (repaired `next`: a dead worker that was not told to finish is a failure):
accepted?, where refused, did `next()` fail, did it end, what had been returned -/
def pmapFaultJ (j : Json) : Except String Json := do
  let T ← getNat j "threads"
  let n ← getNat j "n"
  let fails ← getNatList j "fails"
  let trJ ← getArr j "trace"
  let tr ← trJ.toList.mapM parsePmLbl
  let m := min T n
  let c : Cfg := { m := m, nq := if m = 0 then 0 else n / m, nr := if m = 0 then 0 else n % m }
  let f : FCfg := { c := c, fails := fun a b => fails.contains (a * m + b), propagate := true }
  let (t, at_) := pmFaultRefused f (finit f) tr 0
  return Json.mkObj [("ok", Json.bool at_.isNone), ("at", toJson (at_.getD tr.length)), ("failed", Json.bool t.failed),
    ("ended", Json.bool t.s.ended), ("out", natList (t.s.out.map (fun p => p.1 * m + p.2)))]

end Sedpack.Drv
