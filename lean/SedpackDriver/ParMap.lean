import SedpackDriver.Util
import SedpackModel.ParMap
open Lean
namespace Sedpack.Drv
open Sedpack.PMap

def pmLabels (c : Cfg) : List Lbl :=
  (List.range c.m).flatMap (fun w => [Lbl.wRecv w, Lbl.wSend w]) ++ [Lbl.cNext]

/-- run the model under a pseudo-random schedule (LCG on `seed`) until `next()` returns None,
optionally dropping after `dropAfter` results -/
def pmRun (c : Cfg) (dropAfter : Option Nat) : (fuel : Nat) → St → Nat → Nat → St × Nat
  | 0, s, _, steps => (s, steps)
  | fuel+1, s, seed, steps =>
    if s.ended then (s, steps)
    else
      let s := match dropAfter with
        | some k => if s.out.length ≥ k ∧ ¬ s.dropped then (step c s .cDrop).getD s else s
        | none => s
      let en := (pmLabels c).filter (fun l => (step c s l).isSome)
      match en with
      | [] => (s, steps)
      | _ =>
        let seed' := (seed * 1664525 + 1013904223) % 4294967296
        let l := en.getD ((seed' / 65536) % en.length) .cNext
        pmRun c dropAfter fuel ((step c s l).getD s) seed' (steps + 1)

/-- `{"m":"pmap","threads":T,"n":n,"seed":k,"drop_after":k|null}` → the order in which the model's
`next()` returns the items (as input indices), whether it ended, how many workers are still running -/
def pmapJ (j : Json) : Except String Json := do
  let T ← getNat j "threads"
  let n ← getNat j "n"
  let seed := (optNat j "seed").getD 1
  let da := optNat j "drop_after"
  let m := min T n
  let c : Cfg := { m := m, nq := if m = 0 then 0 else n / m, nr := if m = 0 then 0 else n % m }
  let (s, steps) := pmRun c da (20 * (n + T) + 50) (init c) seed 0
  let alive := ((List.range m).filter (fun w => !(s.exited w))).length
  return Json.mkObj [("out", natList (s.out.map (fun p => p.1 * m + p.2))), ("ended", Json.bool s.ended),
    ("dropped", Json.bool s.dropped), ("alive", toJson alive), ("steps", toJson steps), ("workers", toJson m)]

end Sedpack.Drv
