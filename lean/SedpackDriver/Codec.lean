import SedpackDriver.Util
import SedpackModel.Codec
import SedpackProps.C01Gen
open Lean
namespace Sedpack.Drv
open Sedpack.Codec

def nestedGet : Json → List Nat → Nat
  | j, [] => ((fromJson? j : Except String Nat).toOption).getD 0
  | Json.arr a, i :: is => match a[i]? with | some x => nestedGet x is | none => 0
  | _, _ => 0

def tagOf : String → Except String Tag
  | "=" => pure .native | ">" => pure .big | "<" => pure .little | "|" => pure .na
  | s => throw s!"bad tag {s}"
def hostOf : String → Except String Host
  | "big" => pure .bigEndian | "little" => pure .littleEndian
  | s => throw s!"bad host {s}"

/-- `{"m":"codec","op":"attr","tag","host","k","shape","nested"}` → stored bytes, and the decoded element at every index;
`op:"swaps"`; `op:"pattern"` / `"ofpattern"`; `op:"ravel"`; `op:"tables"`. -/
def codecJ (j : Json) : Except String Json := do
  let op ← getStr j "op"
  match op with
  | "attr" =>
    let t ← tagOf (← getStr j "tag")
    let h ← hostOf (← getStr j "host")
    let k ← getNat j "k"
    let shape ← getNatList j "shape"
    let nested ← j.getObjVal? "nested"
    let elem := nestedGet nested
    let bytes := encodeAttr t h k shape elem
    let idxs := indices shape
    let dec := idxs.map (fun idx => match decodeAttr k shape bytes idx with | some v => toJson v | none => Json.null)
    return Json.mkObj [("bytes", natList bytes), ("indices", Json.arr (idxs.map natList).toArray), ("decoded", Json.arr dec.toArray)]
  | "decode" =>
    let k ← getNat j "k"
    let shape ← getNatList j "shape"
    let bytes ← getNatList j "bytes"
    let idxs := indices shape
    let dec := idxs.map (fun idx => match decodeAttr k shape bytes idx with | some v => toJson v | none => Json.null)
    return Json.mkObj [("indices", Json.arr (idxs.map natList).toArray), ("decoded", Json.arr dec.toArray)]
  | "swaps" =>
    let t ← tagOf (← getStr j "tag")
    let h ← hostOf (← getStr j "host")
    return Json.mkObj [("swaps", Json.bool (writerSwaps t h))]
  | "pattern" =>
    let k : IntKind := ⟨← getNat j "bits", ← getBool j "signed"⟩
    let v ← getInt j "v"
    return Json.mkObj [("pattern", toJson (toPattern k v)), ("holds", Json.bool (decide (k.holds v)))]
  | "ofpattern" =>
    let k : IntKind := ⟨← getNat j "bits", ← getBool j "signed"⟩
    let p ← getNat j "p"
    return Json.mkObj [("v", toJson (ofPattern k p))]
  | "ravel" =>
    let shape ← getNatList j "shape"
    let idx ← getNatList j "idx"
    return Json.mkObj [("pos", toJson (ravel shape idx)), ("inb", Json.bool (decide (InBounds shape idx))), ("size", toJson (size shape))]
  | "tables" =>
    let pairs (l : List (String × String)) : Json := Json.arr (l.map (fun p => Json.arr #[Json.str p.1, Json.str p.2])).toArray
    return Json.mkObj [("tfrecSupported", strList Gen.tfrecSupported),
      ("compressions", Json.arr (Gen.compressions.map (fun p => Json.arr #[Json.str p.1, strList p.2])).toArray),
      ("rust", pairs Gen.rustFromStr), ("safe", pairs Gen.npSafeIntCasts)]
  | _ => throw s!"bad op {op}"

end Sedpack.Drv
