import SedpackDriver.Util
import SedpackModel.Iter
open Lean
namespace Sedpack.Drv
open Sedpack.Iter

def phaseStr : SBPhase → String
  | .fill => "fill" | .main => "main" | .flush => "flush" | .done => "done" | .failed => "failed"

def parseSB (j : Json) : Except String SBLbl := do
  let a ← (fromJson? j : Except String (Array Json))
  match a.toList with
  | [Json.str "pull", Json.null] => pure (.pull none)
  | [Json.str "pull", x] => do let n ← (fromJson? x : Except String Nat); pure (.pull (some n))
  | [Json.str "yield", x] => do let n ← (fromJson? x : Except String Nat); pure (.yield n)
  | [Json.str "finish"] => pure .finish
  | _ => throw s!"bad sb label {j}"

/-- replay returning also the maximal `pulled - yielded` seen along the run -/
def sbReplay : SB → List SBLbl → Nat → Nat → (Option SB × Nat × Nat)
  | s, [], _, mx => (some s, 0, mx)
  | s, l :: ls, k, mx =>
    match SB.step s l with
    | none => (none, k, mx)
    | some s' => sbReplay s' ls (k+1) (max mx (s'.pulled.length - s'.out.length))

/-- `{"m":"sb","b":b,"trace":[["pull",x|null],["yield",x],["finish"]]}` -/
def sb (j : Json) : Except String Json := do
  let b ← getNat j "b"
  let tr ← getArr j "trace"
  let lbls ← tr.toList.mapM parseSB
  match sbReplay (SB.init b) lbls 0 0 with
  | (none, k, _) => return Json.mkObj [("ok", Json.bool false), ("at", toJson k)]
  | (some s, _, mx) =>
    return Json.mkObj [("ok", Json.bool true), ("phase", Json.str (phaseStr s.phase)), ("out", natList s.out),
      ("pulled", natList s.pulled), ("buf", toJson s.buf.length), ("max_ahead", toJson mx)]

def parseRR (j : Json) : Except String RRLbl := do
  let a ← (fromJson? j : Except String (Array Json))
  match a.toList with
  | [Json.str "open", id, es] => do
    let i ← (fromJson? id : Except String Nat); let l ← (fromJson? es : Except String (List Nat)); pure (.openInner i l)
  | [Json.str "outerEnd"] => pure .outerEnd
  | [Json.str "yield", id, x] => do
    let i ← (fromJson? id : Except String Nat); let n ← (fromJson? x : Except String Nat); pure (.yield i n)
  | [Json.str "innerEnd", id] => do let i ← (fromJson? id : Except String Nat); pure (.innerEnd i)
  | [Json.str "finish"] => pure .finish
  | _ => throw s!"bad rr label {j}"

def rrReplay : RR → List RRLbl → Nat → Nat → (Option RR × Nat × Nat)
  | s, [], _, mx => (some s, 0, mx)
  | s, l :: ls, k, mx =>
    match RR.step s l with
    | none => (none, k, mx)
    | some s' => rrReplay s' ls (k+1) (max mx s'.open_.length)

/-- `{"m":"rr","b":b,"trace":[["open",id,[…]],["outerEnd"],["yield",id,x],["innerEnd",id],["finish"]]}` -/
def rr (j : Json) : Except String Json := do
  let b ← getNat j "b"
  let tr ← getArr j "trace"
  let lbls ← tr.toList.mapM parseRR
  match rrReplay (RR.init b) lbls 0 0 with
  | (none, k, _) => return Json.mkObj [("ok", Json.bool false), ("at", toJson k)]
  | (some s, _, mx) =>
    return Json.mkObj [("ok", Json.bool true), ("finished", Json.bool s.finished), ("outerDone", Json.bool s.outerDone),
      ("out", natList s.out), ("pulledAll", natList s.pulledAll), ("opened", toJson s.opened), ("closed", toJson s.closed),
      ("open", toJson s.open_.length), ("max_open", toJson mx)]

/-- `{"m":"batches","T":t,"xs":[…]}` -/
def batchesJ (j : Json) : Except String Json := do
  let T ← getNat j "T"
  let xs ← getNatList j "xs"
  return Json.mkObj [("batches", Json.arr ((batches T (xs.length + 1) xs).map natList).toArray)]

end Sedpack.Drv
