import SedpackDriver.Util
import SedpackModel.Reg
open Lean
namespace Sedpack.Drv
open Sedpack.Reg

/-- `{"m":"reg","handles":H,"events":[["new",h,k,[items…]] | ["next",h] | ["exit",h], …]}` → what every handle 0..H-1 has been handed
after the history, or `{"panic": index}` when a `next` / `exit` finds no entry (the real code panics there) -/
def regJ (j : Json) : Except String Json := do
  let nh ← getNat j "handles"
  let evs ← j.getObjValAs? (Array Json) "events"
  let mut s : St := {}
  let mut idx := 0
  for e in evs do
    let a ← e.getArr?
    let tag ← (a[0]?.getD Json.null).getStr?
    let h ← (a[1]?.getD Json.null).getNat?
    let lbl ← match tag with
      | "new" => do
        let k ← (a[2]?.getD Json.null).getNat?
        let its ← fromJson? (α := List Nat) (a[3]?.getD Json.null)
        pure (Lbl.new h k its)
      | "next" => pure (Lbl.next h)
      | "exit" => pure (Lbl.exit h)
      | _ => throw s!"bad event {tag}"
    match step s lbl with
    | some s' => s := s'
    | none => return Json.mkObj [("panic", toJson idx)]
    idx := idx + 1
  return Json.mkObj [("got", Json.arr ((List.range nh).map (fun h => toJson (s.got h))).toArray)]

end Sedpack.Drv
