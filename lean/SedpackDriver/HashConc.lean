import SedpackDriver.Util
import SedpackModel.HashConc
open Lean
namespace Sedpack.Drv
open Sedpack.HashConc

/-- `{"m":"hashconc","files":[[[chunk…],…],…],"sched":[["r",i] | ["f",i], …]}` → is the observed interleaving of the calls' read / feed
steps a run of M-HASH-CONC (private buffers), and what has every call fed its hash object -/
def hashConcJ (j : Json) : Except String Json := do
  let files ← j.getObjValAs? (List (List (List Nat))) "files"
  let sched ← j.getObjValAs? (Array Json) "sched"
  let mut cs := start files
  let mut idx := 0
  for e in sched do
    let a ← e.getArr?
    let tag ← (a[0]?.getD Json.null).getStr?
    let i ← (a[1]?.getD Json.null).getNat?
    let lbl ← match tag with
      | "r" => pure (Lbl.read i)
      | "f" => pure (Lbl.feed i)
      | _ => throw s!"bad label {tag}"
    match stepP cs lbl with
    | some cs' => cs := cs'
    | none => return Json.mkObj [("ok", Json.bool false), ("at", toJson idx)]
    idx := idx + 1
  return Json.mkObj [("ok", Json.bool true), ("acc", toJson (cs.map (·.acc))),
                     ("finished", toJson (cs.map (fun c => c.todo.isEmpty && c.buf.isNone)))]

end Sedpack.Drv
