import Lean.Data.Json
open Lean
namespace Sedpack.Drv

def getNat (j : Json) (k : String) : Except String Nat := j.getObjValAs? Nat k
def getInt (j : Json) (k : String) : Except String Int := j.getObjValAs? Int k
def getStr (j : Json) (k : String) : Except String String := j.getObjValAs? String k
def getBool (j : Json) (k : String) : Except String Bool := j.getObjValAs? Bool k
def getArr (j : Json) (k : String) : Except String (Array Json) := j.getObjValAs? (Array Json) k
def getNatList (j : Json) (k : String) : Except String (List Nat) := do
  let a ← getArr j k
  a.toList.mapM (fun x => (fromJson? x : Except String Nat))
def getStrList (j : Json) (k : String) : Except String (List String) := do
  let a ← getArr j k
  a.toList.mapM (fun x => (fromJson? x : Except String String))
def natList (l : List Nat) : Json := Json.arr (l.map (fun n => toJson n)).toArray
def strList (l : List String) : Json := Json.arr (l.map Json.str).toArray
def optNat (j : Json) (k : String) : Option Nat := (j.getObjValAs? Nat k).toOption
def optInt (j : Json) (k : String) : Option Int := (j.getObjValAs? Int k).toOption

end Sedpack.Drv
