import SedpackDriver.Util
import SedpackModel.Filler
open Lean
namespace Sedpack.Drv
open Sedpack.Fill

def outStr : Out → String
  | .ok => "ok" | .rejected => "rejected" | .closeFailed => "closeFailed"

/-- `{"m":"fill","eps":e,"attachFirst":b,"ops":[[split,md,ex,ok01],…]}` →
`{"outs":[…],"view":[[split0 shards],[split1 …],[split2 …]]}`; a shard is `[md,n,[ex…]]`,
`null` when `__exit__` would raise for that split. -/
def fill (j : Json) : Except String Json := do
  let eps ← getNat j "eps"
  let af := (getBool j "attachFirst").toOption.getD false
  let opsJ ← getArr j "ops"
  let ops ← opsJ.toList.mapM (fun o => do
    let l ← (fromJson? o : Except String (List Nat))
    match l with
    | [s, md, ex, ok] => pure (Op.write s md ex (ok != 0))
    | _ => throw "bad op")
  let c : Cfg := { eps := eps, attachFirst := af }
  let r := run c St.init ops
  let viewJ (sp : Nat) : Json :=
    match view (r.1 sp) with
    | none => Json.null
    | some v => Json.arr (v.map (fun (md, n, exs) => Json.arr #[toJson md, toJson n, natList exs])).toArray
  return Json.mkObj [("outs", strList (r.2.map outStr)),
                     ("view", Json.arr #[viewJ 0, viewJ 1, viewJ 2])]

end Sedpack.Drv
