import SedpackDriver.Util
import SedpackModel.Hash
open Lean
namespace Sedpack.Drv

/-- `{"m":"hash","B":b,"len":n,"wants":[…]}` → slice lengths the model feeds to the hash objects.
Content byte `i` is `i % 251` (the harness writes the same file). -/
def hash (j : Json) : Except String Json := do
  let B ← getNat j "B"
  let len ← getNat j "len"
  let wants ← getNatList j "wants"
  let content := (List.range len).map (· % 251)
  let want := fun k => wants.getD k B
  let cs := Hash.chunks B content want (len + 1) 0 0
  return Json.mkObj [("chunks", natList (cs.map List.length)),
                     ("concat_ok", Json.bool (cs.flatten == content)),
                     ("sum", toJson (cs.map List.length).sum)]

end Sedpack.Drv
