import SedpackModel.Iter
/-! Invariant of the round-robin monitor. -/
namespace Sedpack.Iter


def restOf (o : List (Nat × List Nat)) : List Nat := o.flatMap (·.2)
def idsOf (o : List (Nat × List Nat)) : List Nat := o.map (·.1)

theorem map_eq_self_of {α} (f : α → α) : ∀ (l : List α), (∀ q ∈ l, f q = q) → l.map f = l := by
  intro l; induction l with
  | nil => intro _; rfl
  | cons x xs ih =>
    intro h
    simp only [List.map_cons]
    rw [h x (List.mem_cons_self), ih (fun q hq => h q (List.mem_cons_of_mem _ hq))]

theorem filter_eq_self_of {α} (p : α → Bool) : ∀ (l : List α), (∀ q ∈ l, p q = true) → l.filter p = l := by
  intro l h; exact List.filter_eq_self.mpr h

/-- effect of `yield` on the slot list -/
theorem find_yield (a id y : Nat) (rest : List Nat) : ∀ (o : List (Nat × List Nat)) (id' : Nat), (idsOf o).Nodup →
    o.find? (·.1 = id) = some (id', y :: rest) →
    (restOf (o.map (fun p => if p.1 = id then (id, rest) else p))).count a + [y].count a = (restOf o).count a ∧
    idsOf (o.map (fun p => if p.1 = id then (id, rest) else p)) = idsOf o := by
  intro o
  induction o with
  | nil => intro id' _ h; simp at h
  | cons p ps ih =>
    intro id' hnd h
    simp only [idsOf, List.map_cons, List.nodup_cons] at hnd
    simp only [List.find?_cons] at h
    by_cases hp : p.1 = id
    · simp only [hp, decide_true] at h
      cases h
      have htail : ps.map (fun p => if p.1 = id then (id, rest) else p) = ps := by
        apply map_eq_self_of
        intro q hq
        have : q.1 ≠ id := by
          intro hq1; apply hnd.1
          simp only [] at hp
          rw [hp, ← hq1]; exact List.mem_map.mpr ⟨q, hq, rfl⟩
        simp [this]
      simp only [] at hp
      refine ⟨?_, ?_⟩
      · simp only [List.map_cons, hp, if_true, htail, restOf, List.flatMap_cons, List.count_append,
          List.count_cons, List.count_nil]
        omega
      · simp only [idsOf, List.map_cons, hp, if_true, htail]
    · have hdec : decide (p.1 = id) = false := by simpa using hp
      simp only [hdec] at h
      obtain ⟨h1, h2⟩ := ih id' hnd.2 h
      refine ⟨?_, ?_⟩
      · simp only [List.map_cons, hp, if_false, restOf, List.flatMap_cons, List.count_append] at h1 ⊢
        omega
      · simp only [idsOf, List.map_cons, hp, if_false] at h2 ⊢
        rw [h2]

/-- effect of dropping an exhausted inner iterator -/
theorem find_innerEnd0 (a id : Nat) : ∀ (o : List (Nat × List Nat)) (id' : Nat), (idsOf o).Nodup →
    o.find? (·.1 = id) = some (id', []) →
    (restOf (o.filter (·.1 ≠ id))).count a = (restOf o).count a ∧
    (o.filter (·.1 ≠ id)).length + 1 = o.length ∧
    (idsOf (o.filter (·.1 ≠ id))).Nodup ∧ (∀ i ∈ idsOf (o.filter (·.1 ≠ id)), i ∈ idsOf o) := by
  intro o
  induction o with
  | nil => intro id' _ h; simp at h
  | cons p ps ih =>
    intro id' hnd h
    simp only [idsOf, List.map_cons, List.nodup_cons] at hnd
    simp only [List.find?_cons] at h
    by_cases hp : p.1 = id
    · simp only [hp, decide_true] at h
      cases h
      simp only [] at hp
      have htail : ps.filter (·.1 ≠ id) = ps := by
        apply filter_eq_self_of
        intro q hq
        have : q.1 ≠ id := by
          intro hq1; apply hnd.1
          rw [hp, ← hq1]; exact List.mem_map.mpr ⟨q, hq, rfl⟩
        simpa using this
      have hf : List.filter (fun x => decide (x.1 ≠ id)) ((id', []) :: ps) = ps := by
        simp only [List.filter_cons, hp]
        simpa using htail
      rw [hf]
      refine ⟨by simp [restOf], by simp, hnd.2, ?_⟩
      intro i hi; simp only [idsOf, List.map_cons, List.mem_cons]; right; exact hi
    · have hdec : decide (p.1 = id) = false := by simpa using hp
      simp only [hdec] at h
      obtain ⟨h1, h2, h3, h4⟩ := ih id' hnd.2 h
      have hf : List.filter (fun x => decide (x.1 ≠ id)) (p :: ps) = p :: ps.filter (fun x => decide (x.1 ≠ id)) := by
        simp [List.filter_cons, hp]
      rw [hf]
      refine ⟨?_, by simp only [List.length_cons]; omega, ?_, ?_⟩
      · simp only [restOf, List.flatMap_cons, List.count_append] at h1 ⊢; omega
      · simp only [idsOf, List.map_cons, List.nodup_cons]
        refine ⟨?_, h3⟩
        intro hmem; exact hnd.1 (h4 _ hmem)
      · intro i hi
        simp only [idsOf, List.map_cons, List.mem_cons] at hi ⊢
        rcases hi with hi | hi
        · left; exact hi
        · right; exact h4 i hi

theorem find_innerEnd (a id : Nat) (o : List (Nat × List Nat)) (id' : Nat) (hnd : (idsOf o).Nodup)
    (hf : o.find? (·.1 = id) = some (id', [])) :
    (restOf (o.filter (fun x => !decide (x.1 = id)))).count a = (restOf o).count a ∧
    (o.filter (fun x => !decide (x.1 = id))).length + 1 = o.length ∧
    (idsOf (o.filter (fun x => !decide (x.1 = id)))).Nodup ∧
    (∀ i ∈ idsOf (o.filter (fun x => !decide (x.1 = id))), i ∈ idsOf o) := by
  have he : (fun x : Nat × List Nat => !decide (x.1 = id)) = (fun x => decide (x.1 ≠ id)) := by funext x; simp
  rw [he]; exact find_innerEnd0 a id o id' hnd hf

structure RRInv (s : RR) : Prop where
  idsLt : ∀ i ∈ idsOf s.open_, i < s.opened
  nodup : (idsOf s.open_).Nodup
  cons : ∀ a, s.pulledAll.count a = s.out.count a + (restOf s.open_).count a
  cnt : s.opened = s.closed + s.open_.length
  cap : s.open_.length + (if s.refill then 1 else 0) ≤ s.b
  fillLt : s.filling = true → s.open_.length < s.b ∧ s.refill = false
  allOpened : 0 < s.b → s.filling = false → s.refill = false → s.open_ = [] → s.outerDone = true

theorem rr_inv_init (b : Nat) : RRInv (RR.init b) := by
  constructor <;> simp [RR.init, idsOf, restOf]
  intro h; omega

end Sedpack.Iter

namespace Sedpack.Iter

theorem rr_open_append (s : RR) (id : Nat) (es : List Nat) (hid : id = s.opened) (hi : RRInv s) :
    (∀ i ∈ idsOf (s.open_ ++ [(id, es)]), i < s.opened + 1) ∧ (idsOf (s.open_ ++ [(id, es)])).Nodup ∧
    (∀ a, (s.pulledAll ++ es).count a = s.out.count a + (restOf (s.open_ ++ [(id, es)])).count a) := by
  refine ⟨?_, ?_, ?_⟩
  · intro i hmem
    simp only [idsOf, List.map_append, List.map_cons, List.map_nil, List.mem_append, List.mem_singleton] at hmem
    rcases hmem with h | h
    · have := hi.idsLt i h; omega
    · omega
  · simp only [idsOf, List.map_append, List.map_cons, List.map_nil]
    rw [List.nodup_append]
    refine ⟨hi.nodup, by simp, ?_⟩
    intro a ha b hb
    simp only [List.mem_singleton] at hb
    have := hi.idsLt a ha
    omega
  · intro a
    have := hi.cons a
    simp only [restOf, List.flatMap_append, List.flatMap_cons, List.flatMap_nil, List.count_append, List.append_nil] at this ⊢
    omega

theorem rr_inv_step (s s' : RR) (l : RRLbl) (hi : RRInv s) (hs : RR.step s l = some s') : RRInv s' ∧ s'.b = s.b := by
  cases l with
  | openInner id es =>
    simp only [RR.step] at hs
    split at hs
    · simp at hs
    · rename_i hc
      have hid : id = s.opened := by
        rcases Nat.decEq id s.opened with h | h
        · exfalso; apply hc; right; exact h
        · exact h
      obtain ⟨h1, h2, h3⟩ := rr_open_append s id es hid hi
      split at hs
      · rename_i hfill
        simp at hs; subst hs
        obtain ⟨hlt, hrf⟩ := hi.fillLt hfill
        refine ⟨?_, rfl⟩
        constructor
        · exact h1
        · exact h2
        · exact h3
        · simp only [List.length_append, List.length_singleton]; have := hi.cnt; omega
        · simp only [List.length_append, List.length_singleton, hrf]; simp; omega
        · intro h; simp only [decide_eq_true_eq] at h
          exact ⟨by simp only [List.length_append, List.length_singleton]; omega, hrf⟩
        · intro _ _ _ h; simp at h
      · split at hs
        · rename_i hnf hrf
          simp at hs; subst hs
          have hcap := hi.cap
          simp only [hrf, if_true] at hcap
          refine ⟨?_, rfl⟩
          constructor
          · exact h1
          · exact h2
          · exact h3
          · simp only [List.length_append, List.length_singleton]; have := hi.cnt; omega
          · simp only [List.length_append, List.length_singleton]; simp; omega
          · intro h; simp only [] at h; exact absurd h hnf
          · intro _ _ _ h; simp at h
        · simp at hs
  | outerEnd =>
    simp only [RR.step] at hs
    split at hs
    · simp at hs
    · split at hs
      · rename_i hfill
        simp at hs; subst hs
        obtain ⟨hlt, hrf⟩ := hi.fillLt hfill
        refine ⟨?_, rfl⟩
        exact ⟨hi.idsLt, hi.nodup, hi.cons, hi.cnt, hi.cap, by intro h; simp at h, by intro _ _ _ _; rfl⟩
      · split at hs
        · rename_i hnf hrf
          simp at hs; subst hs
          have hcap := hi.cap
          refine ⟨?_, rfl⟩
          exact ⟨hi.idsLt, hi.nodup, hi.cons, hi.cnt, by simp only []; simp; split at hcap <;> omega,
            by intro h; simp only [] at h; exact absurd h hnf, by intro _ _ _ _; rfl⟩
        · simp at hs
  | yield id x =>
    simp only [RR.step] at hs
    split at hs
    · simp at hs
    · rename_i hc
      split at hs
      · rename_i id' y rest hfind
        split at hs
        · rename_i hxy
          simp at hs; subst hs
          refine ⟨?_, rfl⟩
          have hnf : s.filling = false := by
            cases hf : s.filling
            · rfl
            · exfalso; apply hc; right; left; exact hf
          have hrf : s.refill = false := by
            cases hf : s.refill
            · rfl
            · exfalso; apply hc; right; right; exact hf
          constructor
          · intro i hmem; rw [(find_yield 0 id y rest s.open_ id' hi.nodup hfind).2] at hmem; exact hi.idsLt i hmem
          · rw [(find_yield 0 id y rest s.open_ id' hi.nodup hfind).2]; exact hi.nodup
          · intro a
            have h1 := (find_yield a id y rest s.open_ id' hi.nodup hfind).1
            have := hi.cons a
            subst hxy
            simp only [] at h1 ⊢
            simp only [List.count_append, List.count_cons, List.count_nil] at h1 ⊢
            omega
          · simp only [List.length_map]; exact hi.cnt
          · simp only [List.length_map]; exact hi.cap
          · intro h; simp only [] at h; rw [hnf] at h; cases h
          · intro hb _ _ h
            simp only [] at h
            have : s.open_ = [] := by
              cases ho : s.open_ with
              | nil => rfl
              | cons p ps => rw [ho] at h; simp at h
            rw [this] at hfind; simp at hfind
        · simp at hs
      · simp at hs
  | innerEnd id =>
    simp only [RR.step] at hs
    split at hs
    · simp at hs
    · rename_i hc
      split at hs
      · rename_i id' hfind
        simp at hs; subst hs
        refine ⟨?_, rfl⟩
        have hnf : s.filling = false := by
          cases hf : s.filling
          · rfl
          · exfalso; apply hc; right; left; exact hf
        have hrf : s.refill = false := by
          cases hf : s.refill
          · rfl
          · exfalso; apply hc; right; right; exact hf
        have hcap := hi.cap
        simp only [hrf] at hcap
        constructor
        · intro i hmem
          exact hi.idsLt i ((find_innerEnd 0 id s.open_ id' hi.nodup hfind).2.2.2 i hmem)
        · exact (find_innerEnd 0 id s.open_ id' hi.nodup hfind).2.2.1
        · intro a
          simp only []
          rw [(find_innerEnd a id s.open_ id' hi.nodup hfind).1]; exact hi.cons a
        · have := (find_innerEnd 0 id s.open_ id' hi.nodup hfind).2.1; have := hi.cnt; simp only []; omega
        · have := (find_innerEnd 0 id s.open_ id' hi.nodup hfind).2.1; simp only []; simp; simp at hcap; omega
        · intro h; simp only [] at h; rw [hnf] at h; cases h
        · intro _ _ h; simp at h
      · simp at hs
  | finish =>
    simp only [RR.step] at hs
    split at hs
    · rename_i hc
      simp at hs; subst hs
      refine ⟨?_, rfl⟩
      exact ⟨hi.idsLt, hi.nodup, hi.cons, hi.cnt, hi.cap, hi.fillLt, hi.allOpened⟩
    · simp at hs

inductive RRReach (b : Nat) : RR → Prop
  | init : RRReach b (RR.init b)
  | step {s s' l} : RRReach b s → RR.step s l = some s' → RRReach b s'

theorem rr_inv_reach (b : Nat) (s : RR) (h : RRReach b s) : RRInv s ∧ s.b = b := by
  induction h with
  | init => exact ⟨rr_inv_init b, rfl⟩
  | step _ hs ih =>
    obtain ⟨h1, h2⟩ := rr_inv_step _ _ _ ih.1 hs
    exact ⟨h1, by rw [h2, ih.2]⟩

end Sedpack.Iter
