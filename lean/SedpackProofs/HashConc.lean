import SedpackModel.HashConc
/-! Invariant of M-HASH-CONC with private buffers: for every call, fed ++ buffered ++ unread = the file. -/
namespace Sedpack.HashConc

theorem stepP_content (cs cs' : List Call) (l : Lbl) (h : stepP cs l = some cs') :
    cs'.map Call.content = cs.map Call.content := by
  cases l with
  | read i =>
    simp only [stepP] at h
    split at h
    · rename_i c hc
      split at h
      · rename_i ch rest hb ht
        injection h with h; subst h
        apply List.ext_getElem?
        intro k
        by_cases hk : k = i
        · subst hk
          obtain ⟨hlt, hck⟩ := List.getElem?_eq_some_iff.mp hc
          simp [hlt, Call.content, hck, hb, ht]
        · simp [List.getElem?_map, List.getElem?_set, Ne.symm hk]
      · cases h
    · cases h
  | feed i =>
    simp only [stepP] at h
    split at h
    · rename_i c hc
      split at h
      · rename_i ch hb
        injection h with h; subst h
        apply List.ext_getElem?
        intro k
        by_cases hk : k = i
        · subst hk
          obtain ⟨hlt, hck⟩ := List.getElem?_eq_some_iff.mp hc
          simp [hlt, Call.content, hck, hb]
        · simp [List.getElem?_map, List.getElem?_set, Ne.symm hk]
      · cases h
    · cases h

theorem runP_content (ls : List Lbl) (cs cs' : List Call) (h : runP cs ls = some cs') :
    cs'.map Call.content = cs.map Call.content := by
  induction ls generalizing cs with
  | nil => simp [runP] at h; subst h; rfl
  | cons l ls ih =>
    simp only [runP] at h
    cases hs : stepP cs l with
    | none => simp [hs] at h
    | some c1 =>
      simp [hs] at h
      rw [ih c1 h, stepP_content cs c1 l hs]

end Sedpack.HashConc
