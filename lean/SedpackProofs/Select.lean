import SedpackModel.Select
namespace Sedpack.Sel

theorem limitLoop_sublist (n : Nat) : ∀ (l : List ShardI) (c : Nat → Nat), (limitLoop n l c).Sublist l := by
  intro l
  induction l with
  | nil => intro c; simp [limitLoop]
  | cons s rest ih =>
    intro c
    simp only [limitLoop]
    split
    · exact (ih _).cons₂ s
    · exact (ih _).cons s

/-- the loop keeps, of the shards with metadata `m`, exactly the first `n - (already counted)` -/
theorem limitLoop_filter (n m : Nat) : ∀ (l : List ShardI) (c : Nat → Nat),
    (limitLoop n l c).filter (fun s => s.md = m) = (l.filter (fun s => s.md = m)).take (n - c m) := by
  intro l
  induction l with
  | nil => intro c; simp [limitLoop]
  | cons s rest ih =>
    intro c
    simp only [limitLoop]
    by_cases hm : s.md = m
    · subst hm
      by_cases hle : c s.md + 1 ≤ n
      · simp only [hle, if_true, List.filter_cons, decide_true, ih]
        have : n - c s.md = (n - (c s.md + 1)) + 1 := by omega
        rw [this, List.take_succ_cons]
      · simp only [hle, if_false, List.filter_cons, decide_true, ih, if_true]
        have h1 : n - (c s.md + 1) = 0 := by omega
        have h2 : n - c s.md = 0 := by omega
        simp [h1, h2]
    · have hd : decide (s.md = m) = false := by simpa using hm
      have hc : (fun x => if x = s.md then c s.md + 1 else c x) m = c m := by
        have : ¬ m = s.md := fun h => hm h.symm
        simp [this]
      split
      · simp only [List.filter_cons, hd, ih, hc]; simp
      · simp only [List.filter_cons, hd, ih, hc]; simp

theorem pySliceTo_prefix (xs : List α) (k : Int) : pySliceTo xs k <+: xs := by
  unfold pySliceTo; split <;> exact List.take_prefix _ _

end Sedpack.Sel
