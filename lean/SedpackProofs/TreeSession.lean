import SedpackProofs.TreeMerge
/-! Sessions over a dataset: appending closed shards, then merging per split, keeps every split's
info exact — for every history. -/
namespace Sedpack.Tree

structure Good (H : SList → Nat) (B : Nat) (ds : DS) : Prop where
  wf : WF ds.fs
  depth : DepthOK ds.fs B
  exact : ∀ s k, ds.splits s = some k → k.dir = [s] ∧ Exact H ds.fs k

theorem sumF_append (a b : List Shard) : sumF (a ++ b) = sumF a + sumF b := by simp [sumF]

theorem appendShards_wf (fs : FS) (d : Dir) (new : List Shard) (h : WF fs) : WF (appendShards fs d new) := by
  intro x l hx
  simp only [appendShards] at hx
  by_cases hxd : x = d
  · subst hxd
    rw [set_same] at hx; cases hx
    have hroot : WFL x ((fs x).getD {}) := by
      cases hfd : fs x with
      | none => simpa using wfl_default x
      | some l0 => simpa using h x l0 hfd
    exact ⟨by simp only [sumF_append]; have := hroot.sum; omega, hroot.shape, hroot.nodup⟩
  · rw [set_other _ _ _ _ hxd] at hx; exact h x l hx

theorem appendShards_depth (fs : FS) (d : Dir) (new : List Shard) (B : Nat) (h : DepthOK fs B) :
    DepthOK (appendShards fs d new) B := by
  intro x l hx c hc
  simp only [appendShards] at hx
  by_cases hxd : x = d
  · subst hxd
    rw [set_same] at hx; cases hx
    cases hfd : fs x with
    | none => simp [hfd] at hc
    | some l0 => simp [hfd] at hc; exact h x l0 hfd c hc
  · rw [set_other _ _ _ _ hxd] at hx; exact h x l hx c hc

theorem appendShards_other (fs : FS) (d x : Dir) (new : List Shard) (h : x ≠ d) : appendShards fs d new x = fs x := by
  simp [appendShards, set_other _ _ _ _ h]

theorem appendShards_files (fs : FS) (d : Dir) (new : List Shard) :
    filesAt (appendShards fs d new) d = filesAt fs d ++ new := by
  simp only [filesAt, appendShards, set_same]
  cases fs d <;> simp

theorem applyWrites_props (B : Nat) : ∀ (se : Session) (fs : FS), WF fs → DepthOK fs B →
    WF (applyWrites fs se) ∧ DepthOK (applyWrites fs se) B ∧
    (∀ x, (∀ w ∈ se, w.1 ≠ x) → applyWrites fs se x = fs x) ∧
    (∀ x, filesAt fs x <+: filesAt (applyWrites fs se) x) := by
  intro se
  induction se with
  | nil => intro fs h1 h2; exact ⟨h1, h2, fun _ _ => rfl, fun _ => List.prefix_refl _⟩
  | cons w ws ih =>
    intro fs h1 h2
    simp only [applyWrites, List.foldl_cons]
    obtain ⟨a, b, c, e⟩ := ih (appendShards fs w.1 w.2) (appendShards_wf _ _ _ h1) (appendShards_depth _ _ _ B h2)
    refine ⟨a, b, ?_, ?_⟩
    · intro x hx
      have := c x (fun w' hw' => hx w' (List.mem_cons_of_mem _ hw'))
      simp only [applyWrites] at this
      rw [this, appendShards_other _ _ _ _ (fun h => hx w List.mem_cons_self h.symm)]
    · intro x
      have h3 := e x
      simp only [applyWrites] at h3
      refine List.IsPrefix.trans ?_ h3
      by_cases hxd : x = w.1
      · subst hxd; rw [appendShards_files]; exact List.prefix_append _ _
      · simp only [filesAt, appendShards_other _ _ _ _ hxd]; exact List.prefix_refl _

theorem mem_dedup (x : Nat) : ∀ l : List Nat, x ∈ dedup l ↔ x ∈ l := by
  intro l
  induction l with
  | nil => simp [dedup]
  | cons a as ih =>
    simp only [dedup, List.mem_cons, List.mem_filter, decide_eq_true_eq, ih]
    by_cases h : x = a
    · simp [h]
    · simp [h]

theorem nodup_dedup : ∀ l : List Nat, (dedup l).Nodup := by
  intro l
  induction l with
  | nil => simp [dedup]
  | cons a as ih =>
    simp only [dedup, List.nodup_cons]
    exact ⟨by simp, ih.filter _⟩

theorem prefix_single_of_head {s : Nat} {d : Dir} (hne : d ≠ []) (hh : d.headD 0 = s) : [s] <+: d := by
  cases d with
  | nil => exact absurd rfl hne
  | cons a as => simp at hh; subst hh; exact ⟨as, rfl⟩

theorem single_prefix_unique {s s' : Nat} {x : Dir} (h : [s] <+: x) (h' : [s'] <+: x) : s = s' := by
  obtain ⟨t, ht⟩ := h; obtain ⟨t', ht'⟩ := h'
  rw [← ht'] at ht; simp at ht; exact ht.1

/-- what can be reachable from split `s` after the merges: what was reachable before, or what was reachable (in the
store the merges started from) from a directory on the path from the split root to a directory the session wrote into -/
def RN (fs0 : FS) (dirs : List Dir) (s : Nat) (x : Dir) : Prop :=
  Reaches fs0 [s] x ∨ ∃ d ∈ dirs, ∃ a, [s] <+: a ∧ a <+: d ∧ Reaches fs0 a x

/-- invariant of the per-split fold of `write_config` -/
structure MSInv (H : SList → Nat) (B : Nat) (fs0 : FS) (dirs : List Dir) (todo : List Nat) (ds : DS) : Prop where
  wf : WF ds.fs
  depth : DepthOK ds.fs B
  reach : ∀ s x, Reaches fs0 [s] x → Reaches ds.fs [s] x
  files : ∀ x, filesAt ds.fs x = filesAt fs0 x
  exact : ∀ s k, ds.splits s = some k → s ∉ todo → k.dir = [s] ∧ Exact H ds.fs k
  frame0 : ∀ s ∈ todo, ∀ y, [s] <+: y → ds.fs y = fs0 y
  reachNew : ∀ s x, Reaches ds.fs [s] x → RN fs0 dirs s x
  existNew : ∀ x, ds.fs x ≠ none → fs0 x ≠ none ∨ ∃ s, Reaches ds.fs [s] x
  reachDirs : ∀ d ∈ dirs, d.headD 0 ∉ todo → Reaches ds.fs [d.headD 0] d

theorem mergeSplits_spec (H : SList → Nat) (B fuel : Nat) (hfuel : B < fuel + 1) (hB : 1 ≤ B) (fs0 : FS) (dirs : List Dir)
    (hdirs : ∀ d ∈ dirs, d ≠ [] ∧ d.length ≤ B) :
    ∀ (ss : List Nat) (ds : DS), ss.Nodup → MSInv H B fs0 dirs ss ds →
      MSInv H B fs0 dirs [] (mergeSplits H fuel dirs ss ds) ∧
      (∀ s ∈ ss, ∃ k, (mergeSplits H fuel dirs ss ds).splits s = some k) := by
  intro ss
  induction ss with
  | nil => intro ds _ h; exact ⟨h, by simp⟩
  | cons s ss ih =>
    intro ds hnd hinv
    simp only [mergeSplits]
    have hpre : Pre B ds.fs [s] (updatesOf dirs s) := by
      refine ⟨hinv.wf, hinv.depth, ?_, by simpa using hB⟩
      intro u hu
      simp only [updatesOf, List.mem_map, List.mem_filter, decide_eq_true_eq] at hu
      obtain ⟨d, ⟨hd, hh⟩, rfl⟩ := hu
      exact ⟨prefix_single_of_head (hdirs d hd).1 hh, (hdirs d hd).2⟩
    have hpost := merge_spec H B fuel ds.fs [s] (updatesOf dirs s) (by simp; omega) hpre
    simp only [List.nodup_cons] at hnd
    have hnew : MSInv H B fs0 dirs ss (DS.mk (merge H fuel ds.fs [s] (updatesOf dirs s)).1
        (fun x => if x = s then some (merge H fuel ds.fs [s] (updatesOf dirs s)).2 else ds.splits x)) := by
      refine ⟨hpost.wf, hpost.depth, ?_, fun x => by rw [hpost.files x]; exact hinv.files x, ?_, ?_, ?_, ?_, ?_⟩
      · intro s' x hx
        have h0 := hinv.reach s' x hx
        by_cases hs : s' = s
        · subst hs; exact hpost.reachOld x h0
        · apply h0.frame hinv.wf
          intro y hy
          apply hpost.frame
          intro hsy
          exact hs (single_prefix_unique hy hsy)
      intro s' k hk hnot
      simp only [] at hk
      by_cases hs : s' = s
      · subst hs; simp at hk; subst hk; exact ⟨hpost.dir, hpost.exact⟩
      · simp only [hs, if_false] at hk
        obtain ⟨h1, h2⟩ := hinv.exact s' k hk (by simp [hs, hnot])
        refine ⟨h1, h2.frame ?_⟩
        intro x hx
        apply hpost.frame
        intro hsx
        rw [h1] at hx
        exact hs (single_prefix_unique hx hsx)
      · -- below the roots of the splits still to be merged nothing has changed
        intro s' hs' y hy
        have hne : s' ≠ s := fun h => hnd.1 (h ▸ hs')
        show (merge H fuel ds.fs [s] (updatesOf dirs s)).1 y = fs0 y
        rw [hpost.frame y (fun hsy => hne (single_prefix_unique hy hsy))]
        exact hinv.frame0 s' (List.mem_cons_of_mem _ hs') y hy
      · intro s' x hx
        by_cases hs : s' = s
        · subst hs
          have hsame : ∀ y, [s'] <+: y → fs0 y = ds.fs y := fun y hy => (hinv.frame0 s' List.mem_cons_self y hy).symm
          rcases hpost.reachNew x hx with h | ⟨u, hu, a, ha1, ha2, ha3⟩
          · exact hinv.reachNew s' x h
          · simp only [updatesOf, List.mem_map, List.mem_filter, decide_eq_true_eq] at hu
            obtain ⟨d, ⟨hd, _⟩, rfl⟩ := hu
            exact Or.inr ⟨d, hd, a, ha1, ha2, ha3.frame hinv.wf (fun y hy => hsame y (prefix_trans' ha1 hy))⟩
        · apply hinv.reachNew s' x
          apply hx.frame hpost.wf
          intro y hy
          exact (hpost.frame y (fun hsy => hs (single_prefix_unique hy hsy))).symm
      · -- a list that exists now existed in the starting store or is reachable from a split root
        intro x hx
        rcases hpost.existNew x hx with h | h
        · rcases hinv.existNew x h with h0 | ⟨s', hs'⟩
          · exact Or.inl h0
          · right; refine ⟨s', ?_⟩
            by_cases hs : s' = s
            · subst hs; exact hpost.reachOld x hs'
            · exact hs'.frame hinv.wf (fun y hy => hpost.frame y (fun hsy => hs (single_prefix_unique hy hsy)))
        · exact Or.inr ⟨s, h⟩
      · -- the directories the session wrote into are reachable once their split has been merged
        intro d hd hnot
        by_cases hs : d.headD 0 = s
        · have hu : (⟨d, 0, 0, 0⟩ : Kid) ∈ updatesOf dirs s := by
            simp only [updatesOf, List.mem_map, List.mem_filter, decide_eq_true_eq]
            exact ⟨d, ⟨hd, hs⟩, rfl⟩
          have := hpost.reachUps _ hu
          rw [hs]; exact this
        · have hold := hinv.reachDirs d hd (by simp only [List.mem_cons, not_or]; exact ⟨hs, hnot⟩)
          exact hold.frame hinv.wf (fun y hy => hpost.frame y (fun hsy => hs (single_prefix_unique hy hsy)))
    obtain ⟨h1, h2⟩ := ih _ hnd.2 hnew
    refine ⟨h1, ?_⟩
    intro s' hs'
    simp only [List.mem_cons] at hs'
    rcases hs' with hs' | hs'
    · subst hs'
      -- the entry written for s survives the remaining merges (they are for other splits)
      have : ∀ (ss : List Nat) (ds : DS), s' ∉ ss → (mergeSplits H fuel dirs ss ds).splits s' = ds.splits s' := by
        intro ss
        induction ss with
        | nil => intro ds _; rfl
        | cons a as ih2 =>
          intro ds hn
          simp only [mergeSplits]
          rw [ih2 _ (fun h => hn (List.mem_cons_of_mem _ h))]
          have : s' ≠ a := fun h => hn (h ▸ List.mem_cons_self)
          simp [this]
      rw [this ss _ hnd.1]; exact ⟨(merge H fuel ds.fs [s'] (updatesOf dirs s')).2, by simp⟩
    · exact h2 s' hs'

/-- **A session keeps the dataset exact.** -/
theorem session_good (H : SList → Nat) (B fuel : Nat) (hfuel : B < fuel + 1) (hB : 1 ≤ B) (ds : DS) (se : Session)
    (hse : ∀ w ∈ se, w.1 ≠ [] ∧ w.1.length ≤ B) (hg : Good H B ds) :
    Good H B (session H fuel ds se) ∧
    (∀ w ∈ se, ∃ k, (session H fuel ds se).splits (w.1.headD 0) = some k) ∧
    (∀ s x, Reaches (applyWrites ds.fs se) [s] x → Reaches (session H fuel ds se).fs [s] x) ∧
    (∀ x, filesAt (session H fuel ds se).fs x = filesAt (applyWrites ds.fs se) x) ∧
    (∀ s x, Reaches (session H fuel ds se).fs [s] x → RN (applyWrites ds.fs se) (se.map (·.1)) s x) ∧
    (∀ x, (session H fuel ds se).fs x ≠ none → applyWrites ds.fs se x ≠ none ∨ ∃ s, Reaches (session H fuel ds se).fs [s] x) ∧
    (∀ w ∈ se, Reaches (session H fuel ds se).fs [w.1.headD 0] w.1) := by
  obtain ⟨a, b, c, _⟩ := applyWrites_props B se ds.fs hg.wf hg.depth
  have hdirs : ∀ d ∈ se.map (·.1), d ≠ [] ∧ d.length ≤ B := by
    intro d hd; obtain ⟨w, hw, rfl⟩ := List.mem_map.mp hd; exact hse w hw
  have hinv0 : MSInv H B (applyWrites ds.fs se) (se.map (·.1)) (dedup ((se.map (·.1)).map (fun d => d.headD 0))) { ds with fs := applyWrites ds.fs se } := by
    refine ⟨a, b, fun _ _ h => h, fun _ => rfl, ?_, fun _ _ _ _ => rfl, fun _ _ h => Or.inl h, fun _ h => Or.inl h,
      fun d hd hnot => absurd ((mem_dedup _ _).mpr (List.mem_map.mpr ⟨d, hd, rfl⟩)) hnot⟩
    intro s k hk hnot
    obtain ⟨h1, h2⟩ := hg.exact s k hk
    refine ⟨h1, h2.frame ?_⟩
    intro x hx
    apply c
    intro w hw hwx
    apply hnot
    rw [mem_dedup]
    refine List.mem_map.mpr ⟨w.1, List.mem_map.mpr ⟨w, hw, rfl⟩, ?_⟩
    rw [h1, ← hwx] at hx
    obtain ⟨t, ht⟩ := hx
    rw [← ht]; rfl
  obtain ⟨h1, h2⟩ := mergeSplits_spec H B fuel hfuel hB _ (se.map (·.1)) hdirs _ _ (nodup_dedup _) hinv0
  refine ⟨⟨h1.wf, h1.depth, fun s k hk => h1.exact s k hk (by simp)⟩, ?_, h1.reach, h1.files, h1.reachNew, h1.existNew,
    fun w hw => h1.reachDirs w.1 (List.mem_map.mpr ⟨w, hw, rfl⟩) (by simp)⟩
  intro w hw
  apply h2
  rw [mem_dedup]
  exact List.mem_map.mpr ⟨w.1, List.mem_map.mpr ⟨w, hw, rfl⟩, rfl⟩

/-- appending shards does not touch child records, so reachability is unaffected -/
theorem reaches_of_same_kids {fs fs' : FS} (h : ∀ y l, fs y = some l → ∃ l', fs' y = some l' ∧ l'.kids = l.kids)
    {d x : Dir} (hr : Reaches fs d x) : Reaches fs' d x := by
  induction hr with
  | refl d => exact Reaches.refl _
  | @step d x c l hget hc _ ih =>
    obtain ⟨l', h1, h2⟩ := h d l hget
    exact Reaches.step h1 (by rw [h2]; exact hc) ih

theorem appendShards_kids (fs : FS) (d : Dir) (new : List Shard) :
    ∀ y l, fs y = some l → ∃ l', appendShards fs d new y = some l' ∧ l'.kids = l.kids := by
  intro y l hy
  by_cases hyd : y = d
  · subst hyd; simp only [appendShards, set_same]; exact ⟨_, rfl, by simp [hy]⟩
  · rw [appendShards_other _ _ _ _ hyd]; exact ⟨l, hy, rfl⟩

theorem applyWrites_kids : ∀ (se : Session) (fs : FS),
    ∀ y l, fs y = some l → ∃ l', applyWrites fs se y = some l' ∧ l'.kids = l.kids := by
  intro se
  induction se with
  | nil => intro fs y l hy; exact ⟨l, hy, rfl⟩
  | cons w ws ih =>
    intro fs y l hy
    simp only [applyWrites, List.foldl_cons]
    obtain ⟨l1, h1, h2⟩ := appendShards_kids fs w.1 w.2 y l hy
    obtain ⟨l2, h3, h4⟩ := ih _ y l1 h1
    exact ⟨l2, h3, by rw [h4, h2]⟩

theorem sumF_flatMap_kids (H : SList → Nat) (fs : FS) (f : Dir → List Shard) :
    ∀ ks : List Kid, (∀ c ∈ ks, sumF (f c.dir) = c.n ∧ (f c.dir).length = c.shards) →
      sumF (ks.flatMap (fun c => f c.dir)) = sumN ks ∧ (ks.flatMap (fun c => f c.dir)).length = sumS ks := by
  intro ks
  induction ks with
  | nil => intro _; simp [sumF, sumN, sumS]
  | cons c cs ih =>
    intro h
    obtain ⟨h1, h2⟩ := h c List.mem_cons_self
    obtain ⟨h3, h4⟩ := ih (fun c' hc' => h c' (List.mem_cons_of_mem _ hc'))
    simp only [List.flatMap_cons, sumF_append, List.length_append]
    simp only [sumN, sumS, List.map_cons, List.sum_cons] at h3 h4 ⊢
    omega

/-- an exact info records the true totals of what the enumeration (`shard_info_iterator`) visits -/
theorem exact_counts (H : SList → Nat) (B : Nat) : ∀ (fuel : Nat) (fs : FS) (k : Kid), Exact H fs k → DepthOK fs B →
    k.dir.length ≤ B → B < fuel + k.dir.length →
    sumF (shardsOf fuel fs k.dir) = k.n ∧ (shardsOf fuel fs k.dir).length = k.shards := by
  intro fuel
  induction fuel with
  | zero => intro fs k _ _ h1 h2; omega
  | succ fuel ih =>
    intro fs k hex hd hle hf
    cases hex with
    | @mk _ l hget hh hn hs hwf hkids =>
      simp only [shardsOf, hget]
      have hk : ∀ c ∈ l.kids, sumF (shardsOf fuel fs c.dir) = c.n ∧ (shardsOf fuel fs c.dir).length = c.shards := by
        intro c hc
        obtain ⟨y, hy⟩ := hwf.shape c hc
        have hcl := hd k.dir l hget c hc
        exact ih fs c (hkids c hc) hd hcl (by rw [hy]; simp; omega)
      obtain ⟨h1, h2⟩ := sumF_flatMap_kids H fs (shardsOf fuel fs) l.kids hk
      simp only [sumF_append, List.length_append]
      have := hwf.sum
      omega

end Sedpack.Tree
