import SedpackProofs.ParMap
/-! Sums over the workers: how many items have been handed out in total. -/
namespace Sedpack.PMap

theorem sum_map_le {α} (f g : α → Nat) : ∀ (l : List α), (∀ x ∈ l, f x ≤ g x) → (l.map f).sum ≤ (l.map g).sum := by
  intro l
  induction l with
  | nil => intro _; simp
  | cons a as ih =>
    intro h
    simp only [List.map_cons, List.sum_cons]
    have := h a List.mem_cons_self
    have := ih (fun x hx => h x (List.mem_cons_of_mem _ hx))
    omega

theorem sum_range_ite (now : Nat) : ∀ m, ((List.range m).map (fun w => if w < now then 1 else 0)).sum = min now m := by
  intro m
  induction m with
  | zero => simp
  | succ m ih =>
    rw [List.range_succ, List.map_append, List.sum_append, ih]
    simp only [List.map_cons, List.map_nil, List.sum_cons, List.sum_nil]
    split <;> omega

theorem sum_range_const (k : Nat) : ∀ m, ((List.range m).map (fun _ => k)).sum = m * k := by
  intro m
  induction m with
  | zero => simp
  | succ m ih =>
    rw [List.range_succ, List.map_append, List.sum_append, ih]
    simp [Nat.succ_mul]

theorem length_enumTo (m q now : Nat) : (enumTo m q now).length = q * m + now := by
  simp only [enumTo, List.length_append, List.length_map, List.length_range, List.length_flatMap]
  rw [sum_range_const]

/-- the position of item `(a, b)` in the input -/
def idx (m : Nat) (p : Nat × Nat) : Nat := p.1 * m + p.2

theorem enumTo_idx (m : Nat) : ∀ q now, now ≤ m → (enumTo m q now).map (idx m) = List.range (q * m + now) := by
  intro q
  induction q with
  | zero =>
    intro now _
    simp only [enumTo, List.range_zero, List.flatMap_nil, List.nil_append, List.map_map, Nat.zero_mul, Nat.zero_add]
    apply List.ext_getElem
    · simp
    · intro i h1 h2; simp [idx]
  | succ q ih =>
    intro now hnow
    have h0 := ih m (Nat.le_refl m)
    have hsplit : enumTo m (q + 1) now = enumTo m q m ++ (List.range now).map (fun b => (q + 1, b)) := by
      simp [enumTo, List.range_succ, List.flatMap_append]
    rw [hsplit, List.map_append, h0]
    apply List.ext_getElem
    · simp [Nat.succ_mul]; try omega
    · intro i h1 h2
      simp only [List.length_range] at h2
      by_cases hi : i < q * m + m
      · rw [List.getElem_append_left (by simpa using hi)]; simp
      · rw [List.getElem_append_right (by simpa using hi)]
        simp [idx, Nat.succ_mul]; omega


/-- every accepted trace ends in a reachable state (so the invariants apply to every recorded run the model accepts) -/
theorem accepts_reach (c : Cfg) : ∀ (tr : List Lbl) (s s' : St), Reach c s → accepts c s tr = some s' → Reach c s' := by
  intro tr
  induction tr with
  | nil => intro s s' h ha; simp only [accepts, Option.some.injEq] at ha; rw [← ha]; exact h
  | cons l ls ih =>
    intro s s' h ha
    simp only [accepts] at ha
    cases hs : step c s l with
    | none => simp [hs] at ha
    | some s1 => simp only [hs, Option.bind_some] at ha; exact ih s1 s' (Reach.step h hs) ha

end Sedpack.PMap
