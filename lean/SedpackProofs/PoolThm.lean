import SedpackProofs.PoolInv
/-! Consequences of the M-POOL invariant: exactly-once, deadlock-freedom, termination. -/
namespace Sedpack.Pool

/-- the `q` first elements of `chain`: items `0..min q n - 1`, then stops -/
def pref (c : Cfg) (q : Nat) : List Msg := (List.range q).map (chain c)

def lim (c : Cfg) (q : Nat) : Nat := match c.n with | none => q | some n => min q n

theorem pref_succ (c : Cfg) (q : Nat) : pref c (q+1) = pref c q ++ [chain c q] := by
  simp [pref, List.range_succ]

theorem lim_none (c : Cfg) (h : c.n = none) (q : Nat) : lim c q = q := by simp [lim, h]
theorem lim_some (c : Cfg) (n : Nat) (h : c.n = some n) (q : Nat) : lim c q = min q n := by simp [lim, h]
theorem chain_none (c : Cfg) (h : c.n = none) (k : Nat) : chain c k = .item k := by simp [chain, h]
theorem chain_some (c : Cfg) (n : Nat) (h : c.n = some n) (k : Nat) :
    chain c k = if k < n then .item k else .stop := by simp [chain, h]

theorem msgIdx_pref (c : Cfg) (i : Nat) : ∀ q, msgIdx i (pref c q) = if i < lim c q then 1 else 0 := by
  intro q
  induction q with
  | zero => cases hn : c.n <;> simp [pref, msgIdx, lim, hn]
  | succ q ih =>
    rw [pref_succ, msgIdx_append, ih]
    cases hn : c.n with
    | none =>
      simp only [lim_none c hn, chain_none c hn, msgIdx]
      split <;> split <;> split <;> omega
    | some n =>
      simp only [lim_some c n hn, chain_some c n hn]
      by_cases hq : q < n
      · simp only [hq, if_true, msgIdx]; split <;> split <;> split <;> omega
      · simp only [hq, if_false, msgIdx]; split <;> split <;> omega

theorem msgItems_pref (c : Cfg) : ∀ q, msgItems (pref c q) = lim c q := by
  intro q
  induction q with
  | zero => cases hn : c.n <;> simp [pref, msgItems, lim, hn]
  | succ q ih =>
    rw [pref_succ, msgItems_append, ih]
    cases hn : c.n with
    | none => simp [lim_none c hn, chain_none c hn, msgItems]
    | some n =>
      simp only [lim_some c n hn, chain_some c n hn]
      by_cases hq : q < n
      · simp only [hq, if_true, msgItems]; omega
      · simp only [hq, if_false, msgItems]; omega

theorem msgStops_pref (c : Cfg) (q : Nat) : msgStops (pref c q) = q - lim c q := by
  have h1 := msg_length (pref c q)
  have h2 := msgItems_pref c q
  have h3 : (pref c q).length = q := by simp [pref]
  have h4 : lim c q ≤ q := by unfold lim; cases c.n <;> simp <;> omega
  omega

/-- while the consumer is counting, what was taken is a prefix of the chain -/
theorem taken_counting (c : Cfg) (s : St) (hi : Inv c s) (hc : counting s.ph = true) :
    taken c s = pref c s.q ∧ s.q ≤ s.p := by
  have h0 : resetK c s.ph = 0 := by
    cases hph : s.ph <;> simp [hph, counting, resetK] at hc ⊢
  have hs : sent c s = pref c s.p := by simp [sent, h0, pref]
  have hq : s.q ≤ s.p := by have := hi.qle; rw [hs] at this; simpa [pref] using this
  refine ⟨?_, hq⟩
  simp only [taken, hs, pref, ← List.map_take, List.take_range, Nat.min_eq_left hq]

/-- **Normal end ⇒ exactly once.**  If the consumer is in `waiting` with no active thread left
(the `while` loop ends), every index below `n` has been yielded exactly once and nothing else. -/
theorem finish_exact (c : Cfg) (hT : 1 ≤ c.T) (s : St) (hi : Inv c s) (hph : s.ph = .waiting) (hact : s.active = 0) :
    ∃ n, c.n = some n ∧ (∀ i, s.out.count i = if i < n then 1 else 0) ∧ s.results = [] ∧
      (∀ w ∈ s.ws, w = .stopped) := by
  have hc : counting s.ph = true := by simp [hph, counting]
  have hcons := hi.cons hc
  have hpart := cnt_partition s.ws
  rw [hi.len] at hpart
  rw [hact] at hcons
  have hall : cnt isStopped s.ws = c.T := by omega
  have hrs : resStops s.results = 0 := by omega
  have hres : s.results = [] := by
    rcases hi.tail hall with h | h
    · exact h
    · -- the last result is a stop, but there is no stop in `results`
      have : ∀ l : List Res, l.getLast? = some Res.stop → 0 < resStops l := by
        intro l; induction l with
        | nil => simp
        | cons x xs ih =>
          intro hl
          cases xs with
          | nil => simp at hl; subst hl; simp [resStops]
          | cons y ys =>
            have := ih (by simpa [List.getLast?_cons_cons] using hl)
            cases x <;> simp [resStops] <;> omega
      have := this _ h; omega
  obtain ⟨htk, hqp⟩ := taken_counting c s hi hc
  have hstops := hi.stops
  rw [htk, msgStops_pref] at hstops
  have hlimlt : lim c s.q < s.q := by omega
  cases hn : c.n with
  | none => simp [lim, hn] at hlimlt
  | some n =>
    have hlim : lim c s.q = n := by simp [lim, hn] at hlimlt ⊢; omega
    refine ⟨n, rfl, ?_, hres, all_stopped_of_cnt s.ws (by rw [hi.len]; exact hall)⟩
    intro i
    have hix := hi.idx hc i
    rw [htk, msgIdx_pref, hlim, hres, hph] at hix
    have hle := cnt_holdIdx_le i s.ws
    simp only [resIdx, gotIdx] at hix
    omega

/-- **Bounded read-ahead (C14).** inputs consumed from the source ≤ results yielded + P. -/
theorem inflight_le (c : Cfg) (s : St) (hi : Inv c s) (hc : counting s.ph = true) :
    s.p ≤ s.out.length + c.P := by
  cases hph : s.ph with
  | prefill => have := (hi.pre hph).1; omega
  | waiting => have := hi.inflight (Or.inl hph); omega
  | got i => have := hi.inflight (Or.inr ⟨i, hph⟩); omega
  | resetting k w => simp [hph, counting] at hc
  | fin w => simp [hph, counting] at hc

end Sedpack.Pool

namespace Sedpack.Pool

theorem taken_length (c : Cfg) (s : St) (hi : Inv c s) : (taken c s).length = s.q := by
  simp [taken, List.length_take, Nat.min_eq_left hi.qle]

theorem toProc_ne_nil (c : Cfg) (s : St) (hi : Inv c s) (h : s.q < (sent c s).length) : s.toProc ≠ [] := by
  rw [hi.shape]
  intro he
  have := congrArg List.length he
  simp at this; omega

theorem holder_or_idle (c : Cfg) (s : St) (hi : Inv c s) (hlt : cnt isStopped s.ws < c.T) :
    (∃ (w : Nat) (m : Msg), s.ws[w]? = some (.hold m)) ∨
    ((∃ w : Nat, s.ws[w]? = some .idle) ∧ cnt isHoldItem s.ws = 0 ∧ cnt isHoldStop s.ws = 0 ∧ 0 < cnt isIdle s.ws) := by
  have hpart := cnt_partition s.ws
  rw [hi.len] at hpart
  have hnd := hi.nodead
  by_cases h1 : 0 < cnt isHoldItem s.ws
  · obtain ⟨w, a, ha, hpos⟩ := exists_of_cnt_pos _ _ h1
    left; refine ⟨w, ?_⟩
    rcases a with _ | m | _ | _ <;> simp [isHoldItem] at hpos
    exact ⟨m, ha⟩
  · by_cases h2 : 0 < cnt isHoldStop s.ws
    · obtain ⟨w, a, ha, hpos⟩ := exists_of_cnt_pos _ _ h2
      left; refine ⟨w, ?_⟩
      rcases a with _ | m | _ | _ <;> simp [isHoldStop] at hpos
      exact ⟨m, ha⟩
    · right
      have hidle : 0 < cnt isIdle s.ws := by omega
      obtain ⟨w, a, ha, hpos⟩ := exists_of_cnt_pos _ _ hidle
      refine ⟨⟨w, ?_⟩, by omega, by omega, hidle⟩
      rcases a with _ | m | _ | _ <;> simp [isIdle] at hpos
      exact ha

theorem wPut_enabled (c : Cfg) (hfw : c.forward = true) (s : St) (w : Nat) (m : Msg)
    (h : s.ws[w]? = some (.hold m)) : (step c s (.wPut w)).isSome = true := by
  cases m with
  | stop => simp [step, h]
  | item i =>
    simp only [step, h, hfw]
    by_cases hf : c.fails i = true <;> simp [hf]

theorem wGet_enabled (c : Cfg) (s : St) (w : Nat) (h : s.ws[w]? = some .idle) (hne : s.toProc ≠ []) :
    (step c s (.wGet w)).isSome = true := by
  cases htp : s.toProc with
  | nil => exact absurd htp hne
  | cons m rest => simp [step, h, htp]

/-- **Deadlock freedom.** In every state that satisfies the invariant (hence in every reachable
state) some thread can take a step, unless the pass is over and all workers have returned. -/
theorem progress (c : Cfg) (hfw : c.forward = true) (hT : 1 ≤ c.T) (hTP : c.T ≤ c.P) (s : St) (hi : Inv c s)
    (hnt : ¬ terminal s) : ∃ l, (step c s l).isSome = true := by
  have hpart := cnt_partition s.ws
  rw [hi.len] at hpart
  cases hph : s.ph with
  | prefill => exact ⟨.cPut, by simp [step, hph]⟩
  | got i => exact ⟨.cPutNext, by simp [step, hph]⟩
  | resetting k w =>
    by_cases hk : k < c.T
    · exact ⟨.cReset, by simp [step, hph, hk]⟩
    · exact ⟨.cReset, by simp [step, hph, hk]⟩
  | waiting =>
    have hc : counting s.ph = true := by simp [hph, counting]
    by_cases hact : s.active = 0
    · exact ⟨.cFinish, by simp [step, hph, hact]⟩
    · have hpos : s.active > 0 := by omega
      cases hres : s.results with
      | cons r rs =>
        cases r with
        | val i => exact ⟨.cGet, by simp [step, hph, hpos, hres]⟩
        | err i => exact ⟨.cGet, by simp [step, hph, hpos, hres]⟩
        | stop => exact ⟨.cGet, by simp [step, hph, hpos, hres]⟩
      | nil =>
        have hcons := hi.cons hc
        rw [hres] at hcons; simp only [resStops] at hcons
        have hact' := hi.act
        rcases holder_or_idle c s hi (by omega) with ⟨w, m, hw⟩ | ⟨⟨w, hw⟩, h1, h2, _⟩
        · exact ⟨_, wPut_enabled c hfw s w m hw⟩
        · -- all taken items were yielded, fewer than T stops were taken: something is left in the queue
          have hit := hi.items hc
          rw [hres, hph] at hit; simp only [resItems, gotCnt] at hit
          have hst := hi.stops
          have hlen := msg_length (taken c s)
          rw [taken_length c s hi] at hlen
          have hinf := hi.inflight (Or.inl hph)
          have hsl : (sent c s).length = s.p := by simp [sent, hph, resetK]
          have hne := toProc_ne_nil c s hi (by omega)
          exact ⟨_, wGet_enabled c s w hw hne⟩
  | fin why =>
    have hlt : cnt isStopped s.ws < c.T := by
      rcases Nat.lt_or_ge (cnt isStopped s.ws) c.T with h | h
      · exact h
      · exfalso; apply hnt
        exact ⟨⟨why, hph⟩, all_stopped_of_cnt s.ws (by rw [hi.len]; omega)⟩
    rcases holder_or_idle c s hi hlt with ⟨w, m, hw⟩ | ⟨⟨w, hw⟩, h1, h2, hidle⟩
    · exact ⟨_, wPut_enabled c hfw s w m hw⟩
    · have hst := hi.stops
      have hlen := msg_length (taken c s)
      rw [taken_length c s hi] at hlen
      have h3 := msgItems_take_le (sent c s) s.q
      have h4 := msg_length (sent c s)
      have h5 : c.T ≤ msgStops (sent c s) := by
        simp only [sent, msgStops_append, hph, resetK, (msgStops_replicate c.T).1]; omega
      have hnd := hi.nodead
      have hne := toProc_ne_nil c s hi (by simp only [taken] at *; omega)
      exact ⟨_, wGet_enabled c s w hw hne⟩

end Sedpack.Pool

namespace Sedpack.Pool

def rank : Ph → Nat | .fin _ => 0 | .resetting _ _ => 1 | _ => 2

/-- inputs the consumer may still put on `to_process`: the rest of the `P + n` chain elements a
finite pass can consume, plus the `T` sentinels of `finish_and_reset` -/
def budget (c : Cfg) (n : Nat) (s : St) : Nat :=
  match s.ph with
  | .resetting k _ => c.T - k
  | .fin _ => 0
  | _ => (c.P + n - s.p) + c.T

/-- potential: every message moves forward through `unsent(5) > to_process(4) > held(3) >
results(2) > got(1) > consumed(0)`; plus the consumer's phase rank -/
def mu (c : Cfg) (n : Nat) (s : St) : Nat :=
  5 * budget c n s + 4 * s.toProc.length + 3 * (cnt isHoldItem s.ws + cnt isHoldStop s.ws)
    + 2 * s.results.length + gotCnt s.ph + rank s.ph

theorem lim_le_n (c : Cfg) (n : Nat) (hn : c.n = some n) (q : Nat) : lim c q ≤ n := by
  simp [lim, hn]; omega

/-- **Termination.** For a finite input every step of every thread strictly decreases `mu`. -/
theorem mu_decreases_gen (c : Cfg) (n : Nat) (s s' : St) (l : Lbl) (hn : counting s.ph = true → c.n = some n)
    (hi : Inv c s) (hs : step c s l = some s') : mu c n s' < mu c n s := by
  cases l with
  | cPut =>
    simp only [step] at hs
    split at hs <;> simp at hs
    rename_i hph; subst hs
    have := (hi.pre hph).1
    by_cases hP : s.p + 1 ≥ c.P
    · simp only [mu, budget, hph, hP, if_true, gotCnt, rank, List.length_append, List.length_singleton]; omega
    · simp only [mu, budget, hph, hP, if_false, gotCnt, rank, List.length_append, List.length_singleton]; omega
  | cGet =>
    simp only [step] at hs
    split at hs
    case isFalse => simp at hs
    rename_i hc
    split at hs <;> simp at hs <;> subst hs
    all_goals (rename_i hr; simp only [mu, budget, hc.1, hr, gotCnt, rank, List.length_cons]; omega)
  | cPutNext =>
    simp only [step] at hs
    split at hs <;> simp at hs
    rename_i i hph; subst hs
    have hc : counting s.ph = true := by simp [hph, counting]
    have hit := hi.items hc
    obtain ⟨htk, hqp⟩ := taken_counting c s hi hc
    rw [htk, msgItems_pref] at hit
    have := lim_le_n c n (hn hc) s.q
    have hinf := hi.inflight (Or.inr ⟨i, hph⟩)
    simp only [hph, gotCnt] at hit
    simp only [mu, budget, hph, gotCnt, rank, List.length_append, List.length_singleton]
    omega
  | cFinish =>
    simp only [step] at hs
    split at hs <;> simp at hs
    rename_i hc; subst hs
    simp only [mu, budget, hc.1, gotCnt, rank]; omega
  | cAbandon =>
    simp only [step] at hs
    split at hs <;> simp at hs
    rename_i hc; subst hs
    simp only [mu, budget, hc, gotCnt, rank]; omega
  | cReset =>
    simp only [step] at hs
    split at hs
    case h_2 => simp at hs
    rename_i k why hph
    split at hs <;> simp at hs <;> subst hs
    · simp only [mu, budget, hph, gotCnt, rank, List.length_append, List.length_singleton]; omega
    · simp only [mu, budget, hph, gotCnt, rank]; omega
  | wGet w =>
    simp only [step] at hs
    split at hs
    case h_2 => simp at hs
    rename_i m rest hw htp
    simp at hs; subst hs
    have c1 := cnt_set isHoldStop s.ws w _ (W.hold m) hw
    have c3 := cnt_set isHoldItem s.ws w _ (W.hold m) hw
    have hb : budget c n { s with toProc := rest, ws := s.ws.set w (W.hold m), q := s.q + 1 } = budget c n s := rfl
    simp only [mu, hb, htp, List.length_cons]
    cases m <;> simp [isHoldStop, isHoldItem] at c1 c3 <;> omega
  | wPut w =>
    simp only [step] at hs
    split at hs
    case h_3 => simp at hs
    · rename_i hw
      simp at hs; subst hs
      have c1 := cnt_set isHoldStop s.ws w _ W.stopped hw
      have c3 := cnt_set isHoldItem s.ws w _ W.stopped hw
      have hb : budget c n { s with results := s.results ++ [Res.stop], ws := s.ws.set w W.stopped } = budget c n s := rfl
      simp only [mu, hb, List.length_append, List.length_singleton]
      simp [isHoldStop, isHoldItem] at c1 c3; omega
    · rename_i i hw
      have c1 := fun b => cnt_set isHoldStop s.ws w _ b hw
      have c3 := fun b => cnt_set isHoldItem s.ws w _ b hw
      split at hs
      · split at hs <;> simp at hs <;> subst hs
        · have e1 := c1 W.idle; have e3 := c3 W.idle
          have hb : budget c n { s with results := s.results ++ [Res.err i], ws := s.ws.set w W.idle } = budget c n s := rfl
          simp only [mu, hb, List.length_append, List.length_singleton]
          simp [isHoldStop, isHoldItem] at e1 e3; omega
        · have e1 := c1 W.dead; have e3 := c3 W.dead
          have hb : budget c n { s with ws := s.ws.set w W.dead } = budget c n s := rfl
          simp only [mu, hb]
          simp [isHoldStop, isHoldItem] at e1 e3; omega
      · simp at hs; subst hs
        have e1 := c1 W.idle; have e3 := c3 W.idle
        have hb : budget c n { s with results := s.results ++ [Res.val i], ws := s.ws.set w W.idle } = budget c n s := rfl
        simp only [mu, hb, List.length_append, List.length_singleton]
        simp [isHoldStop, isHoldItem] at e1 e3; omega

/-- **Termination.** For a finite input every step of every thread strictly decreases `mu`. -/
theorem mu_decreases (c : Cfg) (n : Nat) (hn : c.n = some n) (s s' : St) (l : Lbl)
    (hi : Inv c s) (hs : step c s l = some s') : mu c n s' < mu c n s :=
  mu_decreases_gen c n s s' l (fun _ => hn) hi hs

theorem noncounting_stays (c : Cfg) (s s' : St) (l : Lbl) (hnc : counting s.ph = false)
    (hs : step c s l = some s') : counting s'.ph = false := by
  cases hph : s.ph <;> simp [hph, counting] at hnc <;>
    (cases l <;> simp [step, hph] at hs <;> (try split at hs) <;> (try split at hs) <;> (try split at hs) <;>
      simp at hs <;> (try subst hs) <;> simp_all [counting])

/-- After the consumer has left the counting phases (normal end, re-raise or early exit) the same
potential without the chain budget decreases — for finite *and infinite* inputs. -/
theorem mu_decreases_after_exit (c : Cfg) (s s' : St) (l : Lbl) (hnc : counting s.ph = false)
    (hi : Inv c s) (hs : step c s l = some s') : mu c 0 s' < mu c 0 s ∧ counting s'.ph = false :=
  ⟨mu_decreases_gen c 0 s s' l (fun h => by rw [hnc] at h; cases h) hi hs, noncounting_stays c s s' l hnc hs⟩

end Sedpack.Pool

namespace Sedpack.Pool

/-- normal end of the pass: the consumer left its loop because all workers reported a sentinel -/
def normalEnd (s : St) : Prop := (∃ k, s.ph = .resetting k 0) ∨ s.ph = .fin 0

theorem normalEnd_perm (c : Cfg) (hfw : c.forward = true) (hT : 1 ≤ c.T) (hTP : c.T ≤ c.P) (s : St) (h : Reach c s) (hend : normalEnd s) :
    ∃ n, c.n = some n ∧ s.out.Perm (List.range n) := by
  induction h with
  | init => rcases hend with ⟨k, hk⟩ | hk <;> simp [init] at hk
  | @step s s' l hr hs ih =>
    have hi := inv_reach c hfw (Nat.le_trans hT hTP) s hr
    -- either the previous state had already ended normally with the same output, or this is `cFinish`
    by_cases hprev : normalEnd s
    · obtain ⟨n, hn, hp⟩ := ih hprev
      refine ⟨n, hn, ?_⟩
      have hout : s'.out = s.out := by
        rcases hprev with ⟨k, hk⟩ | hk <;>
          (cases l <;> simp [step, hk] at hs <;> (try split at hs) <;> (try split at hs) <;> (try split at hs) <;>
            simp at hs <;> (try subst hs) <;> rfl)
      rw [hout]; exact hp
    · -- the only way to enter a normal end is `cFinish`
      have hfin : l = .cFinish := by
        rcases hend with ⟨k, hk⟩ | hk <;>
          (cases l <;> simp only [step] at hs <;> (try split at hs) <;> (try split at hs) <;> (try split at hs) <;>
            simp at hs <;> (try subst hs) <;> simp_all [normalEnd])
      subst hfin
      simp only [step] at hs
      split at hs <;> simp at hs
      rename_i hc; subst hs
      obtain ⟨n, hn, hcount, _, _⟩ := finish_exact c hT s hi hc.1 hc.2
      exact ⟨n, hn, List.perm_iff_count.mpr (fun i => by rw [hcount i, List.count_range])⟩


end Sedpack.Pool

namespace Sedpack.Pool

def whyOf : Ph → Nat | .resetting _ w => w | .fin w => w | _ => 0

/-- the consumer only ever leaves its loop for one of the three reasons 0 (normal end),
1 (re-raised failure), 2 (abandoned) -/
theorem why_le_two (c : Cfg) (s : St) (h : Reach c s) : whyOf s.ph ≤ 2 := by
  induction h with
  | init => simp [init, whyOf]
  | @step s s' l _ hs ih =>
    cases l <;> simp only [step] at hs
    all_goals (repeat' split at hs) <;> simp at hs <;> (try subst hs) <;> simp_all [whyOf]

end Sedpack.Pool
