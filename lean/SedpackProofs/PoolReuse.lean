import SedpackProofs.PoolThm
/-! A re-used pool is a list of independent single passes. -/
namespace Sedpack.Pool

theorem worker_step_ph (c : Cfg) (s s' : St) (l : Lbl) (hw : isWorker l = true) (hs : step c s l = some s') :
    s'.ph = s.ph := by
  cases l <;> simp [isWorker] at hw
  all_goals (simp only [step] at hs; (repeat' split at hs) <;> simp at hs <;> (try subst hs) <;> rfl)

structure MInv (cs : Nat → Cfg) (m : Multi) : Prop where
  cur : Reach (cs m.past.length) m.cur
  past : ∀ g (h : g < m.past.length), Reach (cs g) m.past[g] ∧ ∃ why, m.past[g].ph = .fin why

theorem minv_init (cs : Nat → Cfg) : MInv cs (minit cs) :=
  ⟨Reach.init, fun g h => by simp [minit] at h⟩

theorem minv_step (cs : Nat → Cfg) (m m' : Multi) (l : MLbl) (hi : MInv cs m) (hs : mstep cs m l = some m') : MInv cs m' := by
  cases l with
  | cur l =>
    simp only [mstep, Option.map_eq_some_iff] at hs
    obtain ⟨s, hstep, rfl⟩ := hs
    exact ⟨Reach.step hi.cur hstep, hi.past⟩
  | old g l =>
    simp only [mstep] at hs
    split at hs
    · rename_i s hg
      split at hs
      · rename_i hw
        simp only [Option.map_eq_some_iff] at hs
        obtain ⟨s', hstep, rfl⟩ := hs
        obtain ⟨hglt, hgs⟩ := List.getElem?_eq_some_iff.mp hg
        refine ⟨by simpa using hi.cur, fun g' h' => ?_⟩
        simp only [List.length_set] at h'
        by_cases hgg : g = g'
        · subst hgg
          simp only [List.getElem_set_self]
          obtain ⟨hr, why, hph⟩ := hi.past g hglt
          rw [hgs] at hr hph
          exact ⟨Reach.step hr hstep, why, by rw [worker_step_ph _ _ _ _ hw hstep, hph]⟩
        · simp only [List.getElem_set_ne hgg]
          exact hi.past g' h'
      · cases hs
    · cases hs
  | newPass =>
    simp only [mstep] at hs
    split at hs
    · rename_i why hph
      simp only [Option.some.injEq] at hs
      subst hs
      refine ⟨by simpa using Reach.init, fun g h => ?_⟩
      simp only [List.length_append, List.length_singleton] at h
      by_cases hg : g < m.past.length
      · simp only [List.getElem_append_left hg]
        exact hi.past g hg
      · have hge : g = m.past.length := by omega
        subst hge
        simp only [List.getElem_append_right (Nat.le_refl _), Nat.sub_self, List.getElem_singleton]
        exact ⟨hi.cur, why, hph⟩
    · cases hs

theorem minv_reach (cs : Nat → Cfg) (m : Multi) (h : MReach cs m) : MInv cs m := by
  induction h with
  | init => exact minv_init cs
  | step _ hs ih => exact minv_step cs _ _ _ ih hs

end Sedpack.Pool
