import SedpackModel.Path
namespace Sedpack.Path

theorem normComps_no_dotdot : ∀ (cs acc : List String), ".." ∉ cs → normComps acc cs = acc.reverse ++ cs := by
  intro cs
  induction cs with
  | nil => intro acc _; simp [normComps]
  | cons c cs ih =>
    intro acc h
    simp only [List.mem_cons, not_or] at h
    have hc : ¬ c = ".." := fun e => h.1 e.symm
    simp only [normComps, hc, if_false]
    rw [ih (c :: acc) h.2]
    simp

theorem normComps_append (a b : List String) (acc : List String) :
    normComps acc (a ++ b) = normComps (normComps acc a).reverse b := by
  induction a generalizing acc with
  | nil => simp [normComps]
  | cons c cs ih =>
    simp only [List.cons_append, normComps]
    split
    · exact ih _
    · exact ih _

end Sedpack.Path
