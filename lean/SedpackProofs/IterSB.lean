import SedpackModel.Iter
/-! Invariant of the shuffle-buffer monitor. -/
namespace Sedpack.Iter

theorem count_replaceFirst (a x y : Nat) : ∀ (l : List Nat), x ∈ l →
    (replaceFirst x y l).count a + [x].count a = l.count a + [y].count a := by
  intro l
  induction l with
  | nil => intro h; simp at h
  | cons b bs ih =>
    intro h
    simp only [replaceFirst]
    by_cases hb : b = x
    · subst hb
      simp only [if_true, List.count_cons, List.count_nil]
      omega
    · simp only [hb, if_false, List.count_cons]
      have hx : x ∈ bs := by
        simp only [List.mem_cons] at h
        rcases h with h | h
        · exact absurd h.symm hb
        · exact h
      have := ih hx
      simp only [List.count_cons, List.count_nil] at this
      omega

theorem length_replaceFirst (x y : Nat) : ∀ l : List Nat, (replaceFirst x y l).length = l.length := by
  intro l; induction l with
  | nil => rfl
  | cons b bs ih => simp only [replaceFirst]; split <;> simp [ih]

theorem count_erase_mem (a x : Nat) (l : List Nat) (h : x ∈ l) :
    (l.erase x).count a + [x].count a = l.count a := by
  have := (List.perm_cons_erase h).count_eq a
  simp only [List.count_cons, List.count_nil] at this ⊢
  omega

def pendL (s : SB) : List Nat := s.pend.toList

structure SBInv (s : SB) : Prop where
  cons : ∀ a, s.pulled.count a = s.out.count a + s.buf.count a + (pendL s).count a
  bufle : 0 < s.b → s.buf.length ≤ s.b
  fill : s.phase = .fill → s.pend = none ∧ s.buf.length < s.b ∧ s.out = []
  mainfull : 0 < s.b → s.phase = .main → s.buf.length = s.b
  flushp : s.phase = .flush → s.pend = none
  donep : s.phase = .done → s.pend = none ∧ s.buf = []
  nofail : 0 < s.b → s.phase ≠ .failed

theorem sb_inv_init (b : Nat) : SBInv (SB.init b) := by
  constructor <;> simp [SB.init, pendL]
  · intro h; omega
  · intro h; omega
  · intro h; split <;> simp

theorem sb_inv_step (s s' : SB) (l : SBLbl) (hi : SBInv s) (hs : SB.step s l = some s') : SBInv s' ∧ s'.b = s.b := by
  cases l with
  | pull x =>
    cases x with
    | some x =>
      simp only [SB.step] at hs
      split at hs
      · -- fill
        rename_i hph
        simp at hs; subst hs
        obtain ⟨hp, hlt, hout⟩ := hi.fill hph
        refine ⟨?_, rfl⟩
        constructor
        · intro a; have := hi.cons a; simp only [pendL, hp, List.count_append] at this ⊢; simp at this ⊢; omega
        · intro _; simp; omega
        · intro h; simp only [] at h ⊢; split at h
          · cases h
          · exact ⟨hp, by simp; omega, hout⟩
        · intro hb h; simp only [] at h ⊢; split at h
          · simp; omega
          · cases h
        · intro h; simp only [] at h; split at h <;> cases h
        · intro h; simp only [] at h; split at h <;> cases h
        · intro hb h; simp only [] at h; split at h <;> cases h
      · -- main
        rename_i hph
        split at hs
        · simp at hs
        · rename_i hpend
          have hp : s.pend = none := by simpa using hpend
          split at hs
          · rename_i hbuf
            simp at hs; subst hs
            refine ⟨?_, rfl⟩
            -- only possible when b = 0
            have hb0 : ¬ 0 < s.b := by
              intro hb; have := hi.mainfull hb hph; rw [hbuf] at this; simp at this; omega
            constructor
            · exact hi.cons
            · intro hb; exact absurd hb hb0
            · intro h; simp at h
            · intro hb; exact absurd hb hb0
            · intro h; simp at h
            · intro h; simp at h
            · intro hb; exact absurd hb hb0
          · simp at hs; subst hs
            refine ⟨?_, rfl⟩
            constructor
            · intro a; have := hi.cons a; simp only [pendL, hp, List.count_append] at this ⊢; simp at this ⊢; omega
            · exact hi.bufle
            · intro h; simp [hph] at h
            · intro hb _; exact hi.mainfull hb hph
            · intro h; simp [hph] at h
            · intro h; simp [hph] at h
            · intro hb h; simp [hph] at h
      · simp at hs
    | none =>
      simp only [SB.step] at hs
      split at hs
      · rename_i hph
        simp at hs; subst hs
        obtain ⟨hp, hlt, hout⟩ := hi.fill hph
        refine ⟨?_, rfl⟩
        constructor
        · exact hi.cons
        · exact hi.bufle
        · intro h; simp at h
        · intro _ h; simp at h
        · intro _; exact hp
        · intro h; simp at h
        · intro _ h; simp at h
      · rename_i hph
        split at hs
        · simp at hs
        · rename_i hpend
          have hp : s.pend = none := by simpa using hpend
          simp at hs; subst hs
          refine ⟨?_, rfl⟩
          constructor
          · exact hi.cons
          · exact hi.bufle
          · intro h; simp at h
          · intro _ h; simp at h
          · intro _; exact hp
          · intro h; simp at h
          · intro _ h; simp at h
      · simp at hs; subst hs; exact ⟨hi, rfl⟩
      · simp at hs
  | yield x =>
    simp only [SB.step] at hs
    split at hs
    · -- main, pending y
      rename_i y hph hpend
      split at hs
      · rename_i hx
        simp at hs; subst hs
        refine ⟨?_, rfl⟩
        constructor
        · intro a
          have := hi.cons a
          have hc := count_replaceFirst a x y s.buf hx
          simp only [pendL, hpend, Option.toList, List.count_append] at this ⊢
          simp only [List.count_cons, List.count_nil] at this hc ⊢
          omega
        · intro hb; simp only [length_replaceFirst]; exact hi.bufle hb
        · intro h; simp [hph] at h
        · intro hb _; simp only [length_replaceFirst]; exact hi.mainfull hb hph
        · intro h; simp [hph] at h
        · intro h; simp [hph] at h
        · intro hb h; simp [hph] at h
      · simp at hs
    · -- flush
      rename_i hph hpend
      split at hs
      · rename_i hx
        simp at hs; subst hs
        refine ⟨?_, rfl⟩
        constructor
        · intro a
          have := hi.cons a
          have hc := count_erase_mem a x s.buf hx
          simp only [pendL, hpend, Option.toList, List.count_append] at this ⊢
          simp only [List.count_cons, List.count_nil] at this hc ⊢
          omega
        · intro hb; have := hi.bufle hb; have := List.length_erase_of_mem hx; simp only []; omega
        · intro h; simp [hph] at h
        · intro _ h; simp [hph] at h
        · intro _; exact hpend
        · intro h; simp [hph] at h
        · intro _ h; simp [hph] at h
      · simp at hs
    · simp at hs
  | finish =>
    simp only [SB.step] at hs
    split at hs
    · rename_i hc
      simp at hs; subst hs
      refine ⟨?_, rfl⟩
      have hp := hi.flushp hc.1
      constructor
      · exact hi.cons
      · exact hi.bufle
      · intro h; simp at h
      · intro _ h; simp at h
      · intro h; simp at h
      · intro _; exact ⟨hp, hc.2⟩
      · intro _ h; simp at h
    · simp at hs

/-- reachable states of the shuffle-buffer monitor with buffer size `b` -/
inductive SBReach (b : Nat) : SB → Prop
  | init : SBReach b (SB.init b)
  | step {s s' l} : SBReach b s → SB.step s l = some s' → SBReach b s'

theorem sb_inv_reach (b : Nat) (s : SB) (h : SBReach b s) : SBInv s ∧ s.b = b := by
  induction h with
  | init => exact ⟨sb_inv_init b, rfl⟩
  | step _ hs ih =>
    obtain ⟨h1, h2⟩ := sb_inv_step _ _ _ ih.1 hs
    exact ⟨h1, by rw [h2, ih.2]⟩

end Sedpack.Iter
