import SedpackProofs.TreeCrash
import SedpackProofs.Crash
/-! M-TREE with effects refines M-CRASH: a valid install sequence, read as M-CRASH `install` labels, is accepted by M-CRASH
from the abstraction of the store, and ends in the abstraction of the resulting store. -/
namespace Sedpack.Tree
open Sedpack

def toDoc (l : SList) : Crash.Doc := { files := l.files.map (·.file), kids := l.kids.map (·.dir) }

/-- the M-CRASH state a store stands for: `C` are the shard files completely written and hashed, `R` the roots named by the
installed description -/
def absSt (fs : FS) (C : List Nat) (R : List Dir) : Crash.St :=
  { closed := C, opened := [], docs := fun d => (fs d).map toDoc, roots := R, tmps := 0 }

def toLbl (i : Install) : Crash.Lbl := .install i.1 (toDoc i.2)

theorem step_refines (B : Nat) (fs : FS) (i : Install) (C : List Nat) (R : List Dir) (hs : StepOK B fs i)
    (hc : ∀ f ∈ i.2.files, f.file ∈ C) :
    Crash.step (absSt fs C R) (toLbl i) = some (absSt (fs.set i.1 i.2) C R) := by
  obtain ⟨d, l⟩ := i
  simp only [toLbl, Crash.step, absSt]
  have h1 : (toDoc l).files.all (fun f => C.contains f) = true := by
    simp only [toDoc, List.all_eq_true, List.mem_map, List.contains_iff_mem]
    rintro f ⟨sh, hsh, rfl⟩; exact hc sh hsh
  have h2 : (toDoc l).kids.all (fun c => ((fs c).map toDoc).isSome) = true := by
    simp only [toDoc, List.all_eq_true, List.mem_map]
    rintro c ⟨k, hk, rfl⟩
    have := hs.kidsExist k hk
    cases hfc : fs k.dir with
    | none => exact absurd hfc this
    | some _ => simp
  have h3 : Crash.sub (((fs d).map toDoc).getD { files := [], kids := [] }).files (toDoc l).files = true := by
    simp only [Crash.sub, List.all_eq_true, List.contains_iff_mem]
    intro f hf
    have hfiles := hs.files
    simp only [filesAt] at hfiles
    cases hfd : fs d with
    | none => simp [hfd] at hf
    | some l0 =>
      simp only [hfd, Option.map_some, Option.getD_some, toDoc, List.mem_map] at hf hfiles ⊢
      obtain ⟨sh, hsh, rfl⟩ := hf
      exact ⟨sh, hfiles.subset hsh, rfl⟩
  have h4 : Crash.sub (((fs d).map toDoc).getD { files := [], kids := [] }).kids (toDoc l).kids = true := by
    simp only [Crash.sub, List.all_eq_true, List.contains_iff_mem]
    intro c hcm
    cases hfd : fs d with
    | none => simp [hfd] at hcm
    | some l0 =>
      simp only [hfd, Option.map_some, Option.getD_some, toDoc, List.mem_map] at hcm ⊢
      obtain ⟨k, hk, rfl⟩ := hcm
      have := hs.kids k (by simp [kidsAt, hfd, hk])
      simpa using this
  have h5 : (toDoc l).kids.all (fun c => decide (c.length = d.length + 1)) = true := by
    simp only [toDoc, List.all_eq_true, List.mem_map, decide_eq_true_eq]
    rintro c ⟨k, hk, rfl⟩
    obtain ⟨y, hy⟩ := hs.wfl.shape k hk
    simp only at hy
    rw [hy]; simp
  simp only [h1, h2, h3, h4, h5, and_self, if_true]
  congr 1
  have : (fun x => if x = d then some (toDoc l) else (fs x).map toDoc) = fun x => ((fs.set d l) x).map toDoc := by
    funext x
    by_cases hx : x = d
    · subst hx; simp [FS.set]
    · simp [FS.set, hx]
  simp only [this]

/-- **Refinement.** -/
theorem valid_accepted (B : Nat) (C : List Nat) (R : List Dir) : ∀ (ins : List Install) (fs : FS), Valid B fs ins →
    (∀ i ∈ ins, ∀ f ∈ i.2.files, f.file ∈ C) →
    Crash.accepts (absSt fs C R) (ins.map toLbl) = some (absSt (applyInstalls fs ins) C R) := by
  intro ins
  induction ins with
  | nil => intro fs _ _; rfl
  | cons i rest ih =>
    intro fs hv hc
    obtain ⟨hs, hr⟩ := hv
    simp only [List.map_cons, Crash.accepts, step_refines B fs i C R hs (hc i List.mem_cons_self), Option.bind_some]
    have := ih (fs.set i.1 i.2) hr (fun j hj => hc j (List.mem_cons_of_mem _ hj))
    simpa [applyInstalls] using this

/-- every document of a valid sequence lists only shard entries that the final store lists at the same place -/
theorem valid_files_le_final (B : Nat) : ∀ (ins : List Install) (fs : FS), Valid B fs ins → SInv B fs →
    ∀ i ∈ ins, i.2.files <+: filesAt (applyInstalls fs ins) i.1 := by
  intro ins
  induction ins with
  | nil => intro fs _ _ i hi; simp at hi
  | cons j rest ih =>
    intro fs hv hi i him
    obtain ⟨hs, hr⟩ := hv
    have hi' := step_sinv B fs j hs hi
    simp only [applyInstalls, List.foldl_cons]
    rcases List.mem_cons.mp him with rfl | him'
    · have hm := (valid_sinv_mono B rest _ hr hi').2.files i.1
      simpa [filesAt, set_same, applyInstalls] using hm
    · exact ih _ hr hi' i him'

end Sedpack.Tree
