import SedpackProofs.TreeCrash
/-! Merging a split re-establishes its exactness from *any* well-formed store: the basis of "the next completed session heals
whatever a crashed or held-back session left behind". -/
namespace Sedpack.Tree

theorem mergeSplits_splits_other (H : SList → Nat) (fuel : Nat) (dirs : List Dir) : ∀ (ss : List Nat) (ds : DS) (s : Nat),
    s ∉ ss → (mergeSplits H fuel dirs ss ds).splits s = ds.splits s := by
  intro ss
  induction ss with
  | nil => intro ds s _; rfl
  | cons a as ih =>
    intro ds s hn
    simp only [mergeSplits]
    rw [ih _ s (fun h => hn (List.mem_cons_of_mem _ h))]
    have : s ≠ a := fun h => hn (h ▸ List.mem_cons_self)
    simp [this]

/-- the per-split merges keep the store well formed and touch nothing outside the merged splits' sub-trees -/
theorem mergeSplits_wf_frame (H : SList → Nat) (B fuel : Nat) (hfuel : B < fuel + 1) (hB : 1 ≤ B) (dirs : List Dir)
    (hdirs : ∀ d ∈ dirs, d ≠ [] ∧ d.length ≤ B) : ∀ (ss : List Nat) (ds : DS), WF ds.fs → DepthOK ds.fs B →
      WF (mergeSplits H fuel dirs ss ds).fs ∧ DepthOK (mergeSplits H fuel dirs ss ds).fs B ∧
      ∀ y, (∀ s ∈ ss, ¬ [s] <+: y) → (mergeSplits H fuel dirs ss ds).fs y = ds.fs y := by
  intro ss
  induction ss with
  | nil => intro ds h1 h2; exact ⟨h1, h2, fun _ _ => rfl⟩
  | cons s ss ih =>
    intro ds hwf hdp
    simp only [mergeSplits]
    have hpre : Pre B ds.fs [s] (updatesOf dirs s) := by
      refine ⟨hwf, hdp, ?_, by simpa using hB⟩
      intro u hu
      simp only [updatesOf, List.mem_map, List.mem_filter, decide_eq_true_eq] at hu
      obtain ⟨d, ⟨hd, hh⟩, rfl⟩ := hu
      exact ⟨prefix_single_of_head (hdirs d hd).1 hh, (hdirs d hd).2⟩
    have hpost := merge_spec H B fuel ds.fs [s] (updatesOf dirs s) (by simp; omega) hpre
    obtain ⟨h1, h2, h3⟩ := ih (DS.mk (merge H fuel ds.fs [s] (updatesOf dirs s)).1
      (fun x => if x = s then some (merge H fuel ds.fs [s] (updatesOf dirs s)).2 else ds.splits x)) hpost.wf hpost.depth
    refine ⟨h1, h2, ?_⟩
    intro y hy
    rw [h3 y (fun s' hs' => hy s' (List.mem_cons_of_mem _ hs'))]
    exact hpost.frame y (hy s List.mem_cons_self)

/-- **Every merged split is exact afterwards — from any well-formed store.** -/
theorem mergeSplits_heals (H : SList → Nat) (B fuel : Nat) (hfuel : B < fuel + 1) (hB : 1 ≤ B) (dirs : List Dir)
    (hdirs : ∀ d ∈ dirs, d ≠ [] ∧ d.length ≤ B) : ∀ (ss : List Nat) (ds : DS), ss.Nodup → WF ds.fs → DepthOK ds.fs B →
      ∀ s ∈ ss, ∃ k, (mergeSplits H fuel dirs ss ds).splits s = some k ∧ k.dir = [s] ∧ Exact H (mergeSplits H fuel dirs ss ds).fs k := by
  intro ss
  induction ss with
  | nil => intro ds _ _ _ s hs; simp at hs
  | cons s0 ss ih =>
    intro ds hnd hwf hdp s hs
    simp only [List.nodup_cons] at hnd
    simp only [mergeSplits]
    have hpre : Pre B ds.fs [s0] (updatesOf dirs s0) := by
      refine ⟨hwf, hdp, ?_, by simpa using hB⟩
      intro u hu
      simp only [updatesOf, List.mem_map, List.mem_filter, decide_eq_true_eq] at hu
      obtain ⟨d, ⟨hd, hh⟩, rfl⟩ := hu
      exact ⟨prefix_single_of_head (hdirs d hd).1 hh, (hdirs d hd).2⟩
    have hpost := merge_spec H B fuel ds.fs [s0] (updatesOf dirs s0) (by simp; omega) hpre
    rcases List.mem_cons.mp hs with rfl | hs'
    · -- the split just merged: its entry and its sub-tree survive the remaining merges (they are for other splits)
      refine ⟨(merge H fuel ds.fs [s] (updatesOf dirs s)).2, ?_, hpost.dir, ?_⟩
      · rw [mergeSplits_splits_other H fuel dirs ss _ s hnd.1]; simp
      · obtain ⟨_, _, hfr⟩ := mergeSplits_wf_frame H B fuel hfuel hB dirs hdirs ss
          (DS.mk (merge H fuel ds.fs [s] (updatesOf dirs s)).1
            (fun x => if x = s then some (merge H fuel ds.fs [s] (updatesOf dirs s)).2 else ds.splits x)) hpost.wf hpost.depth
        apply hpost.exact.frame
        intro x hx
        rw [hpost.dir] at hx
        apply hfr
        intro s' hs' hsx
        exact hnd.1 ((single_prefix_unique hx hsx) ▸ hs')
    · exact ih _ hnd.2 hpost.wf hpost.depth s hs'

end Sedpack.Tree
