import SedpackModel.TreeCrash
import SedpackProofs.TreeEnum
/-! The effect-emitting merge refines `merge`; the install sequence it emits is *valid* (each document is well formed,
names only documents that already exist, and extends what it replaces); valid sequences are monotone, so every prefix
(crash point) lies between the committed store and the final one. -/
namespace Sedpack.Tree

/-! ## refinement: projections of the effect-emitting functions -/

theorem applyInstalls_append (fs : FS) (a b : List Install) : applyInstalls fs (a ++ b) = applyInstalls (applyInstalls fs a) b := by
  simp [applyInstalls, List.foldl_append]

theorem foldMergeE_fst (ME : FS → Dir → List Kid → (FS × Kid) × List Install) (M : FS → Dir → List Kid → FS × Kid)
    (h : ∀ fs e us, (ME fs e us).1 = M fs e us) (d : Dir) :
    ∀ (gs : List (Nat × List Kid)) (acc : (FS × List Kid) × List Install),
      (foldMergeE ME d gs acc).1 = foldMerge M d gs acc.1 := by
  intro gs
  induction gs with
  | nil => intro acc; rfl
  | cons g gs ih => intro acc; simp only [foldMergeE, foldMerge]; rw [ih]; simp only [h]

theorem mergeE_fst (H : SList → Nat) : ∀ (fuel : Nat) (fs : FS) (d : Dir) (us : List Kid),
    (mergeE H fuel fs d us).1 = merge H fuel fs d us := by
  intro fuel
  induction fuel with
  | zero => intro fs d us; rfl
  | succ fuel ih =>
    intro fs d us
    rw [merge_succ]
    simp only [mergeE]
    rw [foldMergeE_fst (mergeE H fuel) (merge H fuel) ih]

theorem foldMergeE_store (ME : FS → Dir → List Kid → (FS × Kid) × List Install)
    (h : ∀ fs e us, (ME fs e us).1.1 = applyInstalls fs (ME fs e us).2) (d : Dir) (fs0 : FS) :
    ∀ (gs : List (Nat × List Kid)) (acc : (FS × List Kid) × List Install), acc.1.1 = applyInstalls fs0 acc.2 →
      (foldMergeE ME d gs acc).1.1 = applyInstalls fs0 (foldMergeE ME d gs acc).2 := by
  intro gs
  induction gs with
  | nil => intro acc ha; exact ha
  | cons g gs ih =>
    intro acc ha
    simp only [foldMergeE]
    apply ih
    simp only [applyInstalls_append, ← ha]
    exact h _ _ _

theorem mergeE_store (H : SList → Nat) : ∀ (fuel : Nat) (fs : FS) (d : Dir) (us : List Kid),
    (mergeE H fuel fs d us).1.1 = applyInstalls fs (mergeE H fuel fs d us).2 := by
  intro fuel
  induction fuel with
  | zero => intro fs d us; rfl
  | succ fuel ih =>
    intro fs d us
    simp only [mergeE, writeConfig, applyInstalls_append]
    rw [← foldMergeE_store (mergeE H fuel) ih d fs _ _ rfl]
    rfl

/-! ## valid install sequences -/

/-- no document names a child whose document is missing -/
def ND (fs : FS) : Prop := ∀ y l, fs y = some l → ∀ k ∈ l.kids, fs k.dir ≠ none

/-- what one atomic replacement must satisfy, relative to the store it is applied to -/
structure StepOK (B : Nat) (fs : FS) (i : Install) : Prop where
  wfl : WFL i.1 i.2
  depth : ∀ c ∈ i.2.kids, c.dir.length ≤ B
  kidsExist : ∀ c ∈ i.2.kids, fs c.dir ≠ none
  files : filesAt fs i.1 <+: i.2.files
  kids : ∀ c ∈ kidsAt fs i.1, c.dir ∈ i.2.kids.map (·.dir)

def Valid (B : Nat) : FS → List Install → Prop
  | _, [] => True
  | fs, i :: rest => StepOK B fs i ∧ Valid B (fs.set i.1 i.2) rest

theorem valid_append (B : Nat) : ∀ (a b : List Install) (fs : FS),
    Valid B fs (a ++ b) ↔ Valid B fs a ∧ Valid B (applyInstalls fs a) b := by
  intro a
  induction a with
  | nil => intro b fs; simp [Valid, applyInstalls]
  | cons i a ih =>
    intro b fs
    simp only [List.cons_append, Valid, ih]
    simp only [applyInstalls, List.foldl_cons, and_assoc]

theorem valid_take (B : Nat) (fs : FS) (ins : List Install) (k : Nat) (h : Valid B fs ins) :
    Valid B fs (ins.take k) ∧ Valid B (applyInstalls fs (ins.take k)) (ins.drop k) := by
  rw [← valid_append, List.take_append_drop]; exact h

/-- the store invariants a reader relies on -/
structure SInv (B : Nat) (fs : FS) : Prop where
  wf : WF fs
  depth : DepthOK fs B
  nd : ND fs

/-- `fs'` shows a reader everything `fs` showed -/
structure Mono (fs fs' : FS) : Prop where
  ex : ∀ x, fs x ≠ none → fs' x ≠ none
  files : ∀ x, filesAt fs x <+: filesAt fs' x
  reach : ∀ a x, Reaches fs a x → Reaches fs' a x

theorem Mono.refl (fs : FS) : Mono fs fs := ⟨fun _ h => h, fun _ => List.prefix_refl _, fun _ _ h => h⟩

theorem Mono.trans {a b c : FS} (h1 : Mono a b) (h2 : Mono b c) : Mono a c :=
  ⟨fun x h => h2.ex x (h1.ex x h), fun x => List.IsPrefix.trans (h1.files x) (h2.files x),
   fun p x h => h2.reach p x (h1.reach p x h)⟩

theorem step_sinv (B : Nat) (fs : FS) (i : Install) (hs : StepOK B fs i) (hi : SInv B fs) : SInv B (fs.set i.1 i.2) := by
  refine ⟨?_, ?_, ?_⟩
  · intro x l hx
    by_cases hxd : x = i.1
    · subst hxd; rw [set_same] at hx; cases hx; exact hs.wfl
    · rw [set_other _ _ _ _ hxd] at hx; exact hi.wf x l hx
  · intro x l hx c hc
    by_cases hxd : x = i.1
    · subst hxd; rw [set_same] at hx; cases hx; exact hs.depth c hc
    · rw [set_other _ _ _ _ hxd] at hx; exact hi.depth x l hx c hc
  · intro x l hx c hc
    have hold : fs c.dir ≠ none := by
      by_cases hxd : x = i.1
      · subst hxd; rw [set_same] at hx; cases hx; exact hs.kidsExist c hc
      · rw [set_other _ _ _ _ hxd] at hx; exact hi.nd x l hx c hc
    by_cases hcd : c.dir = i.1
    · rw [hcd, set_same]; simp
    · rw [set_other _ _ _ _ hcd]; exact hold

theorem step_mono (B : Nat) (fs : FS) (i : Install) (hs : StepOK B fs i) : Mono fs (fs.set i.1 i.2) := by
  refine ⟨?_, ?_, ?_⟩
  · intro x hx
    by_cases hxd : x = i.1
    · rw [hxd, set_same]; simp
    · rw [set_other _ _ _ _ hxd]; exact hx
  · intro x
    by_cases hxd : x = i.1
    · subst hxd; simpa [filesAt, set_same] using hs.files
    · simp [filesAt, set_other _ _ _ _ hxd]
  · intro a x h
    induction h with
    | refl d => exact Reaches.refl _
    | @step d x c l hget hc _ ih =>
      by_cases hdd : d = i.1
      · subst hdd
        have : c ∈ kidsAt fs i.1 := by simp [kidsAt, hget, hc]
        obtain ⟨c', hc', hcd⟩ := List.mem_map.mp (hs.kids c this)
        exact Reaches.step (set_same _ _ _) hc' (by rw [hcd]; exact ih)
      · exact Reaches.step (by rw [set_other _ _ _ _ hdd]; exact hget) hc ih

theorem valid_sinv_mono (B : Nat) : ∀ (ins : List Install) (fs : FS), Valid B fs ins → SInv B fs →
    SInv B (applyInstalls fs ins) ∧ Mono fs (applyInstalls fs ins) := by
  intro ins
  induction ins with
  | nil => intro fs _ hi; exact ⟨hi, Mono.refl _⟩
  | cons i rest ih =>
    intro fs hv hi
    obtain ⟨hs, hr⟩ := hv
    obtain ⟨h1, h2⟩ := ih _ hr (step_sinv B fs i hs hi)
    exact ⟨h1, (step_mono B fs i hs).trans h2⟩

/-- what a reader enumerates only grows along `Mono` -/
theorem mono_shardsOf (B fuel : Nat) (fs fs' : FS) (hi : SInv B fs) (hi' : SInv B fs') (hm : Mono fs fs') (d : Dir)
    (hd : d.length ≤ B) (hf : B < fuel + d.length) (sh : Shard) (h : sh ∈ shardsOf fuel fs d) : sh ∈ shardsOf fuel fs' d := by
  obtain ⟨x, hx, hs⟩ := (mem_shardsOf B fuel fs d hi.wf hi.depth hd hf sh).mp h
  exact (mem_shardsOf B fuel fs' d hi'.wf hi'.depth hd hf sh).mpr ⟨x, hm.reach d x hx, (hm.files x).subset hs⟩

/-- **Crash points of a valid sequence.** After any prefix of a valid install sequence the store is well formed, names no
missing document, still enumerates everything the store enumerated before the sequence started, and enumerates nothing the
completed sequence does not enumerate. -/
theorem valid_crash_point (B fuel : Nat) (fs : FS) (ins : List Install) (hv : Valid B fs ins) (hi : SInv B fs) (k : Nat)
    (d : Dir) (hd : d.length ≤ B) (hf : B < fuel + d.length) :
    SInv B (applyInstalls fs (ins.take k)) ∧
    (∀ sh, sh ∈ shardsOf fuel fs d → sh ∈ shardsOf fuel (applyInstalls fs (ins.take k)) d) ∧
    (∀ sh, sh ∈ shardsOf fuel (applyInstalls fs (ins.take k)) d → sh ∈ shardsOf fuel (applyInstalls fs ins) d) := by
  obtain ⟨hv1, hv2⟩ := valid_take B fs ins k hv
  obtain ⟨hi1, hm1⟩ := valid_sinv_mono B _ fs hv1 hi
  obtain ⟨hi2, hm2⟩ := valid_sinv_mono B _ _ hv2 hi1
  rw [← applyInstalls_append, List.take_append_drop] at hi2 hm2
  exact ⟨hi1, fun sh h => mono_shardsOf B fuel _ _ hi hi1 hm1 d hd hf sh h,
    fun sh h => mono_shardsOf B fuel _ _ hi1 hi2 hm2 d hd hf sh h⟩

/-! ## the merge emits a valid sequence -/

/-- what `Crash.step (.install d doc)` demands of the new document, in M-TREE's terms -/
structure InstallOK (fs fs' : FS) (d : Dir) : Prop where
  written : ∃ l', fs' d = some l'
  kidsExist : ∀ l', fs' d = some l' → ∀ c ∈ l'.kids, fs' c.dir ≠ none ∧ c.dir.length = d.length + 1
  filesKept : filesAt fs' d = filesAt fs d
  kidsKept : ∀ l', fs' d = some l' → ∀ c ∈ kidsAt fs d, c.dir ∈ l'.kids.map (·.dir)

/-- **Children first, documents only grow** — at every level of the recursion. -/
theorem merge_installOK (H : SList → Nat) (B fuel : Nat) (fs : FS) (d : Dir) (us : List Kid)
    (hfuel : B < fuel + d.length) (hpre : Pre B fs d us) : InstallOK fs (merge H fuel fs d us).1 d := by
  have hpost := merge_spec H B fuel fs d us hfuel hpre
  obtain ⟨l', hl', hkids⟩ := hpost.kidsOrder
  refine ⟨⟨l', hl'⟩, ?_, hpost.files d, ?_⟩
  · intro l'' hl'' c hc
    rw [hl'] at hl''; cases hl''
    -- the returned info is exact, hence every child record points to an existing, exact document
    have hex := hpost.exact
    cases hex with
    | @mk k l hget _ _ _ hwfl hkidsEx =>
      rw [hpost.dir, hl'] at hget; cases hget
      refine ⟨?_, ?_⟩
      · have := hkidsEx c hc
        cases this with
        | @mk _ lc hgetc _ _ _ _ _ => rw [hgetc]; simp
      · obtain ⟨y, hy⟩ := hwfl.shape c hc
        rw [hpost.dir] at hy; rw [hy]; simp
  · intro l'' hl'' c hc
    rw [hl'] at hl''; cases hl''
    rw [hkids]
    -- c is a child recorded by the old document: its key is among the groups
    have hcroot : c ∈ ((fs d).getD {}).kids := by
      simp only [kidsAt] at hc
      cases hfd : fs d with
      | none => simp [hfd] at hc
      | some l => simpa [hfd] using hc
    have hgi := groupBy_inv d.length (us.filter (fun u => u.dir.length > d.length) ++ ((fs d).getD {}).kids)
    obtain ⟨vs, hvs, _⟩ := hgi.cover c (List.mem_append_right _ hcroot)
    have hcd : c.dir = d ++ [c.dir.getD d.length 0] := by
      cases hfd : fs d with
      | none => simp [hfd] at hcroot
      | some l =>
        simp [hfd] at hcroot
        obtain ⟨y, hy⟩ := (hpre.wf d l hfd).shape c hcroot
        rw [hy]; simp [List.getD]
    rw [hcd]
    exact List.mem_map.mpr ⟨_, hvs, rfl⟩


theorem applyInstalls_frame (x : Dir) : ∀ (ins : List Install) (fs : FS), (∀ i ∈ ins, i.1 ≠ x) → applyInstalls fs ins x = fs x := by
  intro ins
  induction ins with
  | nil => intro fs _; rfl
  | cons i rest ih =>
    intro fs h
    simp only [applyInstalls, List.foldl_cons]
    have := ih (fs.set i.1 i.2) (fun j hj => h j (List.mem_cons_of_mem _ hj))
    simp only [applyInstalls] at this
    rw [this, set_other _ _ _ _ (fun hx => h i List.mem_cons_self hx.symm)]

theorem foldMergeE_dirs (ME : FS → Dir → List Kid → (FS × Kid) × List Install)
    (h : ∀ fs e us, ∀ i ∈ (ME fs e us).2, e <+: i.1) (d : Dir) :
    ∀ (gs : List (Nat × List Kid)) (acc : (FS × List Kid) × List Install),
      ∀ i ∈ (foldMergeE ME d gs acc).2, i ∈ acc.2 ∨ ∃ g ∈ gs, (d ++ [g.1]) <+: i.1 := by
  intro gs
  induction gs with
  | nil => intro acc i hi; exact Or.inl hi
  | cons g gs ih =>
    intro acc i hi
    simp only [foldMergeE] at hi
    rcases ih _ i hi with h1 | ⟨g', hg', hp⟩
    · rcases List.mem_append.mp h1 with h2 | h2
      · exact Or.inl h2
      · exact Or.inr ⟨g, List.mem_cons_self, h _ _ _ i h2⟩
    · exact Or.inr ⟨g', List.mem_cons_of_mem _ hg', hp⟩

theorem mergeE_dirs (H : SList → Nat) : ∀ (fuel : Nat) (fs : FS) (d : Dir) (us : List Kid),
    ∀ i ∈ (mergeE H fuel fs d us).2, d <+: i.1 := by
  intro fuel
  induction fuel with
  | zero => intro fs d us i hi; simp [mergeE] at hi
  | succ fuel ih =>
    intro fs d us i hi
    simp only [mergeE, List.mem_append, List.mem_singleton] at hi
    rcases hi with hi | hi
    · rcases foldMergeE_dirs (mergeE H fuel) ih d _ _ i hi with h1 | ⟨g, _, hp⟩
      · simp at h1
      · exact prefix_trans' (List.prefix_append _ _) hp
    · rw [hi]; exact List.prefix_refl _

/-- the fold emits a valid sequence, given that each recursive call does -/
theorem foldMergeE_valid (H : SList → Nat) (B fuel : Nat) (fs : FS) (d : Dir) (hwf0 : WF fs)
    (ihV : ∀ fs e us, e.length = d.length + 1 → Pre B fs e us → ND fs → Valid B fs (mergeE H fuel fs e us).2)
    (hM : ∀ fs e us, e.length = d.length + 1 → Pre B fs e us →
      Post H B fs e us (merge H fuel fs e us).1 (merge H fuel fs e us).2) :
    ∀ (gs doneG : List (Nat × List Kid)) (acc : (FS × List Kid) × List Install),
      ((doneG ++ gs).map (·.1)).Nodup →
      (∀ g us, (g, us) ∈ gs → ∀ u ∈ us, (d ++ [g]) <+: u.dir ∧ u.dir.length ≤ B) →
      d.length + 1 ≤ B ∨ gs = [] →
      FoldInv H B fs d doneG acc.1 → ND acc.1.1 → acc.1.1 = applyInstalls fs acc.2 → Valid B fs acc.2 →
      Valid B fs (foldMergeE (mergeE H fuel) d gs acc).2 := by
  intro gs
  induction gs with
  | nil => intro doneG acc _ _ _ _ _ _ hv; exact hv
  | cons g gs ih =>
    intro doneG acc hnd hups hlen hinv hndg hst hv
    obtain ⟨key, us⟩ := g
    simp only [foldMergeE]
    have hB : d.length + 1 ≤ B := by
      rcases hlen with h | h
      · exact h
      · simp at h
    have hpre : Pre B acc.1.1 (d ++ [key]) us :=
      ⟨hinv.wf, hinv.depth, fun u hu => hups key us (by simp) u hu, by simp; omega⟩
    have hvm := ihV acc.1.1 (d ++ [key]) us (by simp) hpre hndg
    have hsi : SInv B acc.1.1 := ⟨hinv.wf, hinv.depth, hndg⟩
    have hstm := mergeE_store H fuel acc.1.1 (d ++ [key]) us
    obtain ⟨hsi', _⟩ := valid_sinv_mono B _ _ hvm hsi
    rw [← hstm] at hsi'
    have hstep := foldMerge_spec H B (merge H fuel) fs d hwf0 hM [(key, us)] doneG acc.1
      (by
        have : ((doneG ++ [(key, us)]).map (·.1)).Sublist ((doneG ++ (key, us) :: gs).map (·.1)) := by
          apply List.Sublist.map
          exact List.Sublist.append_left (by simp) _
        exact this.nodup hnd)
      (fun g' us' hm u hu => by
        simp only [List.mem_singleton, Prod.mk.injEq] at hm
        obtain ⟨rfl, rfl⟩ := hm
        exact hups _ _ (by simp) u hu)
      (Or.inl hB) hinv
    simp only [foldMerge] at hstep
    rw [← mergeE_fst] at hstep
    apply ih (doneG ++ [(key, us)])
    · simpa using hnd
    · intro g' us' hm u hu; exact hups g' us' (List.mem_cons_of_mem _ hm) u hu
    · exact Or.inl hB
    · exact hstep
    · exact hsi'.nd
    · simp only [applyInstalls_append, ← hst]; exact hstm
    · exact (valid_append B _ _ fs).mpr ⟨hv, by rw [← hst]; exact hvm⟩

/-- facts about the groups `merge` recurses into (the preamble of `merge_spec`, as a lemma) -/
theorem merge_groups (B : Nat) (fs : FS) (d : Dir) (us : List Kid) (hp : Pre B fs d us) :
    let deeper := us.filter (fun u => u.dir.length > d.length) ++ ((fs d).getD {}).kids
    ((groupBy d.length deeper).map (·.1)).Nodup ∧
    (∀ g vs, (g, vs) ∈ groupBy d.length deeper → ∀ u ∈ vs, (d ++ [g]) <+: u.dir ∧ u.dir.length ≤ B) ∧
    (d.length + 1 ≤ B ∨ groupBy d.length deeper = []) := by
  intro deeper
  have hrootwf : WFL d ((fs d).getD {}) := by
    cases hfd : fs d with
    | none => simp; exact wfl_default d
    | some l => simp; exact hp.wf d l hfd
  have hgi := groupBy_inv d.length deeper
  have hdeep : ∀ e ∈ deeper, d <+: e.dir ∧ d.length < e.dir.length ∧ e.dir.length ≤ B := by
    intro e he
    simp only [deeper, List.mem_append, List.mem_filter, decide_eq_true_eq] at he
    rcases he with ⟨h1, h2⟩ | h1
    · exact ⟨(hp.ups e h1).1, h2, (hp.ups e h1).2⟩
    · obtain ⟨y, hy⟩ := hrootwf.shape e h1
      refine ⟨by rw [hy]; exact List.prefix_append _ _, by rw [hy]; simp, ?_⟩
      cases hfd : fs d with
      | none => simp [hfd] at h1
      | some l => simp [hfd] at h1; exact hp.depth d l hfd e h1
  refine ⟨hgi.nodup, ?_, ?_⟩
  · intro g vs hm u hu
    obtain ⟨h1, h2⟩ := hgi.sound g vs hm u hu
    obtain ⟨hpre, hlt, hle⟩ := hdeep u h1
    refine ⟨?_, hle⟩
    obtain ⟨t, ht⟩ := hpre
    cases t with
    | nil => simp at ht; rw [← ht] at hlt; omega
    | cons y ys =>
      have hy : u.dir.getD d.length 0 = y := by rw [← ht]; simp [List.getD]
      rw [h2] at hy; subst hy
      exact ⟨ys, by rw [← ht]; simp⟩
  · cases hg : groupBy d.length deeper with
    | nil => right; rfl
    | cons p ps =>
      left
      have hne : ∃ e, e ∈ deeper := by
        cases hde : deeper with
        | nil => rw [hde] at hg; simp [groupBy] at hg
        | cons e es => exact ⟨e, by simp⟩
      obtain ⟨e, he⟩ := hne
      obtain ⟨_, hlt, hle⟩ := hdeep e he
      omega

/-- **The merge emits a valid install sequence**: children before the parent that names them, every document well formed
and an extension of the one it replaces — for every store, every depth, every set of updates. -/
theorem mergeE_valid (H : SList → Nat) (B : Nat) : ∀ (fuel : Nat) (fs : FS) (d : Dir) (us : List Kid),
    B < fuel + d.length → Pre B fs d us → ND fs → Valid B fs (mergeE H fuel fs d us).2 := by
  intro fuel
  induction fuel with
  | zero => intro fs d us hf hp; have := hp.len; omega
  | succ fuel ih =>
    intro fs d us hf hp hnd
    obtain ⟨hnodup, hgroups, hlenB⟩ := merge_groups B fs d us hp
    have hM : ∀ fs' e us', e.length = d.length + 1 → Pre B fs' e us' →
        Post H B fs' e us' (merge H fuel fs' e us').1 (merge H fuel fs' e us').2 :=
      fun fs' e us' hl hpre => merge_spec H B fuel fs' e us' (by omega) hpre
    have hfoldV := foldMergeE_valid H B fuel fs d hp.wf (fun fs' e us' hl hpre hn => ih fs' e us' (by omega) hpre hn) hM
      (groupBy d.length (us.filter (fun u => u.dir.length > d.length) ++ ((fs d).getD {}).kids)) [] ((fs, []), [])
      (by simpa using hnodup) hgroups hlenB
      ⟨hp.wf, hp.depth, fun x _ => rfl, by simp, by simp, by simp, fun x hx => Or.inl hx, by simp, fun x => rfl⟩
      hnd rfl trivial
    -- name the fold's result
    have hEq : mergeE H (fuel+1) fs d us =
      (writeConfig H (foldMergeE (mergeE H fuel) d (groupBy d.length (us.filter (fun u => u.dir.length > d.length) ++ ((fs d).getD {}).kids)) ((fs, []), [])).1.1 d
        { ((fs d).getD {}) with
          n := (((fs d).getD {}).n - sumN ((fs d).getD {}).kids) + sumN (foldMergeE (mergeE H fuel) d (groupBy d.length (us.filter (fun u => u.dir.length > d.length) ++ ((fs d).getD {}).kids)) ((fs, []), [])).1.2,
          kids := (foldMergeE (mergeE H fuel) d (groupBy d.length (us.filter (fun u => u.dir.length > d.length) ++ ((fs d).getD {}).kids)) ((fs, []), [])).1.2 },
       (foldMergeE (mergeE H fuel) d (groupBy d.length (us.filter (fun u => u.dir.length > d.length) ++ ((fs d).getD {}).kids)) ((fs, []), [])).2 ++
        [(d, { ((fs d).getD {}) with
          n := (((fs d).getD {}).n - sumN ((fs d).getD {}).kids) + sumN (foldMergeE (mergeE H fuel) d (groupBy d.length (us.filter (fun u => u.dir.length > d.length) ++ ((fs d).getD {}).kids)) ((fs, []), [])).1.2,
          kids := (foldMergeE (mergeE H fuel) d (groupBy d.length (us.filter (fun u => u.dir.length > d.length) ++ ((fs d).getD {}).kids)) ((fs, []), [])).1.2 })]) := by
      simp only [mergeE]
    generalize hr : foldMergeE (mergeE H fuel) d (groupBy d.length (us.filter (fun u => u.dir.length > d.length) ++ ((fs d).getD {}).kids)) ((fs, []), []) = r at hEq hfoldV
    generalize hdoc : ({ ((fs d).getD {}) with n := (((fs d).getD {}).n - sumN ((fs d).getD {}).kids) + sumN r.1.2, kids := r.1.2 } : SList) = doc at hEq
    rw [hEq]
    have hstore : r.1.1 = applyInstalls fs r.2 := by
      rw [← hr]; exact foldMergeE_store (mergeE H fuel) (mergeE_store H fuel) d fs _ _ rfl
    -- every install of the fold lies strictly below d
    have hbelow : ∀ i ∈ r.2, i.1 ≠ d := by
      intro i hi hid
      rw [← hr] at hi
      rcases foldMergeE_dirs (mergeE H fuel) (mergeE_dirs H fuel) d _ _ i hi with h1 | ⟨g, _, hpre⟩
      · simp at h1
      · rw [hid] at hpre; exact not_prefix_of_longer (by simp) hpre
    have hrd : r.1.1 d = fs d := by rw [hstore]; exact applyInstalls_frame d r.2 fs hbelow
    -- the facts about the final write, from merge_spec / merge_installOK through the refinement
    have hmerge : (merge H (fuel+1) fs d us).1 = r.1.1.set d doc := by
      rw [← mergeE_fst, hEq]; rfl
    have hpost := merge_spec H B (fuel+1) fs d us hf hp
    have hok := merge_installOK H B (fuel+1) fs d us hf hp
    rw [hmerge] at hpost hok
    refine (valid_append B _ _ fs).mpr ⟨hfoldV, ?_, trivial⟩
    rw [← hstore]
    refine ⟨hpost.wf d doc (set_same _ _ _), hpost.depth d doc (set_same _ _ _), ?_, ?_, ?_⟩
    · intro c hc
      obtain ⟨hex, hlen⟩ := hok.kidsExist doc (set_same _ _ _) c hc
      have hcd : c.dir ≠ d := by intro h; rw [h] at hlen; omega
      rwa [set_other _ _ _ _ hcd] at hex
    · have h1 := hok.filesKept
      simp only [filesAt, set_same, Option.map_some, Option.getD_some] at h1
      simp only [filesAt, hrd]
      show (Option.map (fun x => x.files) (fs d)).getD [] <+: doc.files
      rw [h1]; exact List.prefix_refl _
    · intro c hc
      have : kidsAt r.1.1 d = kidsAt fs d := by simp [kidsAt, hrd]
      rw [this] at hc
      exact hok.kidsKept doc (set_same _ _ _) c hc

/-! ## the whole session -/

theorem appendShards_eq_set (fs : FS) (d : Dir) (new : List Shard) : appendShards fs d new = fs.set d (leafDoc fs d new) := rfl

theorem leaf_stepOK (B : Nat) (fs : FS) (d : Dir) (new : List Shard) (hi : SInv B fs) : StepOK B fs (d, leafDoc fs d new) := by
  have hwf := appendShards_wf fs d new hi.wf
  have hdp := appendShards_depth fs d new B hi.depth
  rw [appendShards_eq_set] at hwf hdp
  refine ⟨hwf d _ (set_same _ _ _), hdp d _ (set_same _ _ _), ?_, ?_, ?_⟩
  · intro c hc
    cases hfd : fs d with
    | none => simp [leafDoc, hfd] at hc
    | some l => simp [leafDoc, hfd] at hc; exact hi.nd d l hfd c hc
  · cases hfd : fs d <;> simp [filesAt, leafDoc, hfd]
  · intro c hc
    cases hfd : fs d with
    | none => simp [kidsAt, hfd] at hc
    | some l =>
      simp [kidsAt, hfd] at hc
      exact List.mem_map.mpr ⟨c, by simp [leafDoc, hfd, hc], rfl⟩

theorem applyWritesE_spec (B : Nat) : ∀ (se : Session) (fs : FS), SInv B fs →
    (applyWritesE fs se).1 = applyWrites fs se ∧ (applyWritesE fs se).1 = applyInstalls fs (applyWritesE fs se).2 ∧
    Valid B fs (applyWritesE fs se).2 := by
  intro se
  induction se with
  | nil => intro fs _; exact ⟨rfl, rfl, trivial⟩
  | cons w rest ih =>
    intro fs hi
    have hs := leaf_stepOK B fs w.1 w.2 hi
    obtain ⟨h1, h2, h3⟩ := ih (appendShards fs w.1 w.2) (by rw [appendShards_eq_set]; exact step_sinv B fs _ hs hi)
    refine ⟨?_, ?_, hs, ?_⟩
    · simp only [applyWritesE, applyWrites, List.foldl_cons]; exact h1
    · simp only [applyWritesE, applyInstalls, List.foldl_cons]; rw [h2]; rfl
    · simp only [applyWritesE]; exact h3

theorem mergeSplitsE_spec (H : SList → Nat) (B fuel : Nat) (hfuel : B < fuel + 1) (hB : 1 ≤ B) (dirs : List Dir)
    (hdirs : ∀ d ∈ dirs, d ≠ [] ∧ d.length ≤ B) :
    ∀ (ss : List Nat) (ds : DS), SInv B ds.fs →
      (mergeSplitsE H fuel dirs ss ds).1 = mergeSplits H fuel dirs ss ds ∧
      (mergeSplitsE H fuel dirs ss ds).1.fs = applyInstalls ds.fs (mergeSplitsE H fuel dirs ss ds).2 ∧
      Valid B ds.fs (mergeSplitsE H fuel dirs ss ds).2 := by
  intro ss
  induction ss with
  | nil => intro ds _; exact ⟨rfl, rfl, trivial⟩
  | cons s ss ih =>
    intro ds hi
    have hpre : Pre B ds.fs [s] (updatesOf dirs s) := by
      refine ⟨hi.wf, hi.depth, ?_, by simpa using hB⟩
      intro u hu
      simp only [updatesOf, List.mem_map, List.mem_filter, decide_eq_true_eq] at hu
      obtain ⟨d, ⟨hd, hh⟩, rfl⟩ := hu
      exact ⟨prefix_single_of_head (hdirs d hd).1 hh, (hdirs d hd).2⟩
    have hv := mergeE_valid H B fuel ds.fs [s] (updatesOf dirs s) (by simp; omega) hpre hi.nd
    have hst := mergeE_store H fuel ds.fs [s] (updatesOf dirs s)
    obtain ⟨hi', _⟩ := valid_sinv_mono B _ _ hv hi
    rw [← hst] at hi'
    obtain ⟨h1, h2, h3⟩ := ih (DS.mk (mergeE H fuel ds.fs [s] (updatesOf dirs s)).1.1
      (fun x => if x = s then some (mergeE H fuel ds.fs [s] (updatesOf dirs s)).1.2 else ds.splits x)) hi'
    refine ⟨?_, ?_, ?_⟩
    · simp only [mergeSplitsE, mergeSplits]; rw [h1, mergeE_fst]
    · simp only [mergeSplitsE, applyInstalls_append]; rw [h2, ← hst]
    · simp only [mergeSplitsE]
      exact (valid_append B _ _ _).mpr ⟨hv, by rw [← hst]; exact h3⟩

theorem set_noop (fs : FS) (d : Dir) (l : SList) (h : fs d = some l) : fs.set d l = fs := by
  funext x
  by_cases hx : x = d
  · subst hx; rw [set_same, h]
  · rw [set_other _ _ _ _ hx]

theorem applyInstalls_noop : ∀ (ins : List Install) (fs : FS), (∀ i ∈ ins, fs i.1 = some i.2) → applyInstalls fs ins = fs := by
  intro ins
  induction ins with
  | nil => intro fs _; rfl
  | cons i rest ih =>
    intro fs h
    simp only [applyInstalls, List.foldl_cons]
    rw [set_noop fs i.1 i.2 (h i List.mem_cons_self)]
    exact ih fs (fun j hj => h j (List.mem_cons_of_mem _ hj))

theorem same_stepOK (B : Nat) (fs : FS) (d : Dir) (l : SList) (hi : SInv B fs) (h : fs d = some l) : StepOK B fs (d, l) :=
  ⟨hi.wf d l h, hi.depth d l h, hi.nd d l h, by simp [filesAt, h], by
    intro c hc
    simp [kidsAt, h] at hc
    exact List.mem_map.mpr ⟨c, hc, rfl⟩⟩

theorem valid_noop (B : Nat) : ∀ (ins : List Install) (fs : FS), SInv B fs → (∀ i ∈ ins, fs i.1 = some i.2) → Valid B fs ins := by
  intro ins
  induction ins with
  | nil => intro fs _ _; trivial
  | cons i rest ih =>
    intro fs hi h
    refine ⟨same_stepOK B fs i.1 i.2 hi (h i List.mem_cons_self), ?_⟩
    rw [set_noop fs i.1 i.2 (h i List.mem_cons_self)]
    exact ih fs hi (fun j hj => h j (List.mem_cons_of_mem _ hj))

theorem mem_dedupDirs (x : Dir) : ∀ l : List Dir, x ∈ dedupDirs l ↔ x ∈ l := by
  intro l
  induction l with
  | nil => simp [dedupDirs]
  | cons a as ih =>
    simp only [dedupDirs, List.mem_cons, List.mem_filter, ih, decide_eq_true_eq]
    by_cases h : x = a <;> simp [h]

theorem applyWrites_keeps : ∀ (se : Session) (fs : FS) (x : Dir), fs x ≠ none → applyWrites fs se x ≠ none := by
  intro se
  induction se with
  | nil => intro fs x h; exact h
  | cons w rest ih =>
    intro fs x h
    simp only [applyWrites, List.foldl_cons]
    apply ih
    by_cases hx : x = w.1
    · rw [hx, appendShards_eq_set, set_same]; simp
    · rw [appendShards_other _ _ _ _ hx]; exact h

theorem applyWrites_written : ∀ (se : Session) (fs : FS), ∀ w ∈ se, applyWrites fs se w.1 ≠ none := by
  intro se
  induction se with
  | nil => intro fs w hw; simp at hw
  | cons v rest ih =>
    intro fs w hw
    simp only [applyWrites, List.foldl_cons]
    rcases List.mem_cons.mp hw with rfl | hw'
    · exact applyWrites_keeps rest _ _ (by rw [appendShards_eq_set, set_same]; simp)
    · exact ih _ w hw'

theorem reinstalls_same (fs : FS) (dirs : List Dir) (h : ∀ d ∈ dirs, fs d ≠ none) : ∀ i ∈ reinstalls fs dirs, fs i.1 = some i.2 := by
  intro i hi
  simp only [reinstalls, List.mem_map] at hi
  obtain ⟨d, hd, rfl⟩ := hi
  have := h d ((mem_dedupDirs d dirs).mp hd)
  cases hfd : fs d with
  | none => exact absurd hfd this
  | some l => simp

theorem applyWrites_append (fs : FS) (a b : Session) : applyWrites fs (a ++ b) = applyWrites (applyWrites fs a) b := by
  simp [applyWrites, List.foldl_append]

theorem fillersE_spec (B : Nat) : ∀ (fl : List Session) (fs : FS), SInv B fs →
    (fillersE fs fl).1 = applyWrites fs fl.flatten ∧ (fillersE fs fl).1 = applyInstalls fs (fillersE fs fl).2 ∧
    Valid B fs (fillersE fs fl).2 := by
  intro fl
  induction fl with
  | nil => intro fs _; exact ⟨rfl, rfl, trivial⟩
  | cons f rest ih =>
    intro fs hi
    obtain ⟨a1, a2, a3⟩ := applyWritesE_spec B f fs hi
    obtain ⟨hia, _⟩ := valid_sinv_mono B _ _ a3 hi
    rw [← a2] at hia
    have hsame : ∀ i ∈ reinstalls (applyWritesE fs f).1 (f.map (·.1)), (applyWritesE fs f).1 i.1 = some i.2 := by
      apply reinstalls_same
      intro d hd
      obtain ⟨w, hw, rfl⟩ := List.mem_map.mp hd
      rw [a1]; exact applyWrites_written f fs w hw
    have hu := applyInstalls_noop _ _ hsame
    have hvu := valid_noop B _ _ hia hsame
    obtain ⟨r1, r2, r3⟩ := ih (applyWritesE fs f).1 hia
    refine ⟨?_, ?_, ?_⟩
    · simp only [fillersE, List.flatten_cons, applyWrites_append]; rw [r1, a1]
    · simp only [fillersE, applyInstalls_append]; rw [r2, ← a2, hu]
    · simp only [fillersE]
      refine (valid_append B _ _ _).mpr ⟨(valid_append B _ _ _).mpr ⟨a3, by rw [← a2]; exact hvu⟩, ?_⟩
      rw [applyInstalls_append, ← a2, hu]; exact r3

/-- **A whole writing call (any number of fillers) refines `session` and emits a valid install sequence.** -/
theorem multiSessionE_spec (H : SList → Nat) (B fuel : Nat) (hfuel : B < fuel + 1) (hB : 1 ≤ B) (ds : DS) (fl : List Session)
    (hse : ∀ w ∈ fl.flatten, w.1 ≠ [] ∧ w.1.length ≤ B) (hi : SInv B ds.fs) :
    (multiSessionE H fuel ds fl).1 = session H fuel ds fl.flatten ∧
    (session H fuel ds fl.flatten).fs = applyInstalls ds.fs (multiSessionE H fuel ds fl).2 ∧
    Valid B ds.fs (multiSessionE H fuel ds fl).2 := by
  obtain ⟨a1, a2, a3⟩ := fillersE_spec B fl ds.fs hi
  obtain ⟨hia, _⟩ := valid_sinv_mono B _ _ a3 hi
  rw [← a2] at hia
  have hdirs : ∀ d ∈ fl.flatten.map (·.1), d ≠ [] ∧ d.length ≤ B := by
    intro d hd; obtain ⟨w, hw, rfl⟩ := List.mem_map.mp hd; exact hse w hw
  obtain ⟨m1, m2, m3⟩ := mergeSplitsE_spec H B fuel hfuel hB (fl.flatten.map (·.1)) hdirs
    (dedup ((fl.flatten.map (·.1)).map (fun d => d.headD 0))) (DS.mk (fillersE ds.fs fl).1 ds.splits) hia
  have hE : (multiSessionE H fuel ds fl).1 = session H fuel ds fl.flatten := by
    simp only [multiSessionE, session]; rw [m1, a1]
  refine ⟨hE, ?_, ?_⟩
  · rw [← hE]
    simp only [multiSessionE, applyInstalls_append]
    rw [m2, a2]
  · simp only [multiSessionE]
    exact (valid_append B _ _ _).mpr ⟨a3, by rw [← a2]; exact m3⟩

/-- the case of one filler -/
theorem sessionE_spec (H : SList → Nat) (B fuel : Nat) (hfuel : B < fuel + 1) (hB : 1 ≤ B) (ds : DS) (se : Session)
    (hse : ∀ w ∈ se, w.1 ≠ [] ∧ w.1.length ≤ B) (hi : SInv B ds.fs) :
    (sessionE H fuel ds se).1 = session H fuel ds se ∧
    (session H fuel ds se).fs = applyInstalls ds.fs (sessionE H fuel ds se).2 ∧
    Valid B ds.fs (sessionE H fuel ds se).2 := by
  have := multiSessionE_spec H B fuel hfuel hB ds [se] (by simpa using hse) hi
  simpa [sessionE] using this

/-! ## any schedule of concurrent writers -/

/-- a rewrite only ever targets a list that exists at that moment (a filler rewrites lists it has written) -/
def RewOK : FS → List WEff → Prop
  | _, [] => True
  | fs, .close d sh :: r => RewOK (appendShards fs d [sh]) r
  | fs, .rewrite d :: r => fs d ≠ none ∧ RewOK fs r

theorem default_stepOK (B : Nat) (fs : FS) (d : Dir) (h : fs d = none) : StepOK B fs (d, {}) :=
  ⟨wfl_default d, by simp, by simp, by simp [filesAt, h], by simp [kidsAt, h]⟩

theorem workersE_spec (B : Nat) : ∀ (ws : List WEff) (fs : FS), SInv B fs →
    (workersE fs ws).1 = applyInstalls fs (workersE fs ws).2 ∧ Valid B fs (workersE fs ws).2 ∧
    (RewOK fs ws → (workersE fs ws).1 = applyWrites fs (closesOf ws)) := by
  intro ws
  induction ws with
  | nil => intro fs _; exact ⟨rfl, trivial, fun _ => rfl⟩
  | cons e r ih =>
    intro fs hi
    cases e with
    | close d sh =>
      have hs := leaf_stepOK B fs d [sh] hi
      obtain ⟨h1, h2, h3⟩ := ih (appendShards fs d [sh]) (by rw [appendShards_eq_set]; exact step_sinv B fs _ hs hi)
      refine ⟨?_, ⟨hs, h2⟩, ?_⟩
      · simp only [workersE, applyInstalls, List.foldl_cons]; rw [h1]; rfl
      · intro hr
        simp only [workersE, closesOf, applyWrites, List.foldl_cons]
        exact h3 hr
    | rewrite d =>
      have hs : StepOK B fs (d, (fs d).getD {}) := by
        cases hfd : fs d with
        | none => simpa using default_stepOK B fs d hfd
        | some l => simpa using same_stepOK B fs d l hi hfd
      obtain ⟨h1, h2, h3⟩ := ih (fs.set d ((fs d).getD {})) (step_sinv B fs _ hs hi)
      refine ⟨?_, ⟨hs, h2⟩, ?_⟩
      · simp only [workersE, applyInstalls, List.foldl_cons]; rw [h1]; rfl
      · intro hr
        obtain ⟨hne, hr'⟩ := hr
        simp only [workersE, closesOf]
        have hnoop : fs.set d ((fs d).getD {}) = fs := by
          cases hfd : fs d with
          | none => exact absurd hfd hne
          | some l => exact set_noop fs d l hfd
        rw [hnoop] at h3 ⊢
        exact h3 hr'

/-- **Any schedule of the workers of a multi-writer call, then the parent's merges: valid.** -/
theorem concurrentCallE_spec (H : SList → Nat) (B fuel : Nat) (hfuel : B < fuel + 1) (hB : 1 ≤ B) (ds : DS) (ws : List WEff)
    (hse : ∀ w ∈ closesOf ws, w.1 ≠ [] ∧ w.1.length ≤ B) (hi : SInv B ds.fs) :
    Valid B ds.fs (concurrentCallE H fuel ds ws).2 ∧
    (RewOK ds.fs ws → (concurrentCallE H fuel ds ws).1 = session H fuel ds (closesOf ws) ∧
      (session H fuel ds (closesOf ws)).fs = applyInstalls ds.fs (concurrentCallE H fuel ds ws).2) := by
  obtain ⟨a1, a2, a3⟩ := workersE_spec B ws ds.fs hi
  obtain ⟨hia, _⟩ := valid_sinv_mono B _ _ a2 hi
  rw [← a1] at hia
  have hdirs : ∀ d ∈ (closesOf ws).map (·.1), d ≠ [] ∧ d.length ≤ B := by
    intro d hd; obtain ⟨w, hw, rfl⟩ := List.mem_map.mp hd; exact hse w hw
  obtain ⟨m1, m2, m3⟩ := mergeSplitsE_spec H B fuel hfuel hB ((closesOf ws).map (·.1)) hdirs
    (dedup (((closesOf ws).map (·.1)).map (fun d => d.headD 0))) (DS.mk (workersE ds.fs ws).1 ds.splits) hia
  refine ⟨?_, ?_⟩
  · simp only [concurrentCallE]
    exact (valid_append B _ _ _).mpr ⟨a2, by rw [← a1]; exact m3⟩
  · intro hr
    have hE : (concurrentCallE H fuel ds ws).1 = session H fuel ds (closesOf ws) := by
      simp only [concurrentCallE, session]; rw [m1, a3 hr]
    refine ⟨hE, ?_⟩
    rw [← hE]
    simp only [concurrentCallE, applyInstalls_append]
    rw [m2, a1]

end Sedpack.Tree
