import SedpackModel.Filler
namespace Sedpack.Fill

def Roll (eps : Nat) (cur : Prog) (md : Nat) : Prop :=
  eps ≤ cur.written ∨ (md ≠ 0 ∧ cur.shard.md ≠ 0 ∧ md ≠ cur.shard.md)

instance (eps cur md) : Decidable (Roll eps cur md) := by unfold Roll; infer_instance

def rollClosed (eps : Nat) (cur : Prog) : Closed :=
  { md := cur.shard.md, n := cur.shard.n, exs := cur.shard.exs,
    why := (if eps ≤ cur.written then Why.full else Why.mdChange) }

theorem write_roll_fail (eps) (ss : SplitSt) (md ex ok) (h : Roll eps (ss.prog.getD {}) md)
    (he : (ss.prog.getD {}).shard.exs = []) :
    writeSplit { eps := eps, attachFirst := false } ss md ex ok
      = ({ ss with prog := some (ss.prog.getD {}) }, .closeFailed) := by
  unfold Roll at h
  simp [writeSplit, closeShard, he, h]

theorem write_roll_ok (eps) (ss : SplitSt) (md ex) (h : Roll eps (ss.prog.getD {}) md)
    (he : (ss.prog.getD {}).shard.exs ≠ []) :
    writeSplit { eps := eps, attachFirst := false } ss md ex true
      = ({ prog := some { shard := { md := md, n := 1, exs := [(ex, md)] }, written := 1 },
           closed := ss.closed ++ [rollClosed eps (ss.prog.getD {})] }, .ok) := by
  unfold Roll at h
  simp [writeSplit, closeShard, he, h, rollClosed]
  by_cases hm : md = 0 <;> simp [hm]

theorem write_roll_rej (eps) (ss : SplitSt) (md ex) (h : Roll eps (ss.prog.getD {}) md)
    (he : (ss.prog.getD {}).shard.exs ≠ []) :
    writeSplit { eps := eps, attachFirst := false } ss md ex false
      = ({ prog := some {}, closed := ss.closed ++ [rollClosed eps (ss.prog.getD {})] }, .rejected) := by
  unfold Roll at h
  simp [writeSplit, closeShard, he, h, rollClosed]

theorem write_stay_ok (eps) (ss : SplitSt) (md ex) (h : ¬ Roll eps (ss.prog.getD {}) md) :
    writeSplit { eps := eps, attachFirst := false } ss md ex true
      = ({ ss with prog := some { shard := { md := (if md = 0 then (ss.prog.getD {}).shard.md else md),
                                              n := (ss.prog.getD {}).shard.n + 1,
                                              exs := (ss.prog.getD {}).shard.exs ++ [(ex, md)] },
                                   written := (ss.prog.getD {}).written + 1 } }, .ok) := by
  unfold Roll at h
  simp [writeSplit, h]
  by_cases hm : md = 0 <;> simp [hm]

theorem write_stay_rej (eps) (ss : SplitSt) (md ex) (h : ¬ Roll eps (ss.prog.getD {}) md) :
    writeSplit { eps := eps, attachFirst := false } ss md ex false
      = ({ ss with prog := some (ss.prog.getD {}) }, .rejected) := by
  unfold Roll at h
  simp [writeSplit, h]

structure ClosedOK (eps : Nat) (c : Closed) : Prop where
  pos : 1 ≤ c.n
  le : c.n ≤ eps
  len : c.n = c.exs.length
  lab : ∀ q ∈ c.exs, q.2 ≠ 0 → q.2 = c.md
  full : c.why = .full → c.n = eps
  notExit : c.why ≠ .exit

structure ProgOK (eps : Nat) (p : Prog) : Prop where
  len : p.written = p.shard.exs.length
  n : p.shard.n = p.written
  le : p.written ≤ eps
  md0 : p.written = 0 → p.shard.md = 0
  lab : ∀ q ∈ p.shard.exs, q.2 ≠ 0 → q.2 = p.shard.md

def openExs (ss : SplitSt) : List (Nat × Nat) := (ss.prog.getD {}).shard.exs

structure Inv (eps : Nat) (ss : SplitSt) (log : List (Nat × Nat)) : Prop where
  closed : ∀ c ∈ ss.closed, ClosedOK eps c
  prog : ProgOK eps (ss.prog.getD {})
  cons : ss.closed.flatMap (·.exs) ++ openExs ss = log

theorem progOK_default (eps : Nat) : ProgOK eps {} := by
  constructor <;> simp

theorem inv_init (eps : Nat) : Inv eps {} [] := by
  constructor
  · simp
  · simpa using progOK_default eps
  · simp [openExs]

theorem roll_nonempty (eps : Nat) (heps : 1 ≤ eps) (cur : Prog) (md : Nat) (hc : ProgOK eps cur)
    (h : Roll eps cur md) : cur.shard.exs ≠ [] := by
  intro he
  have h0 : cur.written = 0 := by rw [hc.len, he]; rfl
  have hm := hc.md0 h0
  unfold Roll at h
  omega

theorem rollClosed_ok (eps : Nat) (cur : Prog) (hc : ProgOK eps cur) (hne : cur.shard.exs ≠ []) :
    ClosedOK eps (rollClosed eps cur) := by
  have hl := hc.len; have hn := hc.n; have hle := hc.le
  have hpos : 0 < cur.shard.exs.length := List.length_pos_iff.mpr hne
  constructor
  · simp only [rollClosed]; omega
  · simp only [rollClosed]; omega
  · simp only [rollClosed]; omega
  · exact hc.lab
  · simp only [rollClosed]; intro hw; split at hw
    · omega
    · cases hw
  · simp only [rollClosed]; split <;> simp

theorem writeSplit_inv (eps : Nat) (heps : 1 ≤ eps) (ss : SplitSt) (log : List (Nat × Nat))
    (md : Nat) (ex : Nat) (ok : Bool) (hi : Inv eps ss log) :
    Inv eps (writeSplit { eps := eps, attachFirst := false } ss md ex ok).1
        (if ok then log ++ [(ex, md)] else log) ∧
    (writeSplit { eps := eps, attachFirst := false } ss md ex ok).2 = (if ok then .ok else .rejected) := by
  have hcur := hi.prog
  have hcons := hi.cons
  unfold openExs at hcons
  by_cases hroll : Roll eps (ss.prog.getD {}) md
  · have hne := roll_nonempty eps heps _ md hcur hroll
    have hnew := rollClosed_ok eps _ hcur hne
    have hcl : ∀ c ∈ ss.closed ++ [rollClosed eps (ss.prog.getD {})], ClosedOK eps c := by
      intro c hcm
      simp only [List.mem_append, List.mem_singleton] at hcm
      rcases hcm with hcm | hcm
      · exact hi.closed c hcm
      · subst hcm; exact hnew
    cases ok
    · rw [write_roll_rej eps ss md ex hroll hne]
      refine ⟨⟨hcl, by simpa using progOK_default eps, ?_⟩, by simp⟩
      simp [openExs, List.flatMap_append, rollClosed, hcons]
    · rw [write_roll_ok eps ss md ex hroll hne]
      refine ⟨⟨hcl, ?_, ?_⟩, by simp⟩
      · constructor <;> simp <;> omega
      · simp [openExs, List.flatMap_append, rollClosed, ← hcons]
  · cases ok
    · rw [write_stay_rej eps ss md ex hroll]
      refine ⟨⟨hi.closed, by simpa using hcur, ?_⟩, by simp⟩
      simp [openExs, hcons]
    · rw [write_stay_ok eps ss md ex hroll]
      have hl := hcur.len; have hn := hcur.n; have hle := hcur.le
      unfold Roll at hroll
      refine ⟨⟨hi.closed, ?_, ?_⟩, by simp⟩
      · constructor
        · simp; omega
        · simp; omega
        · simp; omega
        · simp
        · intro q hq hq0
          simp only [Option.getD_some, List.mem_append, List.mem_singleton] at hq ⊢
          rcases hq with hq | hq
          · have hlab := hcur.lab q hq hq0
            split
            · exact hlab
            · rename_i hm
              -- an earlier example with non-empty metadata has the same value, else we rolled over
              by_cases hp0 : (ss.prog.getD {}).shard.md = 0
              · rw [hp0] at hlab; exact absurd hlab hq0
              · omega
          · subst hq
            simp only [] at hq0 ⊢
            simp [hq0]
      · simp [openExs, ← hcons]

end Sedpack.Fill

namespace Sedpack.Fill

/-- the accepted writes of split `sp`, in order, with the metadata argument of each -/
def accepted (ops : List Op) (sp : Nat) : List (Nat × Nat) :=
  ops.filterMap (fun | .write s md ex ok => if s = sp ∧ ok = true then some (ex, md) else none)

def outcome : Op → Out
  | .write _ _ _ ok => if ok then .ok else .rejected

theorem accepted_cons (op : Op) (ops : List Op) (sp : Nat) :
    accepted (op :: ops) sp = accepted [op] sp ++ accepted ops sp := by
  simp only [accepted, List.filterMap_cons]
  split <;> simp

theorem accepted_append (a b : List Op) (sp : Nat) : accepted (a ++ b) sp = accepted a sp ++ accepted b sp := by
  simp [accepted, List.filterMap_append]

/-- the invariant holds along every run, and outcomes are decided by the verdicts alone -/
theorem run_inv (eps : Nat) (heps : 1 ≤ eps) (ops : List Op) :
    ∀ (s : St) (log : Nat → List (Nat × Nat)), (∀ sp, Inv eps (s sp) (log sp)) →
      (∀ sp, Inv eps ((run { eps := eps, attachFirst := false } s ops).1 sp) (log sp ++ accepted ops sp)) ∧
      (run { eps := eps, attachFirst := false } s ops).2 = ops.map outcome := by
  induction ops with
  | nil => intro s log h; simp [run, accepted]; exact h
  | cons op ops ih =>
    intro s log h
    cases op with
    | write sp0 md ex ok =>
      have hw := writeSplit_inv eps heps (s sp0) (log sp0) md ex ok (h sp0)
      let s1 : St := (step { eps := eps, attachFirst := false } s (.write sp0 md ex ok)).1
      let log1 : Nat → List (Nat × Nat) := fun sp => log sp ++ accepted [.write sp0 md ex ok] sp
      have h1 : ∀ sp, Inv eps (s1 sp) (log1 sp) := by
        intro sp
        by_cases hsp : sp = sp0
        · subst hsp
          have : s1 sp = (writeSplit { eps := eps, attachFirst := false } (s sp) md ex ok).1 := by
            simp [s1, step]
          rw [this]
          have hl : log1 sp = (if ok = true then log sp ++ [(ex, md)] else log sp) := by
            simp only [log1, accepted, List.filterMap_cons, List.filterMap_nil]
            cases ok <;> simp
          rw [hl]; exact hw.1
        · have : s1 sp = s sp := by simp [s1, step, hsp]
          rw [this]
          have hl : log1 sp = log sp := by
            have hne : ¬ sp0 = sp := fun h => hsp h.symm
            simp [log1, accepted, hne]
          rw [hl]; exact h sp
      have := ih s1 log1 h1
      constructor
      · intro sp
        have h2 := this.1 sp
        simp only [run]
        rw [accepted_cons]
        simpa [log1, List.append_assoc] using h2
      · simp only [run, List.map_cons]
        rw [this.2]
        congr 1
        simpa [step, outcome] using hw.2

/-- what every listed shard satisfies once the session is closed -/
structure ListedOK (eps : Nat) (c : Closed) : Prop where
  pos : 1 ≤ c.n
  le : c.n ≤ eps
  len : c.n = c.exs.length
  lab : ∀ q ∈ c.exs, q.2 ≠ 0 → q.2 = c.md
  full : c.why = .full → c.n = eps

theorem ClosedOK.listed {eps c} (h : ClosedOK eps c) : ListedOK eps c :=
  ⟨h.pos, h.le, h.len, h.lab, h.full⟩

/-- `__exit__` on a split that satisfies the invariant never fails; it appends at most one shard
(closed because the session ended), and the concatenated contents are the log. -/
theorem exit_inv (eps : Nat) (ss : SplitSt) (log : List (Nat × Nat)) (hi : Inv eps ss log) :
    ∃ fin, exitSplit ss = some fin ∧ fin.prog = none ∧
      (∀ c ∈ fin.closed, ListedOK eps c) ∧
      fin.closed.flatMap (·.exs) = log ∧
      (∀ c ∈ fin.closed.dropLast, c.why ≠ .exit) ∧
      (fin.closed = ss.closed ∨ ∃ c, fin.closed = ss.closed ++ [c] ∧ c.why = .exit) := by
  have hcons := hi.cons
  unfold openExs at hcons
  cases hp : ss.prog with
  | none =>
    refine ⟨ss, by simp [exitSplit, hp], hp, ?_, ?_, ?_, Or.inl rfl⟩
    · intro c hc; exact (hi.closed c hc).listed
    · simpa [hp] using hcons
    · intro c hc; exact (hi.closed c (List.dropLast_subset _ hc)).notExit
  | some p =>
    have hpk : ProgOK eps p := by simpa [hp] using hi.prog
    by_cases hw : p.written > 0
    · have hne : p.shard.exs ≠ [] := by
        intro he; have := hpk.len; rw [he] at this; simp at this; omega
      refine ⟨{ prog := none, closed := ss.closed ++ [{ md := p.shard.md, n := p.shard.n, exs := p.shard.exs, why := .exit }] },
        by simp [exitSplit, hp, hw, closeShard, hne], rfl, ?_, ?_, ?_, Or.inr ⟨_, rfl, rfl⟩⟩
      · intro c hc
        simp only [List.mem_append, List.mem_singleton] at hc
        rcases hc with hc | hc
        · exact (hi.closed c hc).listed
        · subst hc
          have hl := hpk.len; have hn := hpk.n; have hle := hpk.le
          exact ⟨by simp only []; omega, by simp only []; omega, by simp only []; omega, hpk.lab, by intro h; cases h⟩
      · simp [List.flatMap_append, ← hcons, hp]
      · intro c hc
        simp only [List.dropLast_concat] at hc
        exact (hi.closed c hc).notExit
    · have h0 : p.written = 0 := by omega
      have he : p.shard.exs = [] := by
        have := hpk.len; rw [h0] at this; exact List.length_eq_zero_iff.mp this.symm
      refine ⟨{ ss with prog := none }, by simp [exitSplit, hp, hw], rfl, ?_, ?_, ?_, Or.inl rfl⟩
      · intro c hc; exact (hi.closed c hc).listed
      · simpa [hp, he] using hcons
      · intro c hc; exact (hi.closed c (List.dropLast_subset _ hc)).notExit

end Sedpack.Fill
