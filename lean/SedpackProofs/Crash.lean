import SedpackModel.Crash
/-! Crash-consistency invariants of M-CRASH, for every reachable state (= every crash point). -/
namespace Sedpack.Crash

theorem sub_mem {α} [DecidableEq α] {a b : List α} (h : sub a b = true) {x : α} (hx : x ∈ a) : x ∈ b := by
  simp only [sub, List.all_eq_true] at h
  simpa using h x hx

structure Inv (s : St) : Prop where
  /-- every installed document names only closed (complete, hashed) shard files -/
  listedClosed : ∀ d doc, s.docs d = some doc → ∀ f ∈ doc.files, f ∈ s.closed
  /-- every child named by an installed document has its own document installed (children first) -/
  kidsInstalled : ∀ d doc, s.docs d = some doc → ∀ c ∈ doc.kids, (s.docs c).isSome = true
  /-- the description names only installed lists (lists before the description) -/
  rootsInstalled : ∀ r ∈ s.roots, (s.docs r).isSome = true
  /-- a closed shard file is never open for writing again -/
  closedNotOpen : ∀ f ∈ s.closed, f ∉ s.opened
  openNodup : s.opened.Nodup

inductive Reach (s0 : St) : St → Prop
  | init : Reach s0 s0
  | step {s s' l} : Reach s0 s → step s l = some s' → Reach s0 s'

theorem inv_step (s s' : St) (l : Lbl) (hi : Inv s) (hs : step s l = some s') : Inv s' := by
  cases l with
  | shardBegin f =>
    simp only [step] at hs
    split at hs
    · simp at hs
    · rename_i hf
      simp at hs; subst hs
      refine ⟨hi.listedClosed, hi.kidsInstalled, hi.rootsInstalled, ?_, ?_⟩
      · intro g hg hmem
        simp only [List.mem_cons] at hmem
        rcases hmem with h | h
        · subst h; exact hf (Or.inl hg)
        · exact hi.closedNotOpen g hg h
      · simp only [List.nodup_cons]; exact ⟨fun h => hf (Or.inr h), hi.openNodup⟩
  | shardAppend f =>
    simp only [step] at hs
    split at hs <;> simp at hs
    subst hs; exact hi
  | shardClose f =>
    simp only [step] at hs
    split at hs
    · simp at hs; subst hs
      refine ⟨?_, hi.kidsInstalled, hi.rootsInstalled, ?_, hi.openNodup.erase f⟩
      · intro d doc hd g hg; simp only [List.mem_cons]; right; exact hi.listedClosed d doc hd g hg
      · intro g hg hmem
        simp only [List.mem_cons] at hg
        have hme := (hi.openNodup.mem_erase_iff).mp hmem
        rcases hg with h | h
        · exact hme.1 h
        · exact hi.closedNotOpen g h hme.2
    · simp at hs
  | tmpWrite d =>
    simp only [step] at hs
    simp at hs; subst hs
    exact ⟨hi.listedClosed, hi.kidsInstalled, hi.rootsInstalled, hi.closedNotOpen, hi.openNodup⟩
  | install d doc =>
    simp only [step] at hs
    split at hs
    · rename_i hg
      simp at hs; subst hs
      obtain ⟨h1, h2, _, _, _⟩ := hg
      simp only [List.all_eq_true] at h1 h2
      refine ⟨?_, ?_, ?_, hi.closedNotOpen, hi.openNodup⟩
      · intro x dx hx g hgm
        simp only [] at hx
        split at hx
        · cases hx; simpa using h1 g hgm
        · exact hi.listedClosed x dx hx g hgm
      · intro x dx hx c hc
        simp only [] at hx ⊢
        have hold : ((s.docs c).isSome = true) := by
          split at hx
          · cases hx; exact h2 c hc
          · exact hi.kidsInstalled x dx hx c hc
        split
        · rfl
        · exact hold
      · intro r hr
        simp only []
        split
        · rfl
        · exact hi.rootsInstalled r hr
    · simp at hs
  | installInfo roots =>
    simp only [step] at hs
    split at hs
    · rename_i hg
      simp at hs; subst hs
      refine ⟨hi.listedClosed, hi.kidsInstalled, ?_, hi.closedNotOpen, hi.openNodup⟩
      intro r hr
      have := hg.1
      simp only [List.all_eq_true] at this
      exact this r hr
    · simp at hs

theorem inv_reach (s0 s : St) (h0 : Inv s0) (h : Reach s0 s) : Inv s := by
  induction h with
  | init => exact h0
  | step _ hs ih => exact inv_step _ _ _ ih hs

/-- a reachable shard is closed -/
theorem reachFrom_closed (s : St) (hi : Inv s) {d : Dir} {f : Nat} (h : ReachFrom s d f) : f ∈ s.closed := by
  induction h with
  | direct hd hf => exact hi.listedClosed _ _ hd _ hf
  | viaKid _ _ _ ih => exact ih

/-- one effect never makes a reachable shard unreachable -/
theorem reachFrom_mono (s s' : St) (l : Lbl) (hs : step s l = some s') {d : Dir} {f : Nat}
    (h : ReachFrom s d f) : ReachFrom s' d f := by
  cases l with
  | shardBegin g =>
    simp only [step] at hs; split at hs <;> simp at hs; subst hs
    induction h with
    | direct hd hf => exact ReachFrom.direct hd hf
    | viaKid hd hc _ ih => exact ReachFrom.viaKid hd hc ih
  | shardAppend g =>
    simp only [step] at hs; split at hs <;> simp at hs; subst hs; exact h
  | shardClose g =>
    simp only [step] at hs; split at hs <;> simp at hs; subst hs
    induction h with
    | direct hd hf => exact ReachFrom.direct hd hf
    | viaKid hd hc _ ih => exact ReachFrom.viaKid hd hc ih
  | tmpWrite d0 =>
    simp only [step] at hs; simp at hs; subst hs
    induction h with
    | direct hd hf => exact ReachFrom.direct hd hf
    | viaKid hd hc _ ih => exact ReachFrom.viaKid hd hc ih
  | install d0 doc =>
    simp only [step] at hs
    split at hs
    · rename_i hg
      simp at hs; subst hs
      obtain ⟨_, _, h3, h4, _⟩ := hg
      induction h with
      | @direct x dx g hd hf =>
        by_cases hx : x = d0
        · subst hx
          refine ReachFrom.direct (doc := doc) (by simp) ?_
          rw [hd] at h3; exact sub_mem h3 hf
        · exact ReachFrom.direct (doc := dx) (by simp [hx, hd]) hf
      | @viaKid x dx c g hd hc _ ih =>
        by_cases hx : x = d0
        · subst hx
          refine ReachFrom.viaKid (doc := doc) (by simp) ?_ ih
          rw [hd] at h4; exact sub_mem h4 hc
        · exact ReachFrom.viaKid (doc := dx) (by simp [hx, hd]) hc ih
    · simp at hs
  | installInfo roots =>
    simp only [step] at hs; split at hs <;> simp at hs; subst hs
    induction h with
    | direct hd hf => exact ReachFrom.direct hd hf
    | viaKid hd hc _ ih => exact ReachFrom.viaKid hd hc ih

theorem reachable_mono (s s' : St) (l : Lbl) (hs : step s l = some s') {f : Nat} (h : Reachable s f) : Reachable s' f := by
  obtain ⟨r, hr, hrf⟩ := h
  refine ⟨r, ?_, reachFrom_mono s s' l hs hrf⟩
  cases l with
  | installInfo roots =>
    simp only [step] at hs
    split at hs
    · rename_i hg; simp at hs; subst hs; exact sub_mem hg.2 hr
    · simp at hs
  | shardBegin g => simp only [step] at hs; split at hs <;> simp at hs; subst hs; exact hr
  | shardAppend g => simp only [step] at hs; split at hs <;> simp at hs; subst hs; exact hr
  | shardClose g => simp only [step] at hs; split at hs <;> simp at hs; subst hs; exact hr
  | tmpWrite d0 => simp only [step] at hs; simp at hs; subst hs; exact hr
  | install d0 doc => simp only [step] at hs; split at hs <;> simp at hs; subst hs; exact hr

theorem closed_mono (s s' : St) (l : Lbl) (hs : step s l = some s') {f : Nat} (h : f ∈ s.closed) : f ∈ s'.closed := by
  cases l <;> simp only [step] at hs <;> (try split at hs) <;> simp at hs <;> (try subst hs) <;> simp_all

theorem accepts_reach (s0 : St) : ∀ (tr : List Lbl) (s s' : St), Reach s0 s → accepts s tr = some s' → Reach s0 s' := by
  intro tr
  induction tr with
  | nil => intro s s' h ha; simp [accepts] at ha; subst ha; exact h
  | cons l ls ih =>
    intro s s' h ha
    simp only [accepts] at ha
    cases hs : step s l with
    | none => simp [hs] at ha
    | some s1 => simp [hs] at ha; exact ih s1 s' (Reach.step h hs) ha

/-- every prefix of an accepted effect sequence is accepted: every crash point is a reachable state -/
theorem accepts_prefix : ∀ (tr pre : List Lbl) (s s' : St), pre <+: tr → accepts s tr = some s' → ∃ sp, accepts s pre = some sp := by
  intro tr
  induction tr with
  | nil => intro pre s s' hp _; have : pre = [] := List.prefix_nil.mp hp; subst this; exact ⟨s, rfl⟩
  | cons l ls ih =>
    intro pre s s' hp ha
    cases pre with
    | nil => exact ⟨s, rfl⟩
    | cons p ps =>
      have hpl : p = l ∧ ps <+: ls := by
        obtain ⟨t, ht⟩ := hp
        simp at ht; exact ⟨ht.1, ⟨t, ht.2⟩⟩
      obtain ⟨rfl, hps⟩ := hpl
      simp only [accepts] at ha ⊢
      cases hs : step s p with
      | none => simp [hs] at ha
      | some s1 => simp [hs] at ha ⊢; exact ih ps s1 s' hps ha

end Sedpack.Crash
