import SedpackModel.Par
/-! Non-interference of components with private state: every interleaving projects to the solo runs. -/
namespace Sedpack.Par

variable {σ lbl : Type}

/-- **Non-interference.**  Under every schedule, what happens to component `i` is what happens when it runs alone through its own
steps. -/
theorem runPar_proj (C : Comp σ lbl) (sched : List (Nat × lbl)) (cs cs' : List σ) (h : runPar C cs sched = some cs')
    (i : Nat) (c : σ) (hc : cs[i]? = some c) :
    ∃ c', cs'[i]? = some c' ∧ runSolo C c (proj sched i) = some c' := by
  induction sched generalizing cs c with
  | nil =>
    simp [runPar] at h; subst h
    exact ⟨c, hc, by simp [proj, runSolo]⟩
  | cons x xs ih =>
    simp only [runPar] at h
    cases hs : stepPar C cs x with
    | none => simp [hs] at h
    | some cs1 =>
      simp [hs] at h
      simp only [stepPar] at hs
      cases hx : cs[x.1]? with
      | none => simp [hx] at hs
      | some cx =>
        simp [hx] at hs
        obtain ⟨c2, hstep, hset⟩ := hs
        subst hset
        by_cases hxi : x.1 = i
        · -- the step belongs to component i
          have hcx : cx = c := by rw [hxi] at hx; rw [hx] at hc; exact Option.some.inj hc
          subst hcx
          have hlt : i < cs.length := (List.getElem?_eq_some_iff.mp hc).1
          have hc2 : (cs.set x.1 c2)[i]? = some c2 := by rw [hxi]; simp [hlt]
          obtain ⟨c', h1, h2⟩ := ih (cs.set x.1 c2) h c2 hc2
          refine ⟨c', h1, ?_⟩
          have hp : proj (x :: xs) i = x.2 :: proj xs i := by simp [proj, hxi]
          rw [hp]; simp [runSolo, hstep, h2]
        · have hc2 : (cs.set x.1 c2)[i]? = some c := by
            rw [List.getElem?_set_ne hxi]; exact hc
          obtain ⟨c', h1, h2⟩ := ih (cs.set x.1 c2) h c hc2
          refine ⟨c', h1, ?_⟩
          have hp : proj (x :: xs) i = proj xs i := by
            simp [proj, hxi]
          rw [hp]; exact h2

/-! ## the validation component: okSoFar && (what is left) is the example's verdict throughout -/

def Val.inv (e : Bool) (s : Val) : Prop :=
  (s.okSoFar && s.todo.all id) = e ∧ ∀ v, s.verdict = some v → v = e

theorem valComp_step_inv (e : Bool) (s s' : Val) (l : VLbl) (hi : s.inv e) (h : valComp.step s l = some s') : s'.inv e := by
  obtain ⟨h1, h2⟩ := hi
  cases l with
  | check =>
    simp only [valComp] at h
    cases hv : s.verdict with
    | some v => simp [hv] at h
    | none =>
      simp [hv] at h
      cases ht : s.todo with
      | nil => simp [ht] at h
      | cons b rest =>
        simp [ht] at h; subst h
        refine ⟨?_, ?_⟩
        · simp [ht] at h1; simp [← h1, Bool.and_assoc]
        · intro v hv'; simp [hv] at hv'
  | decide =>
    simp only [valComp] at h
    cases hv : s.verdict with
    | some v => simp [hv] at h
    | none =>
      simp [hv] at h
      obtain ⟨ht, hs⟩ := h; subst hs
      refine ⟨by simpa using h1, ?_⟩
      intro v hv'
      simp at hv'; subst hv'
      cases ht with
      | inl ht => simpa [ht] using h1
      | inr ht => simp [ht] at h1; simp [ht, ← h1]

theorem runSolo_val_inv (e : Bool) (ls : List VLbl) (s s' : Val) (hi : s.inv e) (h : runSolo valComp s ls = some s') : s'.inv e := by
  induction ls generalizing s with
  | nil => simp [runSolo] at h; subst h; exact hi
  | cons l ls ih =>
    simp only [runSolo] at h
    cases hs : valComp.step s l with
    | none => simp [hs] at h
    | some s1 => simp [hs] at h; exact ih s1 (valComp_step_inv e s s1 l hi hs) h


end Sedpack.Par
