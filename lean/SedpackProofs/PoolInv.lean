import SedpackProofs.PoolBasic
/-! The invariant of M-POOL (repaired semantics: `forward = true`) and its preservation. -/
namespace Sedpack.Pool

def counting : Ph → Bool | .prefill | .waiting | .got _ => true | _ => false
def gotCnt : Ph → Nat | .got _ => 1 | _ => 0
def gotIdx (i : Nat) : Ph → Nat | .got j => if j = i then 1 else 0 | _ => 0
def resetK (c : Cfg) : Ph → Nat
  | .resetting k _ => k
  | .fin _ => c.T
  | _ => 0
/-- everything the consumer has ever put on `to_process`, in order -/
def sent (c : Cfg) (s : St) : List Msg :=
  (List.range s.p).map (chain c) ++ List.replicate (resetK c s.ph) .stop
/-- the messages the workers have taken so far -/
def taken (c : Cfg) (s : St) : List Msg := (sent c s).take s.q

/-- index of the source element a result carries a non-failing value for -/
def okRes (c : Cfg) : Res → Prop
  | .val i => c.fails i = false
  | _ => True

structure Inv (c : Cfg) (s : St) : Prop where
  len : s.ws.length = c.T
  act : s.active ≤ c.T
  shape : s.toProc = (sent c s).drop s.q
  qle : s.q ≤ (sent c s).length
  rk : ∀ k w, s.ph = .resetting k w → k ≤ c.T
  stops : cnt isHoldStop s.ws + cnt isStopped s.ws = msgStops (taken c s)
  cons : counting s.ph = true → cnt isStopped s.ws = resStops s.results + (c.T - s.active)
  tail : cnt isStopped s.ws = c.T → s.results = [] ∨ s.results.getLast? = some .stop
  nodead : cnt isDead s.ws = 0
  pre : s.ph = .prefill → s.p < c.P ∧ s.out = []
  inflight : (s.ph = .waiting ∨ ∃ i, s.ph = .got i) → s.p = c.P + s.out.length
  items : counting s.ph = true →
    cnt isHoldItem s.ws + resItems s.results + gotCnt s.ph + s.out.length = msgItems (taken c s)
  idx : counting s.ph = true → ∀ i,
    cnt (holdIdx i) s.ws + resIdx i s.results + gotIdx i s.ph + s.out.count i = msgIdx i (taken c s)
  okres : ∀ r ∈ s.results, okRes c r
  okgot : ∀ i, s.ph = .got i → c.fails i = false
  okout : ∀ i ∈ s.out, c.fails i = false

theorem sent_put (c : Cfg) (s : St) (ph' : Ph) (out' : List Nat) (h0 : resetK c s.ph = 0) (h1 : resetK c ph' = 0) :
    sent c { s with toProc := s.toProc ++ [chain c s.p], p := s.p + 1, ph := ph', out := out' } = sent c s ++ [chain c s.p] := by
  simp [sent, h0, h1, List.range_succ]

theorem inv_init (c : Cfg) (hP : 1 ≤ c.P) : Inv c (init c) := by
  obtain ⟨a, b, d, e, f, g⟩ := cnt_replicate_idle c.T
  constructor <;> simp [init, sent, taken, resetK, counting, msgStops, msgItems, msgIdx, resStops, resItems, resIdx,
    gotCnt, gotIdx, a, b, d, e, f, g]
  omega

end Sedpack.Pool

namespace Sedpack.Pool

theorem inv_cPut (c : Cfg) (s s' : St) (hi : Inv c s) (hs : step c s .cPut = some s') : Inv c s' := by
  simp only [step] at hs
  split at hs <;> simp at hs
  rename_i hph
  subst hs
  have h0 : resetK c s.ph = 0 := by simp [hph, resetK]
  have hsent : ∀ ph', resetK c ph' = 0 →
      sent c { s with toProc := s.toProc ++ [chain c s.p], p := s.p + 1, ph := ph' } = sent c s ++ [chain c s.p] :=
    fun ph' h1 => sent_put c s ph' s.out h0 h1
  have hpre := hi.pre hph
  have hcnt : counting s.ph = true := by simp [hph, counting]
  have hit := hi.items hcnt
  have hix := hi.idx hcnt
  simp only [hph, gotCnt, gotIdx] at hit hix
  split
  all_goals
    constructor
    · exact hi.len
    · exact hi.act
    · simp only []; rw [hsent _ (by simp [resetK]), drop_app1 _ _ _ hi.qle, ← hi.shape]
    · simp only []; rw [hsent _ (by simp [resetK])]; simp; have := hi.qle; omega
    · intro k w h; simp at h
    · simp only [taken]; rw [hsent _ (by simp [resetK]), take_app1 _ _ _ hi.qle]; exact hi.stops
    · intro _; simp only []; exact hi.cons hcnt
    · exact hi.tail
    · exact hi.nodead
    · intro h; first | (simp at h; done) | exact ⟨by simp only []; omega, hpre.2⟩
    · intro h; first | (simp at h; done) | (simp only []; rw [hpre.2]; simp; omega)
    · intro _; simp only [taken, gotCnt]; rw [hsent _ (by simp [resetK]), take_app1 _ _ _ hi.qle]; exact hit
    · intro _ i; simp only [taken, gotIdx]; rw [hsent _ (by simp [resetK]), take_app1 _ _ _ hi.qle]; exact hix i
    · exact hi.okres
    · intro i h; simp at h
    · exact hi.okout

end Sedpack.Pool

namespace Sedpack.Pool

theorem tail_of_cons_results {r : Res} {rs : List Res}
    (h : (r :: rs) = [] ∨ (r :: rs).getLast? = some Res.stop) : rs = [] ∨ rs.getLast? = some Res.stop := by
  cases rs with
  | nil => left; rfl
  | cons x xs => right; simpa [List.getLast?_cons_cons] using h

theorem inv_cGet (c : Cfg) (s s' : St) (hi : Inv c s) (hs : step c s .cGet = some s') : Inv c s' := by
  simp only [step] at hs
  split at hs
  case isFalse => simp at hs
  rename_i hc
  obtain ⟨hph, hact⟩ := hc
  have hcnt : counting s.ph = true := by simp [hph, counting]
  have hcons := hi.cons hcnt
  have hit := hi.items hcnt
  have hix := hi.idx hcnt
  have hinf := hi.inflight (Or.inl hph)
  simp only [hph, gotCnt, gotIdx] at hit hix
  split at hs <;> simp at hs <;> subst hs
  · -- a sentinel: one worker less
    rename_i rs hr
    have hsent : sent c { s with results := rs, active := s.active - 1 } = sent c s := rfl
    have htk : taken c { s with results := rs, active := s.active - 1 } = taken c s := rfl
    rw [hr] at hcons hit hix
    simp only [resStops, resItems, resIdx] at hcons hit hix
    constructor
    · exact hi.len
    · have := hi.act; simp only []; omega
    · simp only []; rw [hsent]; exact hi.shape
    · simp only []; rw [hsent]; exact hi.qle
    · exact hi.rk
    · rw [htk]; exact hi.stops
    · intro _; simp only []; have := hi.act; omega
    · intro h; have := hi.tail h; rw [hr] at this; exact tail_of_cons_results this
    · exact hi.nodead
    · intro h; simp only [] at h; rw [hph] at h; cases h
    · intro _; exact hinf
    · intro _; rw [htk]; simp only [hph, gotCnt]; exact hit
    · intro _ i; rw [htk]; simp only [hph, gotIdx]; exact hix i
    · intro r hr'; exact hi.okres r (by rw [hr]; exact List.mem_cons_of_mem _ hr')
    · intro i h; simp only [] at h; rw [hph] at h; cases h
    · exact hi.okout
  · -- a value
    rename_i i rs hr
    have hsent : sent c { s with results := rs, ph := Ph.got i } = sent c s := by simp [sent, resetK, hph]
    have htk : taken c { s with results := rs, ph := Ph.got i } = taken c s := by simp [taken, hsent]
    rw [hr] at hcons hit hix
    simp only [resStops, resItems, resIdx] at hcons hit hix
    constructor
    · exact hi.len
    · exact hi.act
    · simp only []; rw [hsent]; exact hi.shape
    · simp only []; rw [hsent]; exact hi.qle
    · intro k w h; simp at h
    · rw [htk]; exact hi.stops
    · intro _; simp only []; exact hcons
    · intro h; have := hi.tail h; rw [hr] at this; exact tail_of_cons_results this
    · exact hi.nodead
    · intro h; simp at h
    · intro _; exact hinf
    · intro _; rw [htk]; simp only [gotCnt]; omega
    · intro _ j; rw [htk]; simp only [gotIdx]; have := hix j; omega
    · intro r hr'; exact hi.okres r (by rw [hr]; exact List.mem_cons_of_mem _ hr')
    · intro j h; simp at h; subst h
      have := hi.okres (.val i) (by rw [hr]; exact List.mem_cons_self)
      simpa [okRes] using this
    · exact hi.okout
  · -- a forwarded failure: reset, then re-raise
    rename_i i rs hr
    have hsent : sent c { s with results := rs, ph := Ph.resetting 0 1 } = sent c s := by simp [sent, resetK, hph]
    have htk : taken c { s with results := rs, ph := Ph.resetting 0 1 } = taken c s := by simp [taken, hsent]
    constructor
    · exact hi.len
    · exact hi.act
    · simp only []; rw [hsent]; exact hi.shape
    · simp only []; rw [hsent]; exact hi.qle
    · intro k w h; simp at h; omega
    · rw [htk]; exact hi.stops
    · intro h; simp [counting] at h
    · intro h; have := hi.tail h; rw [hr] at this; exact tail_of_cons_results this
    · exact hi.nodead
    · intro h; simp at h
    · intro h; simp at h
    · intro h; simp [counting] at h
    · intro h; simp [counting] at h
    · intro r hr'; exact hi.okres r (by rw [hr]; exact List.mem_cons_of_mem _ hr')
    · intro j h; simp at h
    · exact hi.okout

theorem inv_cPutNext (c : Cfg) (s s' : St) (hi : Inv c s) (hs : step c s .cPutNext = some s') : Inv c s' := by
  simp only [step] at hs
  split at hs <;> simp at hs
  rename_i i hph
  subst hs
  have h0 : resetK c s.ph = 0 := by simp [hph, resetK]
  have hsent : sent c { s with toProc := s.toProc ++ [chain c s.p], p := s.p + 1, out := s.out ++ [i], ph := Ph.waiting }
      = sent c s ++ [chain c s.p] := sent_put c s .waiting (s.out ++ [i]) h0 (by simp [resetK])
  have hcnt : counting s.ph = true := by simp [hph, counting]
  have hit := hi.items hcnt
  have hix := hi.idx hcnt
  have hinf := hi.inflight (Or.inr ⟨i, hph⟩)
  simp only [hph, gotCnt, gotIdx] at hit hix
  constructor
  · exact hi.len
  · exact hi.act
  · simp only []; rw [hsent, drop_app1 _ _ _ hi.qle, ← hi.shape]
  · simp only []; rw [hsent]; simp; have := hi.qle; omega
  · intro k w h; simp at h
  · simp only [taken]; rw [hsent, take_app1 _ _ _ hi.qle]; exact hi.stops
  · intro _; simp only []; exact hi.cons hcnt
  · exact hi.tail
  · exact hi.nodead
  · intro h; simp at h
  · intro _; simp only [List.length_append, List.length_singleton]; omega
  · intro _; simp only [taken, gotCnt]; rw [hsent, take_app1 _ _ _ hi.qle]
    simp only [List.length_append, List.length_singleton]; have := hit; simp only [taken] at this; omega
  · intro _ j; simp only [taken, gotIdx]; rw [hsent, take_app1 _ _ _ hi.qle]
    have := hix j; simp only [taken] at this
    simp only [List.count_append, List.count_singleton]
    by_cases hij : i = j <;> simp [hij] at this ⊢ <;> omega
  · exact hi.okres
  · intro j h; simp at h
  · intro j hj; simp only [List.mem_append, List.mem_singleton] at hj
    rcases hj with hj | hj
    · exact hi.okout j hj
    · subst hj; exact hi.okgot j hph

end Sedpack.Pool

namespace Sedpack.Pool

/-- leaving the counting phases (finish / abandon): nothing but the phase changes -/
theorem inv_leave (c : Cfg) (s : St) (why : Nat) (hi : Inv c s) (hph : s.ph = .waiting) :
    Inv c { s with ph := .resetting 0 why } := by
  have hsent : sent c { s with ph := Ph.resetting 0 why } = sent c s := by simp [sent, resetK, hph]
  have htk : taken c { s with ph := Ph.resetting 0 why } = taken c s := by simp [taken, hsent]
  constructor
  · exact hi.len
  · exact hi.act
  · simp only []; rw [hsent]; exact hi.shape
  · simp only []; rw [hsent]; exact hi.qle
  · intro k w h; simp at h; omega
  · rw [htk]; exact hi.stops
  · intro h; simp [counting] at h
  · exact hi.tail
  · exact hi.nodead
  · intro h; simp at h
  · intro h; simp at h
  · intro h; simp [counting] at h
  · intro h; simp [counting] at h
  · exact hi.okres
  · intro j h; simp at h
  · exact hi.okout

theorem inv_cFinish (c : Cfg) (s s' : St) (hi : Inv c s) (hs : step c s .cFinish = some s') : Inv c s' := by
  simp only [step] at hs
  split at hs <;> simp at hs
  rename_i hc; subst hs
  exact inv_leave c s 0 hi hc.1

theorem inv_cAbandon (c : Cfg) (s s' : St) (hi : Inv c s) (hs : step c s .cAbandon = some s') : Inv c s' := by
  simp only [step] at hs
  split at hs <;> simp at hs
  rename_i hc; subst hs
  exact inv_leave c s 2 hi hc

theorem inv_cReset (c : Cfg) (s s' : St) (hi : Inv c s) (hs : step c s .cReset = some s') : Inv c s' := by
  simp only [step] at hs
  split at hs
  case h_2 => simp at hs
  rename_i k why hph
  have hk := hi.rk k why hph
  split at hs <;> simp at hs <;> subst hs
  · -- one more sentinel
    rename_i hlt
    have hsent : sent c { s with toProc := s.toProc ++ [Msg.stop], ph := Ph.resetting (k+1) why } = sent c s ++ [Msg.stop] := by
      simp [sent, resetK, hph, List.replicate_succ', ← List.append_assoc]
    constructor
    · exact hi.len
    · exact hi.act
    · simp only []; rw [hsent, drop_app1 _ _ _ hi.qle, ← hi.shape]
    · simp only []; rw [hsent]; simp; have := hi.qle; omega
    · intro k' w h; simp at h; omega
    · simp only [taken]; rw [hsent, take_app1 _ _ _ hi.qle]; exact hi.stops
    · intro h; simp [counting] at h
    · exact hi.tail
    · exact hi.nodead
    · intro h; simp at h
    · intro h; simp at h
    · intro h; simp [counting] at h
    · intro h; simp [counting] at h
    · exact hi.okres
    · intro j h; simp at h
    · exact hi.okout
  · -- queues forgotten
    rename_i hge
    have hkT : k = c.T := by omega
    have hsent : sent c { s with ph := Ph.fin why, active := 0 } = sent c s := by simp [sent, resetK, hph, hkT]
    have htk : taken c { s with ph := Ph.fin why, active := 0 } = taken c s := by simp [taken, hsent]
    constructor
    · exact hi.len
    · simp
    · simp only []; rw [hsent]; exact hi.shape
    · simp only []; rw [hsent]; exact hi.qle
    · intro k' w h; simp at h
    · rw [htk]; exact hi.stops
    · intro h; simp [counting] at h
    · exact hi.tail
    · exact hi.nodead
    · intro h; simp at h
    · intro h; simp at h
    · intro h; simp [counting] at h
    · intro h; simp [counting] at h
    · exact hi.okres
    · intro j h; simp at h
    · exact hi.okout

theorem inv_wGet (c : Cfg) (s s' : St) (w : Nat) (hi : Inv c s) (hs : step c s (.wGet w) = some s') : Inv c s' := by
  simp only [step] at hs
  split at hs
  case h_2 => simp at hs
  rename_i m rest hw htp
  simp at hs; subst hs
  have hsent : sent c { s with toProc := rest, ws := s.ws.set w (W.hold m), q := s.q + 1 } = sent c s := rfl
  have hsh : m :: rest = (sent c s).drop s.q := by rw [← hi.shape, htp]
  obtain ⟨t1, t2, t3⟩ := take_succ_of_drop _ _ _ _ hsh
  have htk : taken c { s with toProc := rest, ws := s.ws.set w (W.hold m), q := s.q + 1 } = taken c s ++ [m] := by
    simp only [taken]; rw [hsent]; exact t1
  have c1 := cnt_set isHoldStop s.ws w _ (W.hold m) hw
  have c2 := cnt_set isStopped s.ws w _ (W.hold m) hw
  have c3 := cnt_set isHoldItem s.ws w _ (W.hold m) hw
  have c4 := cnt_set isDead s.ws w _ (W.hold m) hw
  have c5 := fun i => cnt_set (holdIdx i) s.ws w _ (W.hold m) hw
  simp only [isStopped, isDead, isHoldStop, isHoldItem, holdIdx] at c1 c2 c3 c4 c5
  constructor
  · simp [hi.len]
  · exact hi.act
  · simp only []; rw [hsent]; exact t2
  · simp only []; rw [hsent]; exact t3
  · exact hi.rk
  · rw [htk, msgStops_append]
    have := hi.stops
    cases m <;> simp [isHoldStop, msgStops] at * <;> omega
  · intro hc; simp only []
    have := hi.cons hc
    omega
  · intro h; simp only [] at *
    exact hi.tail (by omega)
  · simp only []; have := hi.nodead; omega
  · exact hi.pre
  · exact hi.inflight
  · intro hc; rw [htk, msgItems_append]
    have := hi.items hc
    cases m <;> simp [isHoldItem, msgItems] at * <;> omega
  · intro hc i; rw [htk, msgIdx_append]
    have := hi.idx hc i
    have c5i := c5 i
    cases m with
    | stop => simp [msgIdx] at *; omega
    | item j => simp only [msgIdx] at *; split at c5i <;> simp_all <;> omega
  · exact hi.okres
  · exact hi.okgot
  · exact hi.okout

end Sedpack.Pool

namespace Sedpack.Pool

theorem getLast_append_stop (l : List Res) : (l ++ [Res.stop]).getLast? = some Res.stop := by simp

theorem inv_wPut (c : Cfg) (hfw : c.forward = true) (s s' : St) (w : Nat) (hi : Inv c s)
    (hs : step c s (.wPut w) = some s') : Inv c s' := by
  simp only [step] at hs
  split at hs
  case h_3 => simp at hs
  · -- hold stop -> stopped, push the sentinel
    rename_i hw
    simp at hs; subst hs
    have htk : taken c { s with results := s.results ++ [Res.stop], ws := s.ws.set w W.stopped } = taken c s := rfl
    have c1 := cnt_set isHoldStop s.ws w _ W.stopped hw
    have c2 := cnt_set isStopped s.ws w _ W.stopped hw
    have c3 := cnt_set isHoldItem s.ws w _ W.stopped hw
    have c4 := cnt_set isDead s.ws w _ W.stopped hw
    have c5 := fun i => cnt_set (holdIdx i) s.ws w _ W.stopped hw
    simp only [isStopped, isDead, isHoldStop, isHoldItem, holdIdx] at c1 c2 c3 c4 c5
    constructor
    · simp [hi.len]
    · exact hi.act
    · exact hi.shape
    · exact hi.qle
    · exact hi.rk
    · rw [htk]; have := hi.stops; simp only []; omega
    · intro hc; simp only []; have := hi.cons hc; rw [resStops_append]; simp [resStops]; omega
    · intro _; right; simp
    · simp only []; have := hi.nodead; omega
    · exact hi.pre
    · exact hi.inflight
    · intro hc; rw [htk]; have := hi.items hc; simp only [resItems_append, resItems]; omega
    · intro hc i; rw [htk]; have := hi.idx hc i; have := c5 i; simp only [resIdx_append, resIdx]; omega
    · intro r hr; simp only [List.mem_append, List.mem_singleton] at hr
      rcases hr with hr | hr
      · exact hi.okres r hr
      · subst hr; simp [okRes]
    · exact hi.okgot
    · exact hi.okout
  · -- hold item
    rename_i i hw
    have c1 := cnt_set isHoldStop s.ws w _ W.idle hw
    have c2 := cnt_set isStopped s.ws w _ W.idle hw
    have c3 := cnt_set isHoldItem s.ws w _ W.idle hw
    have c4 := cnt_set isDead s.ws w _ W.idle hw
    have c5 := fun j => cnt_set (holdIdx j) s.ws w _ W.idle hw
    simp only [isStopped, isDead, isHoldStop, isHoldItem, holdIdx] at c1 c2 c3 c4 c5
    -- a worker that holds an item is not stopped, hence not all T are stopped
    have hpart := cnt_partition s.ws
    have hnotall : cnt isStopped s.ws < c.T := by rw [← hi.len]; omega
    have key : ∀ (r : Res), (∀ j, resIdx j [r] = if i = j then 1 else 0) → resItems [r] = 1 → resStops [r] = 0 →
        okRes c r →
        Inv c { s with results := s.results ++ [r], ws := s.ws.set w W.idle } := by
      intro r hrI hrN hrS hok
      have htk : taken c { s with results := s.results ++ [r], ws := s.ws.set w W.idle } = taken c s := rfl
      constructor
      · simp [hi.len]
      · exact hi.act
      · exact hi.shape
      · exact hi.qle
      · exact hi.rk
      · rw [htk]; have := hi.stops; simp only []; omega
      · intro hc; simp only []; have := hi.cons hc; rw [resStops_append, hrS]; omega
      · intro h; simp only [] at h; omega
      · simp only []; have := hi.nodead; omega
      · exact hi.pre
      · exact hi.inflight
      · intro hc; rw [htk]; have := hi.items hc; simp only [resItems_append, hrN]; omega
      · intro hc j; rw [htk]; have := hi.idx hc j; have c5j := c5 j
        simp only [resIdx_append, hrI j]
        split at c5j <;> simp_all <;> omega
      · intro r' hr; simp only [List.mem_append, List.mem_singleton] at hr
        rcases hr with hr | hr
        · exact hi.okres r' hr
        · subst hr; exact hok
      · exact hi.okgot
      · exact hi.okout
    split at hs
    · rename_i hf
      simp [hfw] at hs; subst hs
      exact key (.err i) (by intro j; simp [resIdx]) (by simp [resItems]) (by simp [resStops]) (by simp [okRes])
    · rename_i hf
      simp at hs; subst hs
      exact key (.val i) (by intro j; simp [resIdx]) (by simp [resItems]) (by simp [resStops]) (by simpa [okRes] using hf)

/-- The invariant holds in every reachable state (repaired semantics, `P ≥ 1`). -/
theorem inv_step (c : Cfg) (hfw : c.forward = true) (s s' : St) (l : Lbl) (hi : Inv c s)
    (hs : step c s l = some s') : Inv c s' := by
  cases l with
  | cPut => exact inv_cPut c s s' hi hs
  | cGet => exact inv_cGet c s s' hi hs
  | cPutNext => exact inv_cPutNext c s s' hi hs
  | cFinish => exact inv_cFinish c s s' hi hs
  | cAbandon => exact inv_cAbandon c s s' hi hs
  | cReset => exact inv_cReset c s s' hi hs
  | wGet w => exact inv_wGet c s s' w hi hs
  | wPut w => exact inv_wPut c hfw s s' w hi hs

theorem inv_reach (c : Cfg) (hfw : c.forward = true) (hP : 1 ≤ c.P) (s : St) (h : Reach c s) : Inv c s := by
  induction h with
  | init => exact inv_init c hP
  | step _ hs ih => exact inv_step c hfw _ _ _ ih hs

end Sedpack.Pool
