import SedpackModel.Tree
/-! Well-formedness, exactness and frame lemmas for the shard-list tree; facts about `groupBy`. -/
namespace Sedpack.Tree

/-- a list document is self-summing and its child records lie exactly one level below it -/
structure WFL (d : Dir) (l : SList) : Prop where
  sum : l.n = sumF l.files + sumN l.kids
  shape : ∀ c ∈ l.kids, ∃ y, c.dir = d ++ [y]
  nodup : (l.kids.map (·.dir)).Nodup

def WF (fs : FS) : Prop := ∀ d l, fs d = some l → WFL d l

/-- no recorded child lies deeper than `B` -/
def DepthOK (fs : FS) (B : Nat) : Prop := ∀ d l, fs d = some l → ∀ c ∈ l.kids, c.dir.length ≤ B

/-- **Exactness** of the sub-tree summarised by a `ShardListInfo`: the document exists, has the
recorded digest and totals, is well formed, and every child record is exact in turn. -/
inductive Exact (H : SList → Nat) (fs : FS) : Kid → Prop
  | mk {k : Kid} {l : SList} : fs k.dir = some l → k.hash = H l → k.n = l.n →
      k.shards = l.files.length + sumS l.kids → WFL k.dir l →
      (∀ c ∈ l.kids, Exact H fs c) → Exact H fs k

theorem wfl_default (d : Dir) : WFL d {} := ⟨by simp [sumF, sumN], by simp, by simp⟩

theorem set_same (fs : FS) (d : Dir) (l : SList) : (fs.set d l) d = some l := by simp [FS.set]
theorem set_other (fs : FS) (d x : Dir) (l : SList) (h : x ≠ d) : (fs.set d l) x = fs x := by simp [FS.set, h]

theorem prefix_snoc_ne {d x : Dir} {g g' : Nat} (hne : g ≠ g') (h : (d ++ [g]) <+: x) : ¬ (d ++ [g']) <+: x := by
  intro h'
  obtain ⟨t, ht⟩ := h
  obtain ⟨t', ht'⟩ := h'
  rw [← ht'] at ht
  simp only [List.append_assoc] at ht
  have := List.append_cancel_left ht
  simp at this
  exact hne this.1

theorem prefix_trans' {a b c : Dir} (h1 : a <+: b) (h2 : b <+: c) : a <+: c := List.IsPrefix.trans h1 h2

theorem not_prefix_of_longer {a b : Dir} (h : b.length < a.length) : ¬ a <+: b := by
  intro hp; have := hp.length_le; omega

/-- exactness of `k` depends only on the store below `k.dir` -/
theorem Exact.frame {H : SList → Nat} {fs fs' : FS} {k : Kid} (h : Exact H fs k)
    (hf : ∀ x, k.dir <+: x → fs' x = fs x) : Exact H fs' k := by
  induction h with
  | @mk k l hget hh hn hs hwf _ ih =>
    refine Exact.mk (l := l) ?_ hh hn hs hwf ?_
    · rw [hf k.dir (List.prefix_refl _)]; exact hget
    · intro c hc
      apply ih c hc
      intro x hx
      obtain ⟨y, hy⟩ := hwf.shape c hc
      apply hf
      exact prefix_trans' (by rw [hy]; exact List.prefix_append _ _) hx

/-- directory `x` is reachable from the list at `d` by following child records -/
inductive Reaches (fs : FS) : Dir → Dir → Prop
  | refl (d : Dir) : Reaches fs d d
  | step {d x : Dir} {c : Kid} {l : SList} : fs d = some l → c ∈ l.kids → Reaches fs c.dir x → Reaches fs d x

theorem Reaches.prefix {fs : FS} (hwf : WF fs) {d x : Dir} (h : Reaches fs d x) : d <+: x := by
  induction h with
  | refl d => exact List.prefix_refl _
  | @step d x c l hget hc _ ih =>
    obtain ⟨y, hy⟩ := (hwf d l hget).shape c hc
    exact prefix_trans' (by rw [hy]; exact List.prefix_append _ _) ih

/-- reachability from `e` depends only on the store below `e` -/
theorem Reaches.frame {fs fs' : FS} (hwf : WF fs) {e x : Dir} (h : Reaches fs e x)
    (hf : ∀ y, e <+: y → fs' y = fs y) : Reaches fs' e x := by
  induction h with
  | refl d => exact Reaches.refl _
  | @step d x c l hget hc _ ih =>
    obtain ⟨y, hy⟩ := (hwf d l hget).shape c hc
    refine Reaches.step (l := l) (c := c) (by rw [hf d (List.prefix_refl _)]; exact hget) hc ?_
    apply ih
    intro z hz
    exact hf z (prefix_trans' (by rw [hy]; exact List.prefix_append _ _) hz)

/-! ### `insertGroup` / `groupBy` -/

theorem insertGroup_keys (g : List (Nat × List Kid)) (key : Nat) (u : Kid) :
    (insertGroup g key u).map (·.1) = if key ∈ g.map (·.1) then g.map (·.1) else g.map (·.1) ++ [key] := by
  induction g with
  | nil => simp [insertGroup]
  | cons p ps ih =>
    obtain ⟨k, us⟩ := p
    simp only [insertGroup]
    by_cases hk : k = key
    · simp [hk]
    · simp only [hk, if_false, List.map_cons, ih]
      have : ¬ key = k := fun h => hk h.symm
      by_cases hm : key ∈ ps.map (·.1)
      · simp [hm]
      · simp [hm, this]

theorem insertGroup_nodup (g : List (Nat × List Kid)) (key : Nat) (u : Kid) (h : (g.map (·.1)).Nodup) :
    ((insertGroup g key u).map (·.1)).Nodup := by
  rw [insertGroup_keys]
  split
  · exact h
  · rename_i hm
    rw [List.nodup_append]
    exact ⟨h, by simp, by intro a ha b hb; simp at hb; subst hb; intro he; subst he; exact hm ha⟩

theorem mem_insertGroup (g : List (Nat × List Kid)) (key : Nat) (u : Kid) :
    ∀ k vs, (k, vs) ∈ insertGroup g key u → ∀ e ∈ vs, (e = u ∧ k = key) ∨ (∃ vs0, (k, vs0) ∈ g ∧ e ∈ vs0) := by
  induction g with
  | nil =>
    intro k vs h e he
    simp [insertGroup] at h
    obtain ⟨h1, h2⟩ := h; subst h2; simp at he
    exact Or.inl ⟨he, h1⟩
  | cons p ps ih =>
    obtain ⟨k0, us0⟩ := p
    intro k vs h e he
    simp only [insertGroup] at h
    by_cases hk : k0 = key
    · simp only [hk, if_true, List.mem_cons] at h
      rcases h with h | h
      · cases h
        simp only [List.mem_append, List.mem_singleton] at he
        rcases he with he | he
        · right; exact ⟨us0, by simp [hk], he⟩
        · left; exact ⟨he, rfl⟩
      · right; exact ⟨vs, by simp only [List.mem_cons]; right; exact h, he⟩
    · simp only [hk, if_false, List.mem_cons] at h
      rcases h with h | h
      · cases h; right; exact ⟨us0, by simp, he⟩
      · rcases ih k vs h e he with h1 | ⟨vs0, h2, h3⟩
        · exact Or.inl h1
        · right; exact ⟨vs0, by simp only [List.mem_cons]; right; exact h2, h3⟩

theorem cover_old_insertGroup (g : List (Nat × List Kid)) (key : Nat) (u : Kid) :
    ∀ k vs0 e, (k, vs0) ∈ g → e ∈ vs0 → ∃ vs, (k, vs) ∈ insertGroup g key u ∧ e ∈ vs := by
  induction g with
  | nil => intro k vs0 e h; simp at h
  | cons p ps ih =>
    obtain ⟨k0, us0⟩ := p
    intro k vs0 e h he
    simp only [insertGroup]
    simp only [List.mem_cons] at h
    by_cases hk : k0 = key
    · simp only [hk, if_true]
      rcases h with h | h
      · cases h; exact ⟨us0 ++ [u], by simp [hk], by simp [he]⟩
      · exact ⟨vs0, by simp only [List.mem_cons]; right; exact h, he⟩
    · simp only [hk, if_false]
      rcases h with h | h
      · cases h; exact ⟨us0, by simp, he⟩
      · obtain ⟨vs, h1, h2⟩ := ih k vs0 e h he
        exact ⟨vs, by simp only [List.mem_cons]; right; exact h1, h2⟩

theorem cover_new_insertGroup (g : List (Nat × List Kid)) (key : Nat) (u : Kid) :
    ∃ vs, (key, vs) ∈ insertGroup g key u ∧ u ∈ vs := by
  induction g with
  | nil => exact ⟨[u], by simp [insertGroup], by simp⟩
  | cons p ps ih =>
    obtain ⟨k0, us0⟩ := p
    simp only [insertGroup]
    by_cases hk : k0 = key
    · simp only [hk, if_true]; exact ⟨us0 ++ [u], by simp, by simp⟩
    · simp only [hk, if_false]
      obtain ⟨vs, h1, h2⟩ := ih
      exact ⟨vs, by simp only [List.mem_cons]; right; exact h1, h2⟩

theorem insertGroup_nonempty (g : List (Nat × List Kid)) (key : Nat) (u : Kid) (h : ∀ k vs, (k, vs) ∈ g → vs ≠ []) :
    ∀ k vs, (k, vs) ∈ insertGroup g key u → vs ≠ [] := by
  induction g with
  | nil => intro k vs hm; simp [insertGroup] at hm; rw [hm.2]; simp
  | cons p ps ih =>
    obtain ⟨k0, us0⟩ := p
    intro k vs hm
    simp only [insertGroup] at hm
    by_cases hk : k0 = key
    · simp only [hk, if_true, List.mem_cons] at hm
      rcases hm with hm | hm
      · cases hm; simp
      · exact h k vs (by simp only [List.mem_cons]; right; exact hm)
    · simp only [hk, if_false, List.mem_cons] at hm
      rcases hm with hm | hm
      · cases hm; exact h k0 us0 (by simp)
      · exact ih (fun k' vs' hm' => h k' vs' (by simp only [List.mem_cons]; right; exact hm')) k vs hm

/-- what `groupBy` guarantees -/
structure GInv (depth : Nat) (us : List Kid) (g : List (Nat × List Kid)) : Prop where
  nonempty : ∀ k vs, (k, vs) ∈ g → vs ≠ []
  nodup : (g.map (·.1)).Nodup
  sound : ∀ k vs, (k, vs) ∈ g → ∀ e ∈ vs, e ∈ us ∧ e.dir.getD depth 0 = k
  cover : ∀ e ∈ us, ∃ vs, (e.dir.getD depth 0, vs) ∈ g ∧ e ∈ vs

theorem ginv_step (depth : Nat) (us : List Kid) (g : List (Nat × List Kid)) (u : Kid) (h : GInv depth us g) :
    GInv depth (us ++ [u]) (insertGroup g (u.dir.getD depth 0) u) := by
  refine ⟨insertGroup_nonempty g _ u h.nonempty, insertGroup_nodup g _ u h.nodup, ?_, ?_⟩
  · intro k vs hm e he
    rcases mem_insertGroup g _ u k vs hm e he with ⟨h1, h2⟩ | ⟨vs0, h1, h2⟩
    · subst h1; exact ⟨by simp, h2.symm⟩
    · obtain ⟨h3, h4⟩ := h.sound k vs0 h1 e h2
      exact ⟨by simp [h3], h4⟩
  · intro e he
    simp only [List.mem_append, List.mem_singleton] at he
    rcases he with he | he
    · obtain ⟨vs0, h1, h2⟩ := h.cover e he
      exact cover_old_insertGroup g _ u _ vs0 e h1 h2
    · subst he; exact cover_new_insertGroup g _ e

theorem ginv_foldl (depth : Nat) : ∀ (rest done : List Kid) (g : List (Nat × List Kid)), GInv depth done g →
    GInv depth (done ++ rest) (rest.foldl (fun g u => insertGroup g (u.dir.getD depth 0) u) g) := by
  intro rest
  induction rest with
  | nil => intro done g h; simpa using h
  | cons u us ih =>
    intro done g h
    simp only [List.foldl_cons]
    have := ih (done ++ [u]) _ (ginv_step depth done g u h)
    simpa [List.append_assoc] using this

theorem groupBy_inv (depth : Nat) (us : List Kid) : GInv depth us (groupBy depth us) := by
  have := ginv_foldl depth us [] [] ⟨by simp, by simp, by simp, by simp⟩
  simpa [groupBy] using this

end Sedpack.Tree
