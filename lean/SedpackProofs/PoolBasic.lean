import SedpackModel.Pool
/-! Counting lemmas for M-POOL: worker-class counts as sums of indicators, queue shape. -/
namespace Sedpack.Pool

theorem sum_set : ∀ (l : List Nat) (i : Nat) (x y : Nat), l[i]? = some x →
    (l.set i y).sum + x = l.sum + y
  | [], i, x, y, h => by simp at h
  | a :: as, 0, x, y, h => by
    simp at h; subst h; simp [List.set]; omega
  | a :: as, i+1, x, y, h => by
    simp at h
    have := sum_set as i x y h
    simp [List.set]; omega

def isStopped : W → Nat | .stopped => 1 | _ => 0
def isHoldStop : W → Nat | .hold .stop => 1 | _ => 0
def isHoldItem : W → Nat | .hold (.item _) => 1 | _ => 0
def isIdle : W → Nat | .idle => 1 | _ => 0
def isDead : W → Nat | .dead => 1 | _ => 0
def holdIdx (i : Nat) : W → Nat | .hold (.item j) => if j = i then 1 else 0 | _ => 0
def cnt (f : W → Nat) (ws : List W) : Nat := (ws.map f).sum

theorem cnt_set (f : W → Nat) (ws : List W) (w : Nat) (a b : W) (h : ws[w]? = some a) :
    cnt f (ws.set w b) + f a = cnt f ws + f b := by
  unfold cnt
  rw [List.map_set]
  exact sum_set (ws.map f) w (f a) (f b) (by simp [h])

theorem cnt_partition (ws : List W) :
    cnt isStopped ws + cnt isHoldStop ws + cnt isHoldItem ws + cnt isIdle ws + cnt isDead ws = ws.length := by
  induction ws with
  | nil => simp [cnt]
  | cons w ws ih =>
    simp only [cnt, List.map_cons, List.sum_cons, List.length_cons] at ih ⊢
    rcases w with _ | m | _ | _
    · simp [isStopped, isHoldStop, isHoldItem, isIdle, isDead]; omega
    · cases m <;> simp [isStopped, isHoldStop, isHoldItem, isIdle, isDead] <;> omega
    · simp [isStopped, isHoldStop, isHoldItem, isIdle, isDead]; omega
    · simp [isStopped, isHoldStop, isHoldItem, isIdle, isDead]; omega

theorem cnt_holdIdx_le (i : Nat) (ws : List W) : cnt (holdIdx i) ws ≤ cnt isHoldItem ws := by
  induction ws with
  | nil => simp [cnt]
  | cons w ws ih =>
    simp only [cnt, List.map_cons, List.sum_cons] at ih ⊢
    rcases w with _ | m | _ | _
    · simpa [holdIdx, isHoldItem] using ih
    · cases m
      · simp only [holdIdx, isHoldItem]; split <;> omega
      · simpa [holdIdx, isHoldItem] using ih
    · simpa [holdIdx, isHoldItem] using ih
    · simpa [holdIdx, isHoldItem] using ih

theorem cnt_replicate_idle (n : Nat) :
    cnt isStopped (List.replicate n W.idle) = 0 ∧ cnt isHoldStop (List.replicate n W.idle) = 0 ∧
    cnt isHoldItem (List.replicate n W.idle) = 0 ∧ cnt isIdle (List.replicate n W.idle) = n ∧
    cnt isDead (List.replicate n W.idle) = 0 ∧ ∀ i, cnt (holdIdx i) (List.replicate n W.idle) = 0 := by
  induction n with
  | zero => simp [cnt]
  | succ k ih =>
    obtain ⟨a, b, c, d, e, f⟩ := ih
    simp only [cnt, List.replicate_succ, List.map_cons, List.sum_cons] at *
    refine ⟨by simpa [isStopped] using a, by simpa [isHoldStop] using b, by simpa [isHoldItem] using c,
      by simp [isIdle] at d ⊢; omega, by simpa [isDead] using e, fun i => by simpa [holdIdx] using f i⟩

/-- a positive class count has a witness -/
theorem exists_of_cnt_pos (f : W → Nat) (ws : List W) (h : 0 < cnt f ws) :
    ∃ (w : Nat) (a : W), ws[w]? = some a ∧ 0 < f a := by
  induction ws with
  | nil => simp [cnt] at h
  | cons x xs ih =>
    simp only [cnt, List.map_cons, List.sum_cons] at h ih
    by_cases hx : 0 < f x
    · exact ⟨0, x, by simp, hx⟩
    · obtain ⟨w, a, h1, h2⟩ := ih (by omega)
      exact ⟨w+1, a, by simpa using h1, h2⟩

theorem all_stopped_of_cnt (ws : List W) (h : cnt isStopped ws = ws.length) : ∀ w ∈ ws, w = .stopped := by
  induction ws with
  | nil => simp
  | cons x xs ih =>
    have hp := cnt_partition xs
    simp only [cnt, List.map_cons, List.sum_cons, List.length_cons] at h hp ih
    intro w hw
    have hx : isStopped x ≤ 1 := by cases x <;> simp [isStopped]
    have hxs : (List.map isStopped xs).sum ≤ xs.length := by omega
    simp only [List.mem_cons] at hw
    rcases hw with hw | hw
    · subst hw
      cases w <;> simp [isStopped] at h ⊢ <;> omega
    · exact ih (by omega) w hw

/-! ### messages -/

def resStops : List Res → Nat
  | [] => 0
  | .stop :: rs => resStops rs + 1
  | _ :: rs => resStops rs
def resItems : List Res → Nat
  | [] => 0
  | .stop :: rs => resItems rs
  | _ :: rs => resItems rs + 1
def resIdx (i : Nat) : List Res → Nat
  | [] => 0
  | .val j :: rs => resIdx i rs + (if j = i then 1 else 0)
  | .err j :: rs => resIdx i rs + (if j = i then 1 else 0)
  | .stop :: rs => resIdx i rs
def msgStops : List Msg → Nat
  | [] => 0
  | .stop :: ms => msgStops ms + 1
  | _ :: ms => msgStops ms
def msgItems : List Msg → Nat
  | [] => 0
  | .stop :: ms => msgItems ms
  | _ :: ms => msgItems ms + 1
def msgIdx (i : Nat) : List Msg → Nat
  | [] => 0
  | .item j :: ms => msgIdx i ms + (if j = i then 1 else 0)
  | .stop :: ms => msgIdx i ms

theorem resStops_append (a b : List Res) : resStops (a ++ b) = resStops a + resStops b := by
  induction a with
  | nil => simp [resStops]
  | cons x xs ih => cases x <;> simp [resStops, ih] <;> omega
theorem resItems_append (a b : List Res) : resItems (a ++ b) = resItems a + resItems b := by
  induction a with
  | nil => simp [resItems]
  | cons x xs ih => cases x <;> simp [resItems, ih] <;> omega
theorem resIdx_append (i : Nat) (a b : List Res) : resIdx i (a ++ b) = resIdx i a + resIdx i b := by
  induction a with
  | nil => simp [resIdx]
  | cons x xs ih => cases x <;> simp [resIdx, ih] <;> omega
theorem msgStops_append (a b : List Msg) : msgStops (a ++ b) = msgStops a + msgStops b := by
  induction a with
  | nil => simp [msgStops]
  | cons x xs ih => cases x <;> simp [msgStops, ih] <;> omega
theorem msgItems_append (a b : List Msg) : msgItems (a ++ b) = msgItems a + msgItems b := by
  induction a with
  | nil => simp [msgItems]
  | cons x xs ih => cases x <;> simp [msgItems, ih] <;> omega
theorem msgIdx_append (i : Nat) (a b : List Msg) : msgIdx i (a ++ b) = msgIdx i a + msgIdx i b := by
  induction a with
  | nil => simp [msgIdx]
  | cons x xs ih => cases x <;> simp [msgIdx, ih] <;> omega
theorem msg_length (l : List Msg) : msgItems l + msgStops l = l.length := by
  induction l with
  | nil => simp [msgItems, msgStops]
  | cons x xs ih => cases x <;> simp [msgItems, msgStops] <;> omega
theorem msgStops_replicate (k : Nat) : msgStops (List.replicate k .stop) = k ∧ msgItems (List.replicate k .stop) = 0
    ∧ ∀ i, msgIdx i (List.replicate k .stop) = 0 := by
  induction k with
  | zero => simp [msgStops, msgItems, msgIdx]
  | succ n ih => simp [List.replicate_succ, msgStops, msgItems, msgIdx, ih]
theorem msgIdx_le_items (i : Nat) (l : List Msg) : msgIdx i l ≤ msgItems l := by
  induction l with
  | nil => simp [msgIdx, msgItems]
  | cons x xs ih => cases x <;> simp only [msgIdx, msgItems] <;> (try split) <;> omega
theorem msgItems_take_le (l : List Msg) (q : Nat) : msgItems (l.take q) ≤ msgItems l := by
  have h := msgItems_append (l.take q) (l.drop q)
  rw [List.take_append_drop] at h; omega
theorem msgStops_take_le (l : List Msg) (q : Nat) : msgStops (l.take q) ≤ msgStops l := by
  have h := msgStops_append (l.take q) (l.drop q)
  rw [List.take_append_drop] at h; omega

/-! ### queue shape -/

theorem take_succ_of_drop {α} (l : List α) (q : Nat) (m : α) (rest : List α) (h : m :: rest = l.drop q) :
    l.take (q+1) = l.take q ++ [m] ∧ rest = l.drop (q+1) ∧ q + 1 ≤ l.length := by
  have hq : q < l.length := by
    rcases Nat.lt_or_ge q l.length with hlt | hge
    · exact hlt
    · have : l.drop q = [] := List.drop_eq_nil_of_le hge
      simp [this] at h
  have h1 : l[q] = m := by
    have := List.drop_eq_getElem_cons hq
    rw [this] at h; injection h with h1 _; exact h1.symm
  refine ⟨?_, ?_, hq⟩
  · rw [List.take_succ_eq_append_getElem hq, h1]
  · have := List.drop_eq_getElem_cons hq
    rw [this] at h; injection h

theorem drop_app1 {α} (l : List α) (x : α) (q : Nat) (h : q ≤ l.length) :
    (l ++ [x]).drop q = l.drop q ++ [x] := by
  simp [List.drop_append, Nat.sub_eq_zero_of_le h]
theorem take_app1 {α} (l : List α) (x : α) (q : Nat) (h : q ≤ l.length) :
    (l ++ [x]).take q = l.take q := by
  simp [List.take_append, Nat.sub_eq_zero_of_le h]

end Sedpack.Pool
