import SedpackProofs.ParMap
/-! Every schedule of M-PMAP over a finite input is finite: a progress counter that every step increases by one and
that the invariant bounds. -/
namespace Sedpack.PMap

def S (m : Nat) (f : Nat → Nat) : Nat := ((List.range m).map f).sum

theorem S_succ (m : Nat) (f : Nat → Nat) : S (m + 1) f = S m f + f m := by
  simp [S, List.range_succ]

theorem S_upd (m : Nat) (f : Nat → Nat) (w v : Nat) (hw : w < m) : S m (upd f w v) + f w = S m f + v := by
  induction m with
  | zero => omega
  | succ n ih =>
    rw [S_succ, S_succ]
    by_cases h : w = n
    · subst h
      have : S w (upd f w v) = S w f := by
        unfold S; congr 1; apply List.map_congr_left; intro x hx
        simp only [List.mem_range] at hx; exact upd_other f w x v (by omega)
      rw [this, upd_same]; omega
    · have := ih (by omega)
      rw [upd_other f w n v (fun hh => h hh.symm)]; omega

theorem S_upd_bool (m : Nat) (f : Nat → Bool) (w : Nat) (v : Bool) (hw : w < m) :
    S m (fun x => if upd f w v x then 1 else 0) + (if f w then 1 else 0) = S m (fun x => if f x then 1 else 0) + (if v then 1 else 0) := by
  have h := S_upd m (fun x => if f x then 1 else 0) w (if v then 1 else 0) hw
  have e : (fun x => if upd f w v x then 1 else 0) = upd (fun x => if f x then 1 else 0) w (if v then 1 else 0) := by
    funext x; unfold upd; split <;> rfl
  rw [e]; exact h

theorem S_le (m : Nat) (f g : Nat → Nat) (h : ∀ w, w < m → f w ≤ g w) : S m f ≤ S m g := by
  induction m with
  | zero => simp [S]
  | succ n ih =>
    rw [S_succ, S_succ]
    have := ih (fun w hw => h w (by omega))
    have := h n (by omega)
    omega

theorem S_add (m : Nat) (f g : Nat → Nat) : S m (fun w => f w + g w) = S m f + S m g := by
  induction m with
  | zero => simp [S]
  | succ n ih => rw [S_succ, S_succ, S_succ, ih]; omega

def b2n (b : Bool) : Nat := if b then 1 else 0

/-- operations done so far -/
def prog (c : Cfg) (s : St) : Nat :=
  S c.m s.posIn + S c.m s.posW + S c.m s.posOut + S c.m (fun w => if s.exited w then 1 else 0) + b2n s.ended + b2n s.dropped

/-- the most that can ever be done: three operations per item, one exit per worker, one end, one drop -/
def bound (c : Cfg) : Nat := 3 * S c.m (cnt c) + c.m + 2

theorem prog_step (c : Cfg) (s s' : St) (l : Lbl) (hi : Inv c s) (hs : step c s l = some s') : prog c s' = prog c s + 1 := by
  cases l with
  | wRecv w =>
    simp only [step] at hs
    split at hs
    · rename_i h
      split at hs
      · simp at hs; subst hs
        have := S_upd c.m s.posIn w (s.posIn w + 1) h.1
        simp only [prog]; omega
      · split at hs
        · simp at hs; subst hs
          have := S_upd_bool c.m s.exited w true h.1
          simp only [prog, h.2.1] at this ⊢; simp at this; omega
        · cases hs
    · cases hs
  | wSend w =>
    simp only [step] at hs
    split at hs
    · rename_i h
      split at hs
      · simp at hs; subst hs
        have := S_upd_bool c.m s.exited w true h.1
        simp only [prog, h.2.1] at this ⊢; simp at this; omega
      · simp at hs; subst hs
        have := S_upd c.m s.posW w (s.posW w + 1) h.1
        simp only [prog]; omega
    · cases hs
  | cNext =>
    simp only [step] at hs
    split at hs
    · cases hs
    · rename_i h
      have he : s.ended = false := by cases hh : s.ended <;> simp_all
      split at hs
      · simp at hs; subst hs; simp only [prog, b2n, he]; simp; omega
      · rename_i hm
        split at hs
        · rename_i hlt
          have hnowlt := hi.now (by omega)
          have hup := S_upd c.m s.posOut s.now (s.posOut s.now + 1) hnowlt
          by_cases h1 : c.has (s.q + 1) s.now <;> by_cases h2 : s.now + 1 < c.m <;> simp [h1, h2] at hs <;> subst hs <;>
            simp only [prog] <;> omega
        · split at hs
          · simp at hs; subst hs; simp only [prog, b2n, he]; simp; omega
          · cases hs
  | cDrop =>
    simp only [step] at hs
    split at hs
    · cases hs
    · rename_i h
      have hd : s.dropped = false := by cases hh : s.dropped <;> simp_all
      simp at hs; subst hs; simp [prog, b2n, hd]

theorem prog_le_bound (c : Cfg) (s : St) (hi : Inv c s) : prog c s ≤ bound c := by
  have key : ∀ w, w < c.m → s.posIn w ≤ cnt c w ∧ s.posW w ≤ cnt c w ∧ s.posOut w ≤ cnt c w := by
    intro w hw
    have hw' := hi.w w hw
    have a1 := hw'.i_p; have a2 := hw'.pipe; have a3 := hw'.w_i; have a4 := hw'.o_w
    omega
  have h1 : S c.m s.posIn ≤ S c.m (cnt c) := S_le _ _ _ (fun w hw => (key w hw).1)
  have h2 : S c.m s.posW ≤ S c.m (cnt c) := S_le _ _ _ (fun w hw => (key w hw).2.1)
  have h3 : S c.m s.posOut ≤ S c.m (cnt c) := S_le _ _ _ (fun w hw => (key w hw).2.2)
  have h4 : S c.m (fun w => if s.exited w then 1 else 0) ≤ S c.m (fun _ => 1) := S_le _ _ _ (fun w _ => by split <;> omega)
  have h5 : S c.m (fun _ => 1) = c.m := by
    generalize c.m = m
    induction m with
    | zero => simp [S]
    | succ n ih => rw [S_succ, ih]
  have h6 : b2n s.ended ≤ 1 := by unfold b2n; split <;> omega
  have h7 : b2n s.dropped ≤ 1 := by unfold b2n; split <;> omega
  unfold prog bound; omega

/-- any label list accepted from a state satisfying the invariant is at most `bound - prog` long -/
theorem accepts_length (c : Cfg) (hnr : c.nr < c.m ∨ c.m = 0) : ∀ (tr : List Lbl) (s s' : St), Inv c s → accepts c s tr = some s' →
    tr.length + prog c s ≤ bound c := by
  intro tr
  induction tr with
  | nil => intro s s' hi _; simpa using prog_le_bound c s hi
  | cons l ls ih =>
    intro s s' hi h
    simp only [accepts] at h
    cases hs : step c s l with
    | none => simp [hs] at h
    | some s1 =>
      simp [hs] at h
      have h1 := prog_step c s s1 l hi hs
      have h2 := ih s1 s' (inv_step c hnr s s1 l hi hs) h
      simp only [List.length_cons]; omega

end Sedpack.PMap
