import SedpackModel.Hash
namespace Sedpack.Hash

theorem readinto_pos {B len pos want : Nat} (hB : 1 ≤ B) (h : pos < len) :
    0 < readinto B len pos want := by
  unfold readinto; omega

theorem readinto_le {B len pos want : Nat} : readinto B len pos want ≤ len - pos := by
  unfold readinto; omega

theorem readinto_le_B {B len pos want : Nat} : readinto B len pos want ≤ B := by
  unfold readinto; omega

theorem readinto_eof {B len pos want : Nat} (h : len ≤ pos) : readinto B len pos want = 0 := by
  unfold readinto; omega

/-- Concatenating the slices fed to the hash objects gives back the unread rest of the file,
for every short-read pattern, provided the loop is given enough iterations. -/
theorem chunks_flatten (B : Nat) (hB : 1 ≤ B) (content : List Byte) (want : Nat → Nat) :
    ∀ (fuel k pos : Nat), content.length - pos < fuel →
      (chunks B content want fuel k pos).flatten = content.drop pos := by
  intro fuel
  induction fuel with
  | zero => intro k pos h; omega
  | succ n ih =>
    intro k pos h
    simp only [chunks]
    split
    · rename_i h0
      -- 0 bytes read: we are at end of file
      have : content.length ≤ pos := by
        rcases Nat.lt_or_ge pos content.length with hl | hg
        · have := readinto_pos (want := want k) hB hl; omega
        · exact hg
      simp [List.drop_eq_nil_of_le this]
    · rename_i hne
      have hle := readinto_le (B := B) (len := content.length) (pos := pos) (want := want k)
      have hrec := ih (k+1) (pos + readinto B content.length pos (want k)) (by omega)
      simp only [List.flatten_cons, hrec]
      rw [← List.drop_drop]
      exact List.take_append_drop _ _

/-- every slice is non-empty and at most `B` bytes long -/
theorem chunks_sizes (B : Nat) (content : List Byte) (want : Nat → Nat) :
    ∀ (fuel k pos : Nat), ∀ c ∈ chunks B content want fuel k pos, 0 < c.length ∧ c.length ≤ B := by
  intro fuel
  induction fuel with
  | zero => intro k pos c h; simp [chunks] at h
  | succ n ih =>
    intro k pos c h
    simp only [chunks] at h
    split at h
    · simp at h
    · rename_i hne
      simp only [List.mem_cons] at h
      rcases h with h | h
      · subst h
        have h1 := readinto_le (B := B) (len := content.length) (pos := pos) (want := want k)
        have h2 := readinto_le_B (B := B) (len := content.length) (pos := pos) (want := want k)
        simp only [List.length_take, List.length_drop]
        omega
      · exact ih _ _ c h

/-- streaming law ⇒ feeding chunks = feeding their concatenation -/
theorem foldl_update {σ} (a : Algo σ)
    (law : ∀ s x y, a.update (a.update s x) y = a.update s (x ++ y))
    (nil : ∀ s, a.update s [] = s) :
    ∀ (cs : List (List Byte)) (s : σ), cs.foldl a.update s = a.update s cs.flatten := by
  intro cs
  induction cs with
  | nil => intro s; simp [nil]
  | cons c cs ih => intro s; simp [ih, law]

end Sedpack.Hash
