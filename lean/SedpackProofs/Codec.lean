import SedpackModel.Codec
/-! Lemmas about M-CODEC. -/
namespace Sedpack.Codec

theorem encodeLE_length : ∀ k v, (encodeLE k v).length = k
  | 0, _ => rfl
  | k+1, v => by simp [encodeLE, encodeLE_length k]

theorem encodeLE_lt : ∀ k v, ∀ b ∈ encodeLE k v, b < 256
  | 0, _ => by simp [encodeLE]
  | k+1, v => by
    intro b hb
    simp only [encodeLE, List.mem_cons] at hb
    rcases hb with h | h
    · subst h; omega
    · exact encodeLE_lt k _ b h

theorem decode_encode : ∀ k v, v < 256 ^ k → decodeLE (encodeLE k v) = v
  | 0, v => by intro h; simp at h; simp [encodeLE, decodeLE, h]
  | k+1, v => by
    intro h
    simp only [encodeLE, decodeLE]
    have : v / 256 < 256 ^ k := by
      rw [Nat.div_lt_iff_lt_mul (by omega)]; rw [Nat.pow_succ] at h; exact h
    rw [decode_encode k _ this]
    omega

theorem decodeLE_lt : ∀ bs : List Nat, (∀ b ∈ bs, b < 256) → decodeLE bs < 256 ^ bs.length
  | [] => by intro _; simp [decodeLE]
  | b :: bs => by
    intro h
    have hb := h b List.mem_cons_self
    have ih := decodeLE_lt bs (fun x hx => h x (List.mem_cons_of_mem _ hx))
    simp only [decodeLE, List.length_cons, Nat.pow_succ]
    omega

theorem encode_decode : ∀ bs : List Nat, (∀ b ∈ bs, b < 256) → encodeLE bs.length (decodeLE bs) = bs
  | [] => by intro _; rfl
  | b :: bs => by
    intro h
    have hb := h b List.mem_cons_self
    have ih := encode_decode bs (fun x hx => h x (List.mem_cons_of_mem _ hx))
    simp only [decodeLE, List.length_cons, encodeLE]
    have h1 : (b + 256 * decodeLE bs) % 256 = b := by omega
    have h2 : (b + 256 * decodeLE bs) / 256 = decodeLE bs := by omega
    rw [h1, h2, ih]

theorem storedBytes_eq (t : Tag) (h : Host) (k v : Nat) : storedBytes t h k v = encodeLE k v := by
  cases t <;> cases h <;> simp [storedBytes, writerSwaps, memBytes]

/-! ### C order -/

theorem ravel_lt : ∀ (shape idx : List Nat), InBounds shape idx → ravel shape idx < size shape
  | [], [], _ => by simp [ravel, size]
  | [], _ :: _, h => by simp [InBounds] at h
  | _ :: _, [], h => by simp [InBounds] at h
  | d :: ds, i :: is, h => by
    obtain ⟨hi, hr⟩ := h
    have ih := ravel_lt ds is hr
    simp only [ravel, size]
    calc i * size ds + ravel ds is < i * size ds + size ds := by omega
      _ = (i + 1) * size ds := by rw [Nat.add_mul, Nat.one_mul]
      _ ≤ d * size ds := Nat.mul_le_mul_right _ hi

theorem unravel_ravel : ∀ (shape idx : List Nat), InBounds shape idx → unravel shape (ravel shape idx) = idx
  | [], [], _ => rfl
  | [], _ :: _, h => by simp [InBounds] at h
  | _ :: _, [], h => by simp [InBounds] at h
  | d :: ds, i :: is, h => by
    obtain ⟨_, hr⟩ := h
    have hlt := ravel_lt ds is hr
    have ih := unravel_ravel ds is hr
    have hpos : 0 < size ds := by omega
    simp only [ravel, unravel]
    have h1 : (i * size ds + ravel ds is) / size ds = i := by
      rw [Nat.mul_comm, Nat.mul_add_div hpos, Nat.div_eq_of_lt hlt]; omega
    have h2 : (i * size ds + ravel ds is) % size ds = ravel ds is := by
      rw [Nat.mul_comm, Nat.mul_add_mod, Nat.mod_eq_of_lt hlt]
    rw [h1, h2, ih]

theorem unravel_inBounds : ∀ (shape : List Nat) (n : Nat), n < size shape → InBounds shape (unravel shape n)
  | [], _, _ => by simp [unravel, InBounds]
  | d :: ds, n, h => by
    simp only [size] at h
    have hpos : 0 < size ds := by
      rcases Nat.eq_zero_or_pos (size ds) with h0 | h0
      · rw [h0] at h; simp at h
      · exact h0
    refine ⟨?_, unravel_inBounds ds _ (Nat.mod_lt _ hpos)⟩
    rw [Nat.div_lt_iff_lt_mul hpos]; exact h

theorem ravel_unravel : ∀ (shape : List Nat) (n : Nat), n < size shape → ravel shape (unravel shape n) = n
  | [], n, h => by simp [size] at h; simp [ravel, unravel, h]
  | d :: ds, n, h => by
    simp only [size] at h
    have hpos : 0 < size ds := by
      rcases Nat.eq_zero_or_pos (size ds) with h0 | h0
      · rw [h0] at h; simp at h
      · exact h0
    simp only [unravel, ravel]
    rw [ravel_unravel ds _ (Nat.mod_lt _ hpos)]
    exact Nat.div_add_mod' n (size ds)

theorem indices_length (shape : List Nat) : (indices shape).length = size shape := by simp [indices]

theorem indices_get (shape idx : List Nat) (h : InBounds shape idx) :
    (indices shape)[ravel shape idx]? = some idx := by
  have hlt := ravel_lt shape idx h
  simp [indices, hlt, unravel_ravel shape idx h]

/-! ### integers -/

theorem pow_pred_double (b : Nat) (hb : 0 < b) : 2 ^ b = 2 * 2 ^ (b - 1) := by
  cases b with
  | zero => omega
  | succ n => simp [Nat.pow_succ, Nat.mul_comm]

theorem pattern_roundtrip (k : IntKind) (hb : 0 < k.bits) (v : Int) (h : k.holds v) :
    ofPattern k (toPattern k v) = v := by
  obtain ⟨hlo, hhi⟩ := h
  have hp := pow_pred_double k.bits hb
  generalize hP : 2 ^ (k.bits - 1) = P at *
  have hPpos : 0 < P := by rw [← hP]; exact Nat.pow_pos (by omega)
  simp only [IntKind.lo, IntKind.hi, hP] at hlo hhi
  simp only [toPattern, ofPattern, hp, hP]
  cases hs : k.signed
  · simp only [hs, Bool.false_eq_true, if_false] at hlo hhi
    simp only [Bool.false_eq_true, false_and, if_false]
    have : v % ((2 * P : Nat) : Int) = v := Int.emod_eq_of_lt hlo (by omega)
    rw [this]; omega
  · simp only [hs, if_true] at hlo hhi
    simp only [true_and]
    by_cases hneg : v < 0
    · have : v % ((2 * P : Nat) : Int) = v + (2 * P : Nat) := by
        rw [← Int.add_emod_right]; exact Int.emod_eq_of_lt (by omega) (by omega)
      rw [this]
      have hge : (v + ((2 * P : Nat) : Int)).toNat ≥ P := by omega
      rw [if_pos hge]; omega
    · have : v % ((2 * P : Nat) : Int) = v := Int.emod_eq_of_lt (by omega) (by omega)
      rw [this]
      have hlt : ¬ v.toNat ≥ P := by omega
      rw [if_neg hlt]; omega

theorem toPattern_lt (k : IntKind) (v : Int) : toPattern k v < 2 ^ k.bits := by
  simp only [toPattern]
  have hpos : (0 : Int) < ((2 ^ k.bits : Nat) : Int) := by
    have : 0 < 2 ^ k.bits := Nat.pow_pos (by omega)
    omega
  have h1 := Int.emod_nonneg v (Int.ne_of_gt hpos)
  have h2 := Int.emod_lt_of_pos v hpos
  omega


theorem groups_flatMap (k : Nat) (f : Nat → List Nat) (hf : ∀ x, (f x).length = k) :
    ∀ l : List Nat, groups k l.length (l.flatMap f) = l.map f
  | [] => rfl
  | x :: xs => by
    simp only [List.length_cons, List.flatMap_cons, groups, List.map_cons]
    rw [List.take_left' (hf x), List.drop_left' (hf x), groups_flatMap k f hf xs]

theorem sum_replicate_nat (n k : Nat) : (List.replicate n k).sum = n * k := by
  induction n with
  | zero => simp
  | succ n ih => rw [List.replicate_succ, List.sum_cons, ih, Nat.succ_mul, Nat.add_comm]

theorem flattenC_length (shape : List Nat) (elem : List Nat → Nat) : (flattenC shape elem).length = size shape := by
  simp [flattenC, indices_length]

theorem rangeIncl_holds (src dst : IntKind) (h : rangeIncl src dst = true) (v : Int) (hv : src.holds v) : dst.holds v := by
  simp only [rangeIncl, decide_eq_true_eq] at h
  obtain ⟨h1, h2⟩ := h
  obtain ⟨v1, v2⟩ := hv
  exact ⟨by omega, by omega⟩

end Sedpack.Codec
