import SedpackModel.ParMap
/-! Invariant of M-PMAP: every worker serves its own slot in order; `next()` returns the input order. -/
namespace Sedpack.PMap

def cnt (c : Cfg) (w : Nat) : Nat := c.nq + (if w < c.nr then 1 else 0)

theorem has_iff_lt_cnt (c : Cfg) (a b : Nat) (hb : b < c.m) : c.has a b ↔ a < cnt c b := by
  unfold Cfg.has cnt
  by_cases h : b < c.nr <;> simp [hb, h] <;> omega

@[simp] theorem upd_same {α} (f : Nat → α) (w : Nat) (v : α) : upd f w v w = v := by simp [upd]
theorem upd_other {α} (f : Nat → α) (w x : Nat) (v : α) (h : x ≠ w) : upd f w v x = f x := by simp [upd, h]

structure WInv (c : Cfg) (s : St) (w : Nat) : Prop where
  out : s.posOut w = s.q + (if w < s.now then 1 else 0)
  o_w : s.posOut w ≤ s.posW w
  w_i : s.posW w ≤ s.posIn w
  i_w : s.posIn w ≤ s.posW w + 1
  i_p : s.posIn w ≤ s.pipeLen w
  pipe : s.pipeLen w = min (s.posOut w + 1) (cnt c w)
  fin : s.dropped = false → (s.fin w = true ↔ cnt c w ≤ s.posOut w)
  ex : s.exited w = true → (s.fin w = true ∧ s.posIn w = s.pipeLen w ∧ s.posW w = s.posIn w) ∨ s.dropped = true

structure Inv (c : Cfg) (s : St) : Prop where
  now : 0 < c.m → s.now < c.m
  w : ∀ w, w < c.m → WInv c s w
  out : s.out = enumTo c.m s.q s.now

theorem enumTo_succ_now (m q now : Nat) : enumTo m q (now + 1) = enumTo m q now ++ [(q, now)] := by
  simp [enumTo, List.range_succ, List.append_assoc]

theorem enumTo_wrap (m q : Nat) : enumTo m (q + 1) 0 = enumTo m q m := by
  simp [enumTo, List.range_succ, List.flatMap_append]

theorem inv_init (c : Cfg) (hnq : 0 < c.m → 1 ≤ c.nq) : Inv c (init c) := by
  refine ⟨fun h => h, ?_, by simp [init, enumTo]⟩
  intro w hw
  have hq := hnq (by omega)
  refine ⟨by simp [init], by simp [init], by simp [init], by simp [init], by simp [init], ?_, ?_, by simp [init]⟩
  · simp only [init, hw, if_true, cnt]; split <;> omega
  · intro _; simp only [init, cnt]; constructor
    · intro h; cases h
    · intro h; split at h <;> omega

end Sedpack.PMap

namespace Sedpack.PMap

theorem inv_step (c : Cfg) (hnr : c.nr < c.m ∨ c.m = 0) (s s' : St) (l : Lbl) (hi : Inv c s) (hs : step c s l = some s') : Inv c s' := by
  cases l with
  | wRecv w =>
    simp only [step] at hs
    split at hs
    · rename_i hg
      obtain ⟨hw, hex, hidle⟩ := hg
      have hwi := hi.w w hw
      split at hs
      · rename_i hlt
        simp at hs; subst hs
        refine ⟨hi.now, ?_, hi.out⟩
        intro x hx
        by_cases hxw : x = w
        · subst hxw
          exact ⟨hwi.out, hwi.o_w, by simp; omega, by simp; omega, by simp; omega, hwi.pipe, hwi.fin, by intro h; simp only [] at h; rw [hex] at h; cases h⟩
        · have := hi.w x hx
          exact ⟨this.out, this.o_w, by simp [upd_other _ _ _ _ hxw]; exact this.w_i, by simp [upd_other _ _ _ _ hxw]; exact this.i_w,
                 by simp [upd_other _ _ _ _ hxw]; exact this.i_p, this.pipe, this.fin, by simpa [upd_other _ _ _ _ hxw] using this.ex⟩
      · rename_i hge
        split at hs
        · rename_i hfd
          simp at hs; subst hs
          refine ⟨hi.now, ?_, hi.out⟩
          intro x hx
          by_cases hxw : x = w
          · subst hxw
            refine ⟨hwi.out, hwi.o_w, hwi.w_i, hwi.i_w, hwi.i_p, hwi.pipe, hwi.fin, ?_⟩
            intro _
            rcases hfd with hf | hd
            · left; exact ⟨hf, by show s.posIn x = s.pipeLen x; have := hwi.i_p; omega, by show s.posW x = s.posIn x; exact hidle.symm⟩
            · right; exact hd
          · have := hi.w x hx
            exact ⟨this.out, this.o_w, this.w_i, this.i_w, this.i_p, this.pipe, this.fin, by simpa [upd_other _ _ _ _ hxw] using this.ex⟩
        · simp at hs
    · simp at hs
  | wSend w =>
    simp only [step] at hs
    split at hs
    · rename_i hg
      obtain ⟨hw, hex, hbusy⟩ := hg
      have hwi := hi.w w hw
      split at hs
      · rename_i hd
        simp at hs; subst hs
        refine ⟨hi.now, ?_, hi.out⟩
        intro x hx
        by_cases hxw : x = w
        · subst hxw
          exact ⟨hwi.out, hwi.o_w, hwi.w_i, hwi.i_w, hwi.i_p, hwi.pipe, hwi.fin, fun _ => Or.inr hd⟩
        · have := hi.w x hx
          exact ⟨this.out, this.o_w, this.w_i, this.i_w, this.i_p, this.pipe, this.fin, by simpa [upd_other _ _ _ _ hxw] using this.ex⟩
      · simp at hs; subst hs
        refine ⟨hi.now, ?_, hi.out⟩
        intro x hx
        by_cases hxw : x = w
        · subst hxw
          exact ⟨hwi.out, by simp; have := hwi.o_w; omega, by simp; omega, by simp; omega, hwi.i_p, hwi.pipe, hwi.fin,
                 by intro h; simp only [] at h; rw [hex] at h; cases h⟩
        · have := hi.w x hx
          exact ⟨this.out, by simp [upd_other _ _ _ _ hxw]; exact this.o_w, by simp [upd_other _ _ _ _ hxw]; exact this.w_i,
                 by simp [upd_other _ _ _ _ hxw]; exact this.i_w, this.i_p, this.pipe, this.fin,
                 by simpa [upd_other _ _ _ _ hxw] using this.ex⟩
    · simp at hs
  | cDrop =>
    simp only [step] at hs
    split at hs
    · simp at hs
    · simp at hs; subst hs
      refine ⟨hi.now, ?_, hi.out⟩
      intro x hx
      have := hi.w x hx
      exact ⟨this.out, this.o_w, this.w_i, this.i_w, this.i_p, this.pipe, by intro h; simp at h, fun _ => Or.inr rfl⟩
  | cNext =>
    simp only [step] at hs
    split at hs
    · simp at hs
    · rename_i hnd
      have hne : s.ended = false := by cases h : s.ended <;> simp_all
      have hndr : s.dropped = false := by cases h : s.dropped <;> simp_all
      split at hs
      · rename_i hm0
        simp at hs; subst hs
        exact ⟨hi.now, fun x hx => by
          have := hi.w x hx
          exact ⟨this.out, this.o_w, this.w_i, this.i_w, this.i_p, this.pipe, this.fin, this.ex⟩, hi.out⟩
      · rename_i hm
        have hmpos : 0 < c.m := by omega
        have hnow := hi.now hmpos
        have hwi := hi.w s.now hnow
        split at hs
        · rename_i hres
          -- facts about the served worker
          have hq : s.posOut s.now = s.q := by have := hwi.out; simpa using this
          have hqc : s.q < cnt c s.now := by
            have := hwi.pipe; have := hwi.o_w; have := hwi.w_i; have := hwi.i_p; omega
          have hfinF : s.fin s.now = false := by
            cases hf : s.fin s.now with
            | false => rfl
            | true => have := (hwi.fin hndr).mp hf; omega
          have hexF : s.exited s.now = false := by
            cases he : s.exited s.now with
            | false => rfl
            | true =>
              rcases hwi.ex he with ⟨hf, _, _⟩ | hd
              · rw [hfinF] at hf; cases hf
              · rw [hndr] at hd; cases hd
          have hhas := has_iff_lt_cnt c (s.q + 1) s.now hnow
          simp at hs
          subst hs
          by_cases hh : c.has (s.q + 1) s.now
          · have hlt : s.q + 1 < cnt c s.now := hhas.mp hh
            by_cases hwrap : s.now + 1 < c.m
            · simp only [hh, hwrap, if_true]
              refine ⟨fun _ => hwrap, ?_, ?_⟩
              · intro x hx
                by_cases hxw : x = s.now
                · subst hxw
                  refine ⟨by simp; omega, by simp; omega, hwi.w_i, hwi.i_w, by simp; have := hwi.i_p; omega,
                          by simp; have := hwi.pipe; omega, ?_, by intro h; simp only [] at h; rw [hexF] at h; cases h⟩
                  intro _; simp only [upd_same]; rw [hfinF]; constructor
                  · intro h; cases h
                  · intro h; omega
                · have := hi.w x hx
                  refine ⟨?_, by simp [upd_other _ _ _ _ hxw]; exact this.o_w, this.w_i, this.i_w,
                          by simp [upd_other _ _ _ _ hxw]; exact this.i_p, by simp [upd_other _ _ _ _ hxw]; exact this.pipe,
                          by simp [upd_other _ _ _ _ hxw]; exact this.fin, by simpa [upd_other _ _ _ _ hxw] using this.ex⟩
                  simp only [upd_other _ _ _ _ hxw]
                  have ho := this.out
                  by_cases h1 : x < s.now
                  · have : x < s.now + 1 := by omega
                    simp [h1, this] at ho ⊢; exact ho
                  · have : ¬ x < s.now + 1 := by omega
                    simp [h1, this] at ho ⊢; exact ho
              · simp only []; rw [hi.out, hq, enumTo_succ_now]
            · simp only [hh, hwrap, if_true, if_false]
              have hlast : s.now + 1 = c.m := by omega
              refine ⟨fun h => h, ?_, ?_⟩
              · intro x hx
                by_cases hxw : x = s.now
                · subst hxw
                  refine ⟨by simp; omega, by simp; omega, hwi.w_i, hwi.i_w, by simp; have := hwi.i_p; omega,
                          by simp; have := hwi.pipe; omega, ?_, by intro h; simp only [] at h; rw [hexF] at h; cases h⟩
                  intro _; simp only [upd_same]; rw [hfinF]; constructor
                  · intro h; cases h
                  · intro h; omega
                · have := hi.w x hx
                  refine ⟨?_, by simp [upd_other _ _ _ _ hxw]; exact this.o_w, this.w_i, this.i_w,
                          by simp [upd_other _ _ _ _ hxw]; exact this.i_p, by simp [upd_other _ _ _ _ hxw]; exact this.pipe,
                          by simp [upd_other _ _ _ _ hxw]; exact this.fin, by simpa [upd_other _ _ _ _ hxw] using this.ex⟩
                  simp only [upd_other _ _ _ _ hxw]
                  have ho := this.out
                  have h1 : x < s.now := by omega
                  simp [h1] at ho ⊢; omega
              · simp only []; rw [hi.out, hq, ← enumTo_succ_now, hlast, enumTo_wrap]
          · have hge : cnt c s.now ≤ s.q + 1 := by
              rcases Nat.lt_or_ge (s.q + 1) (cnt c s.now) with h | h
              · exact absurd (hhas.mpr h) hh
              · exact h
            by_cases hwrap : s.now + 1 < c.m
            · simp only [hh, hwrap, if_true, if_false]
              refine ⟨fun _ => hwrap, ?_, ?_⟩
              · intro x hx
                by_cases hxw : x = s.now
                · subst hxw
                  refine ⟨by simp; omega, by simp; omega, hwi.w_i, hwi.i_w, hwi.i_p,
                          by simp; have := hwi.pipe; omega, ?_, by intro h; simp only [] at h; rw [hexF] at h; cases h⟩
                  intro _; simp only [upd_same]; constructor
                  · intro _; omega
                  · intro _; trivial
                · have := hi.w x hx
                  refine ⟨?_, by simp [upd_other _ _ _ _ hxw]; exact this.o_w, this.w_i, this.i_w, this.i_p,
                          by simp [upd_other _ _ _ _ hxw]; exact this.pipe,
                          by simp [upd_other _ _ _ _ hxw]; exact this.fin, by simpa [upd_other _ _ _ _ hxw] using this.ex⟩
                  simp only [upd_other _ _ _ _ hxw]
                  have ho := this.out
                  by_cases h1 : x < s.now
                  · have : x < s.now + 1 := by omega
                    simp [h1, this] at ho ⊢; exact ho
                  · have : ¬ x < s.now + 1 := by omega
                    simp [h1, this] at ho ⊢; exact ho
              · simp only []; rw [hi.out, hq, enumTo_succ_now]
            · simp only [hh, hwrap, if_false]
              have hlast : s.now + 1 = c.m := by omega
              refine ⟨fun h => h, ?_, ?_⟩
              · intro x hx
                by_cases hxw : x = s.now
                · subst hxw
                  refine ⟨by simp; omega, by simp; omega, hwi.w_i, hwi.i_w, hwi.i_p,
                          by simp; have := hwi.pipe; omega, ?_, by intro h; simp only [] at h; rw [hexF] at h; cases h⟩
                  intro _; simp only [upd_same]; constructor
                  · intro _; omega
                  · intro _; trivial
                · have := hi.w x hx
                  refine ⟨?_, by simp [upd_other _ _ _ _ hxw]; exact this.o_w, this.w_i, this.i_w, this.i_p,
                          by simp [upd_other _ _ _ _ hxw]; exact this.pipe,
                          by simp [upd_other _ _ _ _ hxw]; exact this.fin, by simpa [upd_other _ _ _ _ hxw] using this.ex⟩
                  simp only [upd_other _ _ _ _ hxw]
                  have ho := this.out
                  have h1 : x < s.now := by omega
                  simp [h1] at ho ⊢; omega
              · simp only []; rw [hi.out, hq, ← enumTo_succ_now, hlast, enumTo_wrap]
        · split at hs
          · simp at hs; subst hs
            exact ⟨hi.now, fun x hx => by
              have := hi.w x hx
              exact ⟨this.out, this.o_w, this.w_i, this.i_w, this.i_p, this.pipe, this.fin, this.ex⟩, hi.out⟩
          · simp at hs

theorem inv_reach (c : Cfg) (hnq : 0 < c.m → 1 ≤ c.nq) (hnr : c.nr < c.m ∨ c.m = 0) (s : St) (h : Reach c s) : Inv c s := by
  induction h with
  | init => exact inv_init c hnq
  | step _ hs ih => exact inv_step c hnr _ _ _ ih hs

end Sedpack.PMap

namespace Sedpack.PMap

/-- once `next()` has returned None, the worker it was waiting for has exited (or none was started) -/
theorem ended_inv (c : Cfg) (s : St) (h : Reach c s) : s.ended = true → c.m = 0 ∨ s.exited s.now = true := by
  induction h with
  | init => intro h; simp [init] at h
  | @step s s' l _ hs ih =>
    intro he
    cases l with
    | wRecv w =>
      simp only [step] at hs
      split at hs
      · split at hs
        · simp at hs; subst hs; exact ih he
        · split at hs
          · simp at hs; subst hs
            rcases ih he with h | h
            · exact Or.inl h
            · right; simp only [upd]; split <;> simp_all
          · simp at hs
      · simp at hs
    | wSend w =>
      simp only [step] at hs
      split at hs
      · split at hs
        · simp at hs; subst hs
          rcases ih he with h | h
          · exact Or.inl h
          · right; simp only [upd]; split <;> simp_all
        · simp at hs; subst hs; exact ih he
      · simp at hs
    | cDrop =>
      simp only [step] at hs
      split at hs
      · simp at hs
      · simp at hs; subst hs; exact ih he
    | cNext =>
      simp only [step] at hs
      split at hs
      · simp at hs
      · rename_i hnd
        have hne : s.ended = false := by cases h : s.ended <;> simp_all
        split at hs
        · rename_i hm0; exact Or.inl hm0
        · split at hs
          · -- a successful call keeps `ended = false`
            simp at hs; subst hs
            exfalso
            revert he
            split <;> split <;> simp [hne]
          · split at hs
            · rename_i hex
              simp at hs; subst hs; exact Or.inr hex
            · simp at hs

theorem mem_enumTo (m q now a b : Nat) : (a, b) ∈ enumTo m q now ↔ (a < q ∧ b < m) ∨ (a = q ∧ b < now) := by
  simp only [enumTo, List.mem_append, List.mem_flatMap, List.mem_map, List.mem_range, Prod.mk.injEq]
  constructor
  · rintro (⟨a', ha', b', hb', rfl, rfl⟩ | ⟨b', hb', rfl, rfl⟩)
    · exact Or.inl ⟨ha', hb'⟩
    · exact Or.inr ⟨rfl, hb'⟩
  · rintro (⟨h1, h2⟩ | ⟨h1, h2⟩)
    · exact Or.inl ⟨a, h1, b, h2, rfl, rfl⟩
    · exact Or.inr ⟨b, h2, h1.symm, rfl⟩

end Sedpack.PMap
