import SedpackProofs.TreeSession
/-! `Dataset.check`: completeness on exact trees, detection of every modification. -/
namespace Sedpack.Tree

/-- every shard entry reachable from `k` names an existing file whose digest is the recorded one -/
inductive ShardsOK (Hf : Nat → Nat) (fs : FS) (files : Files) : Kid → Prop
  | mk {k : Kid} {l : SList} : fs k.dir = some l →
      (∀ s ∈ l.files, ∃ c, files k.dir s.file = some c ∧ Hf c = s.hash) →
      (∀ c ∈ l.kids, ShardsOK Hf fs files c) → ShardsOK Hf fs files k

/-- **Completeness**: on an exact tree pass 1 succeeds (given enough fuel for its depth). -/
theorem checkLists_complete (H : SList → Nat) (B : Nat) : ∀ (fuel : Nat) (fs : FS) (k : Kid), Exact H fs k →
    DepthOK fs B → k.dir.length ≤ B → B < fuel + k.dir.length → checkLists H fuel fs k = true := by
  intro fuel
  induction fuel with
  | zero => intro fs k _ _ h1 h2; omega
  | succ fuel ih =>
    intro fs k hex hd hle hf
    cases hex with
    | @mk _ l hget hh hn hs hwf hkids =>
      simp only [checkLists, hget, hh, beq_self_eq_true, Bool.true_and, List.all_eq_true]
      intro c hc
      obtain ⟨y, hy⟩ := hwf.shape c hc
      exact ih fs c (hkids c hc) hd (hd k.dir l hget c hc) (by rw [hy]; simp; omega)

theorem checkShards_complete (H : SList → Nat) (Hf : Nat → Nat) (B : Nat) : ∀ (fuel : Nat) (fs : FS) (files : Files) (k : Kid),
    Exact H fs k → ShardsOK Hf fs files k → DepthOK fs B → k.dir.length ≤ B → B < fuel + k.dir.length →
    checkShards Hf fuel fs files k.dir = true := by
  intro fuel
  induction fuel with
  | zero => intro fs files k _ _ _ h1 h2; omega
  | succ fuel ih =>
    intro fs files k hex hok hd hle hf
    cases hex with
    | @mk _ l hget hh hn hs hwf hkids =>
      cases hok with
      | @mk _ l2 hget2 hfiles hk2 =>
        rw [hget] at hget2; cases hget2
        simp only [checkShards, hget, Bool.and_eq_true, List.all_eq_true]
        refine ⟨?_, ?_⟩
        · intro s hs'
          obtain ⟨c, hc1, hc2⟩ := hfiles s hs'
          simp [hc1, hc2]
        · intro c hc
          obtain ⟨y, hy⟩ := hwf.shape c hc
          exact ih fs files c (hkids c hc) (hk2 c hc) hd (hd k.dir l hget c hc) (by rw [hy]; simp; omega)

/-- a list file `x` counts as *detectably modified* when it is gone or its new content has a
digest different from the committed one (the no-collision premise for this specific pair) -/
def ListModified (H : SList → Nat) (fs fs' : FS) (x : Dir) : Prop :=
  fs' x ≠ fs x ∧ ∀ l l', fs x = some l → fs' x = some l' → H l' ≠ H l

/-- every list file below `k` is either untouched or detectably modified -/
def ListsTame (H : SList → Nat) (fs fs' : FS) (d : Dir) : Prop :=
  ∀ x, Reaches fs d x → fs' x = fs x ∨ ListModified H fs fs' x

/-- **Detection, pass 1**: if some list file reachable from the description was altered, removed
or replaced (each altered one with a digest different from the recorded one), pass 1 fails. -/
theorem checkLists_detects (H : SList → Nat) : ∀ (fuel : Nat) (fs fs' : FS) (k : Kid), Exact H fs k →
    ListsTame H fs fs' k.dir → (∃ x, Reaches fs k.dir x ∧ fs' x ≠ fs x) → checkLists H fuel fs' k = false := by
  intro fuel
  induction fuel with
  | zero => intro fs fs' k _ _ _; rfl
  | succ fuel ih =>
    intro fs fs' k hex htame hmod
    cases hex with
    | @mk _ l hget hh hn hs hwf hkids =>
      rcases htame k.dir (Reaches.refl _) with hsame | hm
      · -- this file is as committed: the walk continues into the committed children
        simp only [checkLists, hsame, hget]
        obtain ⟨x, hx, hne⟩ := hmod
        cases hx with
        | refl => exact absurd hsame hne
        | @step _ _ c l2 hget2 hc hcx =>
          rw [hget] at hget2; cases hget2
          have hsub : ListsTame H fs fs' c.dir := fun y hy => htame y (Reaches.step hget hc hy)
          have := ih fs fs' c (hkids c hc) hsub ⟨x, hcx, hne⟩
          simp only [Bool.and_eq_false_iff]
          right
          rw [List.all_eq_false]
          exact ⟨c, hc, by simp [this]⟩
      · -- this very file was modified: digest mismatch (or file missing) before it is even parsed
        simp only [checkLists]
        cases hfs' : fs' k.dir with
        | none => rfl
        | some l' =>
          have := hm.2 l l' hget hfs'
          simp only [Bool.and_eq_false_iff]
          left
          rw [hh]; simpa using this

/-- a shard file is detectably modified when it is gone or its new digest differs from the recorded one -/
def ShardTame (Hf : Nat → Nat) (files files' : Files) (d : Dir) (s : Shard) : Prop :=
  files' d s.file = files d s.file ∨ (∀ c, files' d s.file = some c → Hf c ≠ s.hash)

/-- **Detection, pass 2**: with all list files as committed, altering / removing / replacing any
listed shard file (new digest different from the recorded one) makes pass 2 fail. -/
theorem checkShards_detects (H : SList → Nat) (Hf : Nat → Nat) : ∀ (fuel : Nat) (fs : FS) (files files' : Files) (k : Kid),
    Exact H fs k → ShardsOK Hf fs files k →
    (∀ x l, Reaches fs k.dir x → fs x = some l → ∀ s ∈ l.files, ShardTame Hf files files' x s) →
    (∃ x l s, Reaches fs k.dir x ∧ fs x = some l ∧ s ∈ l.files ∧ files' x s.file ≠ files x s.file) →
    checkShards Hf fuel fs files' k.dir = false := by
  intro fuel
  induction fuel with
  | zero => intro fs files files' k _ _ _ _; rfl
  | succ fuel ih =>
    intro fs files files' k hex hok htame hmod
    cases hex with
    | @mk _ l hget hh hn hs hwf hkids =>
      cases hok with
      | @mk _ l2 hget2 hfiles hk2 =>
        rw [hget] at hget2; cases hget2
        obtain ⟨x, lx, s, hx, hlx, hs', hne⟩ := hmod
        simp only [checkShards, hget, Bool.and_eq_false_iff]
        cases hx with
        | refl =>
          rw [hget] at hlx; cases hlx
          left
          rw [List.all_eq_false]
          refine ⟨s, hs', ?_⟩
          rcases htame k.dir l (Reaches.refl _) hget s hs' with hsame | hdiff
          · exact absurd hsame hne
          · cases hf : files' k.dir s.file with
            | none => simp
            | some c => simpa using hdiff c hf
        | @step _ _ c l3 hget3 hc hcx =>
          rw [hget] at hget3; cases hget3
          right
          rw [List.all_eq_false]
          refine ⟨c, hc, ?_⟩
          have := ih fs files files' c (hkids c hc) (hk2 c hc)
            (fun y ly hy hly t ht => htame y ly (Reaches.step hget hc hy) hly t ht)
            ⟨x, lx, s, hcx, hlx, hs', hne⟩
          simp [this]

end Sedpack.Tree
