import SedpackModel.Reg
/-! The invariant of M-REG under fresh keys: live handles own their registry entries exclusively. -/
namespace Sedpack.Reg

structure Inv (s : St) : Prop where
  /-- a live handle's registry entry holds exactly what it has not been handed yet -/
  live : ∀ h k, s.key h = some k → ∃ rem, s.reg k = some rem ∧ s.got h ++ rem = s.items h
  /-- no two live handles hold the same key -/
  uniq : ∀ h h' k, s.key h = some k → s.key h' = some k → h' = h
  /-- whatever a handle (live or gone) has been handed is a prefix of what it was created over -/
  pref : ∀ h, ∃ rem, s.got h ++ rem = s.items h

theorem inv_init : Inv {} := ⟨by intro h k hk; simp at hk, by intro h h' k hk; simp at hk, by intro h; exact ⟨[], by simp⟩⟩

theorem step_inv (s s' : St) (l : Lbl) (hi : Inv s)
    (hf : match l with | .new h k _ => s.reg k = none ∧ s.key h = none ∧ s.got h = [] ∧ s.items h = [] | _ => True)
    (h : step s l = some s') : Inv s' := by
  cases l with
  | new h0 k its =>
    obtain ⟨hk0, hh0, _, _⟩ := hf
    simp only [step] at h; injection h with h; subst h
    refine ⟨?_, ?_, ?_⟩
    · intro h k' hk
      by_cases e : h = h0
      · subst e; simp at hk; subst hk; exact ⟨its, by simp [Store.set], by simp⟩
      · simp [e] at hk
        obtain ⟨rem, h1, h2⟩ := hi.live h k' hk
        have : k' ≠ k := by intro e2; subst e2; rw [hk0] at h1; cases h1
        exact ⟨rem, by simp [Store.set, this, h1], by simp [e, h2]⟩
    · intro h h' k' hk hk'
      by_cases e : h = h0 <;> by_cases e' : h' = h0
      · rw [e, e']
      · subst e; simp at hk; simp [e'] at hk'; rw [← hk] at hk'
        obtain ⟨rem, h1, _⟩ := hi.live h' k hk'; rw [hk0] at h1; cases h1
      · subst e'; simp at hk'; simp [e] at hk; rw [← hk'] at hk
        obtain ⟨rem, h1, _⟩ := hi.live h k hk; rw [hk0] at h1; cases h1
      · simp [e] at hk; simp [e'] at hk'; exact hi.uniq h h' k' hk hk'
    · intro h
      by_cases e : h = h0
      · subst e; exact ⟨its, by simp⟩
      · simp [e]; exact hi.pref h
  | next h0 =>
    simp only [step] at h
    cases hk0 : s.key h0 with
    | none => simp [hk0] at h
    | some k =>
      simp [hk0] at h
      cases hr : s.reg k with
      | none => simp [hr] at h
      | some l0 =>
        cases l0 with
        | nil => simp [hr] at h; subst h; exact hi
        | cons x r =>
          simp [hr] at h; subst h
          obtain ⟨rem0, hr0, hg0⟩ := hi.live h0 k hk0
          rw [hr] at hr0; injection hr0 with hr0; subst hr0
          refine ⟨?_, ?_, ?_⟩
          · intro h k' hk
            by_cases e : h = h0
            · subst e; rw [hk0] at hk; injection hk with hk; subst hk
              exact ⟨r, by simp [Store.set], by simp [← hg0]⟩
            · obtain ⟨rem, h1, h2⟩ := hi.live h k' hk
              have : k' ≠ k := by intro e2; subst e2; exact e (hi.uniq h0 h k' hk0 hk)
              exact ⟨rem, by simp [Store.set, this, h1], by simp [e, h2]⟩
          · exact hi.uniq
          · intro h
            by_cases e : h = h0
            · subst e; exact ⟨r, by simp [← hg0]⟩
            · simp [e]; exact hi.pref h
  | exit h0 =>
    simp only [step] at h
    cases hk0 : s.key h0 with
    | none => simp [hk0] at h
    | some k =>
      simp [hk0] at h; subst h
      refine ⟨?_, ?_, hi.pref⟩
      · intro h k' hk
        by_cases e : h = h0
        · subst e; simp at hk
        · simp [e] at hk
          obtain ⟨rem, h1, h2⟩ := hi.live h k' hk
          have : k' ≠ k := by intro e2; subst e2; exact e (hi.uniq h0 h k' hk0 hk)
          exact ⟨rem, by simp [Store.set, this, h1], h2⟩
      · intro h h' k' hk hk'
        by_cases e : h = h0
        · subst e; simp at hk
        · by_cases e' : h' = h0
          · subst e'; simp at hk'
          · simp [e] at hk; simp [e'] at hk'; exact hi.uniq h h' k' hk hk'

theorem run_inv (ls : List Lbl) (s s' : St) (hi : Inv s) (hf : Fresh s ls) (h : run s ls = some s') : Inv s' := by
  induction ls generalizing s with
  | nil => simp [run] at h; subst h; exact hi
  | cons l ls ih =>
    simp only [run] at h
    obtain ⟨hf1, hf2⟩ := hf
    cases hs : step s l with
    | none => simp [hs] at h
    | some s1 =>
      simp [hs] at h hf2
      exact ih s1 (step_inv s s1 l hi hf1 hs) hf2 h

end Sedpack.Reg
